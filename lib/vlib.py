"""Common machinery for the libfiber property checks.

A property module (props/Cxx.py) exposes

    INFO = dict(functions=[...], stubs=[...], bounds="...", outside="...")
    def plan(tier, ctx) -> list[Job]

The driver (../check) runs the jobs in parallel under hard time / memory caps,
interprets the solver verdicts, matches failures against known_findings.json,
writes evidence/<id>.json and prints VIOLATION / KNOWN-FINDING lines.

Verdict rules
  expect='hold'    : every assertion must be proved (bounded) -> ok
                     a failed assertion                        -> violation
  expect='witness' : reachability twin; its `witness` assertion MUST fail
                     (otherwise the harness is vacuous -> check is broken)
  timeout / OOM / tool error on a required job -> inconclusive (exit 3)
  timeout on a non-required ("stretch") job    -> recorded as no_verdict
"""
import json, os, re, resource, shlex, signal, subprocess, sys, time, hashlib
from concurrent.futures import ThreadPoolExecutor

VERIF = os.path.dirname(os.path.dirname(os.path.abspath(__file__)))
REPO = os.environ.get('VERIF_REPO', '/repo')
BUILD = os.environ.get('VERIF_BUILD') or os.path.join(VERIF, 'build')   # VERIF_BUILD: separate build dir for runs against a scratch tree
NPROC = int(os.environ.get('VERIF_JOBS', '0')) or (os.cpu_count() or 4)

# defines of the pinned build that matter for the code being encoded.  The pinned
# build uses -fsplit-stack (FIBER_STACK_SPLIT, gcc only); the split-stack runtime
# is libgcc and out of reach, so encodings use the malloc stack strategy.
REPO_DEFS = ['-DNDEBUG', '-DFIBER_FAST_SWITCHING', '-DFIBER_STACK_MALLOC', '-D_GNU_SOURCE']
REPO_INC = ['-I' + os.path.join(REPO, 'include'), '-I' + os.path.join(REPO, 'src')]

CBMC_BASE = ['--unwinding-assertions', '--drop-unused-functions', '--trace',
             '--no-malloc-may-fail']


class Job:
    def __init__(self, name, argv, expect='hold', timeout=300, mem_gb=8, required=True,
                 meta=None, cwd=None, kind='cbmc', witness_of=None, env=None):
        self.name = name
        self.argv = argv
        self.expect = expect          # 'hold' | 'witness'
        self.timeout = timeout
        self.mem_gb = mem_gb
        self.required = required
        self.meta = meta or {}
        self.cwd = cwd
        self.kind = kind              # 'cbmc' | 'z3py' | 'cmd'
        self.witness_of = witness_of  # name of the hold job this twin belongs to
        self.env = env


class Result:
    def __init__(self, job):
        self.job = job
        self.status = None      # 'proved' | 'failed' | 'timeout' | 'oom' | 'error'
        self.failed = []        # list of (property-name, description)
        self.n_props = 0
        self.wall = 0.0
        self.rss_mb = 0
        self.vars = 0
        self.clauses = 0
        self.solver_s = 0.0
        self.log = None
        self.rc = None


def _limits(mem_gb):
    def f():
        os.setsid()
        b = int(mem_gb * (1 << 30))
        resource.setrlimit(resource.RLIMIT_AS, (b, b))
    return f


def run_cmd(argv, timeout, mem_gb=8, cwd=None, log=None, env=None):
    """run argv under a wall-clock and address-space cap; returns (rc|'timeout', output, wall, rss_mb)"""
    t0 = time.time()
    e = dict(os.environ)
    if env:
        e.update(env)
    p = subprocess.Popen(argv, stdout=subprocess.PIPE, stderr=subprocess.STDOUT, cwd=cwd,
                         preexec_fn=_limits(mem_gb), env=e, text=True, errors='replace')
    try:
        out, _ = p.communicate(timeout=timeout)
        rc = p.returncode
    except subprocess.TimeoutExpired:
        try:
            os.killpg(p.pid, signal.SIGKILL)
        except ProcessLookupError:
            pass
        out, _ = p.communicate()
        rc = 'timeout'
    wall = time.time() - t0
    ru = resource.getrusage(resource.RUSAGE_CHILDREN)
    if log:
        os.makedirs(os.path.dirname(log), exist_ok=True)
        with open(log, 'w') as f:
            f.write('$ ' + ' '.join(shlex.quote(a) for a in argv) + '\n')
            f.write(out or '')
            f.write('\n[rc=%s wall=%.1fs]\n' % (rc, wall))
    return rc, out or '', wall, ru.ru_maxrss // 1024


_RE_PROP = re.compile(r'^\[(\S+)\] (.*?): (SUCCESS|FAILURE|UNKNOWN|ERROR)\s*$', re.M)
_RE_VARS = re.compile(r'(\d+) variables, (\d+) clauses')
_RE_RT = re.compile(r'Runtime decision procedure: ([\d.]+)s|Runtime Solver: (?:[\d.]+)s')


def parse_cbmc(out, res):
    props = _RE_PROP.findall(out)
    res.n_props = len(props)
    res.failed = [(n, d) for n, d, s in props if s == 'FAILURE']
    m = _RE_VARS.findall(out)
    if m:
        res.vars, res.clauses = int(m[-1][0]), int(m[-1][1])
    for a in _RE_RT.findall(out):
        try:
            res.solver_s += float(a) if a else 0.0
        except ValueError:
            pass
    if 'VERIFICATION SUCCESSFUL' in out:
        res.status = 'proved'
    elif 'VERIFICATION FAILED' in out:
        res.status = 'failed'
    elif re.search(r'std::bad_alloc|Out of memory|out of memory|MemoryError', out):
        res.status = 'oom'
    else:
        res.status = 'error'


def run_job(job, logdir):
    res = Result(job)
    res.log = os.path.join(logdir, re.sub(r'[^\w.+-]', '_', job.name) + '.log')
    rc, out, wall, rss = run_cmd(job.argv, job.timeout, job.mem_gb, job.cwd, res.log, job.env)
    res.wall, res.rss_mb, res.rc = wall, rss, rc
    if rc == 'timeout':
        res.status = 'timeout'
        return res
    if job.kind == 'cbmc':
        parse_cbmc(out, res)
        if res.status == 'error' and rc in (-9, 137, -6, 134) :
            res.status = 'oom'
    else:
        # generic protocol: lines "OBLIGATION <name>: PROVED|FAILED <desc>", final "RESULT: PROVED|FAILED"
        obl = re.findall(r'^OBLIGATION (\S+): (PROVED|FAILED)(?: (.*))?$', out, re.M)
        res.n_props = len(obl)
        res.failed = [(n, d) for n, s, d in obl if s == 'FAILED']
        m = re.search(r'^SOLVER_S: ([\d.]+)', out, re.M)
        if m:
            res.solver_s = float(m.group(1))
        if re.search(r'^RESULT: PROVED', out, re.M) and rc == 0:
            res.status = 'proved'
        elif re.search(r'^RESULT: FAILED', out, re.M):
            res.status = 'failed'
        else:
            res.status = 'error'
    return res


def run_jobs(jobs, logdir, parallel=None):
    os.makedirs(logdir, exist_ok=True)
    parallel = parallel or NPROC
    with ThreadPoolExecutor(max_workers=parallel) as ex:
        return list(ex.map(lambda j: run_job(j, logdir), jobs))


# ---------------------------------------------------------------- build helpers
def sh(argv, timeout=300, cwd=None, what='build step'):
    rc, out, wall, _ = run_cmd(argv, timeout, 16, cwd)
    if rc != 0:
        raise BuildError('%s failed (rc=%s): %s\n%s' % (what, rc, ' '.join(argv), out[-4000:]))
    return out


class BuildError(Exception):
    pass


def cbmc_argv(srcs, function=None, unwind=None, unwindset=None, defines=(), includes=(),
              extra=(), base=True, object_bits=None, repo_defs=True):
    a = ['cbmc'] + list(srcs)
    if repo_defs:
        a += REPO_DEFS + REPO_INC
    a += ['-D' + d for d in defines] + ['-I' + i for i in includes]
    if function:
        a += ['--function', function]
    if unwind is not None:
        a += ['--unwind', str(unwind)]
    if unwindset:
        a += ['--unwindset', ','.join('%s:%d' % kv for kv in unwindset.items())]
    if object_bits:
        a += ['--object-bits', str(object_bits)]
    if base:
        a += CBMC_BASE
    a += list(extra)
    return a


def pair(name, srcs, function, timeout=300, required=True, meta=None, mem_gb=8, **kw):
    """a hold job and its -DWITNESS reachability twin"""
    meta = dict(meta or {})
    meta.setdefault('harness', function)
    defs = list(kw.pop('defines', ()))
    hold = Job(name, cbmc_argv(srcs, function, defines=defs, **kw), 'hold', timeout, mem_gb, required, meta)
    wit = Job(name + '#witness', cbmc_argv(srcs, function, defines=defs + ['WITNESS'], **kw), 'witness',
              timeout, mem_gb, required, meta, witness_of=name)
    return [hold, wit]


# ---------------------------------------------------------------- known findings
def load_known():
    p = os.path.join(VERIF, 'known_findings.json')
    if not os.path.exists(p):
        return {'findings': [], 'fixed': []}
    return json.load(open(p))


def match_known(pid, jobname, desc, known):
    for f in known.get('findings', []):
        if f['property'] != pid:
            continue
        if re.search(f.get('job', '.*'), jobname) and re.search(f['assertion'], desc):
            return f
    return None


# ---------------------------------------------------------------- driver
def tree_id():
    try:
        h = subprocess.run(['git', '-C', REPO, 'rev-parse', 'HEAD'], capture_output=True, text=True).stdout.strip()
        d = subprocess.run(['git', '-C', REPO, 'diff', 'HEAD', '--', 'src', 'include'], capture_output=True, text=True).stdout
        return h[:12] + ('+dirty:' + hashlib.sha1(d.encode()).hexdigest()[:8] if d else '')
    except Exception:
        return 'unknown'


def drive(pid, mod, tier, seed=0, only=None):
    t0 = time.time()
    logdir = os.path.join(BUILD, pid, 'logs')
    ctx = {'build': os.path.join(BUILD, pid), 'tier': tier, 'seed': seed, 'repo': REPO, 'verif': VERIF}
    os.makedirs(ctx['build'], exist_ok=True)
    # two runs of the same property (e.g. quick and thorough started together) share build/<id>: serialise them
    import fcntl
    _lock = open(os.path.join(ctx['build'], '.lock'), 'w')
    fcntl.flock(_lock, fcntl.LOCK_EX)
    globals()['_build_lock'] = _lock
    t0 = time.time()
    try:
        jobs = mod.plan(tier, ctx)
    except BuildError as e:
        print('ERROR property=%s encoding could not be generated from the current tree:\n%s' % (pid, e))
        write_evidence(pid, mod, tier, seed, [], t0, 0, note='build error: %s' % str(e)[:500])
        return 2
    # stretch configurations that have never produced a verdict on the unchanged tree (stretch_unvalidated.json) are built but not run
    # by the registered commands: their oracles were never validated in that parameter regime (two such configurations reported
    # oracle errors as violations the first time they finished, DESIGN.md section 9).  VERIF_STRETCH_ALL=1 runs them.
    skipped_unvalidated = []
    if os.environ.get('VERIF_STRETCH_ALL') != '1':
        try:
            unval = set(json.load(open(os.path.join(VERIF, 'stretch_unvalidated.json'))).get(pid, []))
        except Exception:
            unval = set()
        keep = []
        for j in jobs:
            base = j.name.split('#')[0]
            if not j.required and base in unval:
                if '#' not in j.name:
                    skipped_unvalidated.append(base)
            else:
                keep.append(j)
        jobs = keep
        if skipped_unvalidated:
            print('NOT-RUN (stretch configurations never validated on the unchanged tree; VERIF_STRETCH_ALL=1 runs them): ' + ', '.join(skipped_unvalidated))
    mod._skipped_unvalidated = skipped_unvalidated
    if only:
        jobs = [j for j in jobs if re.search(only, j.name)]
        mod._partial_run = True
    results = run_jobs(jobs, logdir)
    known = load_known()
    byname = {r.job.name: r for r in results}
    violations, knowns, broken, inconclusive, noverdict = [], [], [], [], []
    for r in results:
        j = r.job
        if r.status in ('timeout', 'oom', 'error'):
            (inconclusive if j.required else noverdict).append(r)
            continue
        if j.expect == 'witness':
            wit_failed = [d for n, d in r.failed if 'witness' in d.lower()]
            if not wit_failed:
                broken.append(r)
            continue
        if r.status == 'failed':
            for n, d in r.failed:
                if re.search(r'unwinding assertion|(^|\d )encoding: ', d):
                    inconclusive.append(r)   # bound too small / encoding incomplete: not a verdict either way
                    continue
                k = match_known(pid, j.name, d, known)
                (knowns if k else violations).append((r, n, d, k))
    rc = 0
    for r, n, d, k in knowns:
        print('KNOWN-FINDING: property=%s %s [%s: %s]' % (pid, k['what'], r.job.name, d))
    seen = set()
    for r, n, d, k in violations:
        rp = save_replay(pid, r, n, d)
        if (r.job.name, d) in seen:
            continue
        seen.add((r.job.name, d))
        print('VIOLATION property=%s replay=%s' % (pid, rp))
        print('  job=%s assertion="%s" (%s)' % (r.job.name, d, n))
        rc = 1
    for r in broken:
        print('BROKEN-CHECK property=%s job=%s: reachability witness not reachable (vacuous harness), log=%s'
              % (pid, r.job.name, r.log))
    for r in inconclusive:
        print('INCONCLUSIVE property=%s job=%s status=%s wall=%.0fs log=%s'
              % (pid, r.job.name, r.status if r.status != 'failed' else 'unwinding-bound', r.wall, r.log))
    for r in noverdict:
        print('NO-VERDICT (stretch configuration) property=%s job=%s status=%s wall=%.0fs' % (pid, r.job.name, r.status, r.wall))
    if rc == 0 and broken:
        rc = 2
    if rc == 0 and inconclusive:
        rc = 3
    write_evidence(pid, mod, tier, seed, results, t0, len(seen), knowns=knowns, noverdict=noverdict)
    proved = sum(1 for r in results if r.job.expect == 'hold' and r.status == 'proved')
    print('%s tier=%s: %d solver queries, %d hold-configurations proved, %d violations, %d known findings, %.0fs'
          % (pid, tier, len(results), proved, len(seen), len(knowns), time.time() - t0))
    return rc


def save_replay(pid, r, n, d):
    rdir = os.path.join(VERIF, 'replays', pid)
    os.makedirs(rdir, exist_ok=True)
    base = re.sub(r'[^\w.+-]', '_', r.job.name)
    rp = os.path.join(rdir, base + '.replay.txt')
    try:
        log = open(r.log).read()
    except Exception:
        log = ''
    with open(rp, 'w') as f:
        f.write('property: %s\njob: %s\nfailed assertion: %s (%s)\ntree: %s\n' % (pid, r.job.name, d, n, tree_id()))
        f.write('re-run: cd /verif && ./check %s --only %s\n' % (pid, shlex.quote('^' + re.escape(r.job.name) + '$')))
        f.write('solver command: %s\n\n' % ' '.join(shlex.quote(a) for a in r.job.argv))
        f.write('---- counterexample trace (solver output) ----\n')
        f.write(log[-400000:])
    try:
        if str(r.job.meta.get('engine', '')).startswith('E2'):
            sched = e2_schedule(log, n)
            if sched:
                with open(rp, 'a') as f:
                    f.write('\n---- interleaving of the counterexample: runs of memory-cell writes per VM thread (m<obj>_<cell> shared, s<obj>_<cell> thread-private copy; object names are listed at the top of the generated <cfg>.cbmc.c) ----\n')
                    f.write(sched + '\n')
    except Exception as e:
        pass
    hook = r.job.meta.get('replay')
    if hook:
        try:
            extra = hook(r, rp)
            if extra:
                with open(rp, 'a') as f:
                    f.write('\n---- native replay against the real code ----\n' + extra)
        except Exception as e:  # replay is best effort; the solver verdict stands
            with open(rp, 'a') as f:
                f.write('\n[native replay failed to run: %s]\n' % e)
    return rp


def e2_schedule(log, propname):
    """compress the CBMC trace of an E2 counterexample into the interleaving: runs of consecutive shared-cell writes / harness
    events of one VM thread, labelled with the real (translated) function they happen in"""
    i = log.find('Trace for ' + propname)
    if i < 0:
        i = log.find('Counterexample:')
    if i < 0:
        return ''
    seg = log[i:]
    j = seg.find('Violated property')
    seg = seg[:j + 400] if j > 0 else seg[:300000]
    out, last = [], None
    for m in re.finditer(r'State \d+ file \S+ function (\S+) line \d+ thread (\d+)\n-+\n\s+(\S+?)=([^ \n]+)', seg):
        fn, th, var, val = m.groups()
        if not re.match(r'(m\d+_\d+|s\d+_\d+|vm_status)', var) or fn.startswith('vm_shadow_') or fn in ('__CPROVER_initialize', 'main'):
            continue
        key = (th, '')
        if last and last[0] == key:
            last[1].append('%s=%s' % (var, val))
        else:
            last = [key, ['%s=%s' % (var, val)]]
            out.append(last)
    lines = []
    for (th, fn), evs in out:
        lines.append('  thread %s writes %s' % (th, ' '.join(evs[:12]) + (' ...' if len(evs) > 12 else '')))
    return '\n'.join(lines[-400:])


def write_evidence(pid, mod, tier, seed, results, t0, nviol, knowns=(), noverdict=(), note=None):
    info = getattr(mod, 'INFO', {})
    samples, nontrivial = [], 0
    wit_ok = set()
    for r in results:
        if r.job.expect == 'witness' and r.status == 'failed' and any('witness' in d.lower() for _, d in r.failed):
            wit_ok.add(r.job.witness_of)
    for r in results:
        j = r.job
        s = {'job': j.name, 'expect': j.expect, 'status': r.status, 'wall_s': round(r.wall, 2),
             'solver_s': round(r.solver_s, 2), 'rss_mb': r.rss_mb, 'assertions': r.n_props,
             'sat_variables': r.vars, 'sat_clauses': r.clauses, 'required': j.required}
        s.update({k: v for k, v in j.meta.items() if k not in ('replay',)})
        if j.expect == 'hold':
            s['witness_reachable'] = j.name in wit_ok
            if r.status == 'proved' and j.name in wit_ok:
                nontrivial += 1
        if r.failed and j.expect == 'hold':
            s['failed_assertions'] = [d for _, d in r.failed][:10]
        samples.append(s)
    finished = sum(1 for r in results if r.status in ('proved', 'failed'))
    ev = {
        'property_id': pid, 'tier': tier, 'seed': seed, 'level': 'model_checking',
        'coverage': {
            'evaluations': finished,
            'distinct_nontrivial': nontrivial,
            'rule': 'one evaluation = one solver query (harness x configuration x memory model) that returned a verdict; '
                    'a configuration counts as non-trivial when it was proved AND its -DWITNESS twin (same harness, final '
                    'assert(0)) was reported reachable by the solver, i.e. the harness is not vacuous',
            'samples': samples or [{'note': note or 'no job ran'}],
            'exhaustive': False,
            'technique': 'bounded symbolic checking of the real code (CBMC SAT back end / z3); every input, interleaving and '
                         'environment answer inside the stated bounds is covered by the solver verdict',
            'functions_encoded': info.get('functions', []),
            'bounds': info.get('bounds', ''),
            'outside_bounds': info.get('outside', ''),
            'stubs': info.get('stubs', []),
            'no_verdict': [r.job.name for r in noverdict],
            'built_but_not_run': list(getattr(mod, '_skipped_unvalidated', [])),
            'known_findings_hit': [k['key'] for _, _, _, k in knowns],
            'solver_time_s': round(sum(r.solver_s for r in results), 2),
            'tree': tree_id(),
        },
        'assumptions': info.get('assumptions', []) + info.get('stubs', []),
        'wall_s': round(time.time() - t0, 2),
        'violations': nviol,
    }
    if note:
        ev['coverage']['note'] = note
    # partial runs (--only) and runs against another tree (VERIF_REPO, used for seeded changes) must not replace the evidence
    # of the registered check: they write next to their build products instead
    partial = getattr(mod, '_partial_run', False) or os.path.abspath(REPO) != '/repo'
    if partial:
        dest = os.path.join(BUILD, pid, 'evidence_partial.json')
    else:
        os.makedirs(os.path.join(VERIF, 'evidence'), exist_ok=True)
        dest = os.path.join(VERIF, 'evidence', pid + '.json')
    os.makedirs(os.path.dirname(dest), exist_ok=True)
    with open(dest, 'w') as f:
        json.dump(ev, f, indent=1)
