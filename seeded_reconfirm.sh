#!/bin/bash
# usage: seeded_reconfirm.sh <seed-id> "<note>"   -- re-confirms an archived seed against the CURRENT /repo HEAD (after a fix: commit
# changed the file the seed patches and the patch was rebased): applies, builds, suite, demo with / without the patch.
ID=$1; NOTE=$2; D=/verif/seeded/$ID
SV=/tmp/sv_$ID; rm -rf $SV; git -C /repo worktree add -q $SV HEAD
cd $SV && git apply $D/patch.diff; A=$?
cmake -G Ninja -B _build -DFIBER_RUN_TESTS_WITH_BUILD=OFF >/dev/null 2>&1 && cmake --build _build >/dev/null 2>&1; B=$?
ctest --test-dir _build -j8 --timeout 300 -E semaphore > $D/ctest_with_patch.log 2>&1; T=$?
mkdir -p MUTANT && cp $D/demo* $D/*.h MUTANT/ 2>/dev/null
(cd MUTANT && timeout 300 bash demo.sh > $D/demo_with_patch.log 2>&1); DW=$?
git checkout -q -- src include; cmake --build _build >/dev/null 2>&1
(cd MUTANT && timeout 300 bash demo.sh > $D/demo_without_patch.log 2>&1); DO=$?
cd /verif; git -C /repo worktree remove --force $SV
python3 - "$ID" "$A" "$B" "$T" "$DW" "$DO" "$NOTE" <<'PY'
import json, sys, subprocess
i, a, b, t, dw, do, note = sys.argv[1:8]
p = '/verif/seeded/%s/meta.json' % i
m = json.load(open(p))
head = subprocess.run(['git', '-C', '/repo', 'rev-parse', '--short', 'HEAD'], capture_output=True, text=True).stdout.strip()
m['confirmed_by_me'] = {'fresh worktree of /repo HEAD (%s)' % head: True, 'git apply rc': int(a), 'build rc': int(b), 'ctest (without the flaky semaphore test) rc': int(t),
                        'demo.sh rc with patch (non-zero = fails as intended)': int(dw), 'demo.sh rc without patch (0 = passes)': int(do)}
m['rebased'] = note
json.dump(m, open(p, 'w'), indent=1)
print(i, json.dumps(m['confirmed_by_me']))
PY
