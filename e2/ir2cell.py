#!/usr/bin/env python3
"""ir2cell: LLVM-14 IR (clang -O1) of real libfiber translation units + a harness  ->  C over an
integer-addressed cell memory, for CBMC's partial-order concurrency encoding (and for native runs).

Memory: an object is an array of 8-byte cells, every cell is its own C global (no C pointers, no arrays
with symbolic index in shared memory).  address = (object_id+1) << 20 | byte_offset.  A load/store whose
address is not a symex-time constant becomes a switch over a candidate set of cells computed from the
IR's types (sound by construction: the default arm is an assertion, so an incomplete candidate set can
only produce "no verdict", never "holds").
"""
import json, os, re, sys
sys.path.insert(0, os.path.dirname(os.path.abspath(__file__)))
from irparse import *

OBJ_SHIFT = 20
M64 = (1 << 64) - 1


def cname(s):
    return re.sub(r'\W', '_', s.strip('%@"'))


class Obj:
    def __init__(self, oid, name, size, ty, kind, tid=None, site=None, dies=False, init=None, arr=False):
        self.oid, self.name, self.ty, self.kind = oid, name, ty, kind
        self.size = max(8, (size + 7) // 8 * 8)
        self.tid, self.site, self.dies, self.init, self.arr = tid, site, dies, init, arr
        self.base = (oid + 1) << OBJ_SHIFT
        self.ncells = self.size // 8
        self.sigs = None

    def cell(self, c):
        return 'm%d_%d' % (self.oid, c)


INTRINSIC_NOPS = ('llvm.lifetime.start', 'llvm.lifetime.end', 'llvm.prefetch', 'llvm.dbg.', 'llvm.assume',
                  'llvm.experimental.noalias', 'llvm.donothing')


class Translator:
    def __init__(self, mod, mode, spec, init_objects):
        self.m, self.T, self.mode, self.spec = mod, mod.T, mode, spec
        self.init_objects = init_objects
        self.objs, self.gaddr, self.fn_ids, self.extra_fn = [], {}, {}, {}
        self.strings, self._stra = {}, {}
        self.sites = []            # dynamic allocation sites: dict(key, fn, kind, ty, arr)
        self.site_by_key = {}
        self.sets = {}             # key -> id
        self.set_keys = []
        self.puns = {}
        self.code = []
        self.protos = []
        self.nthreads = spec.get('threads', 0)
        self.fiber_mode = spec.get('fibers', False)
        self.top_sites = []
        self.set_use = {}

    # ============================================================ module-level preparation
    def reachable(self, roots):
        seen, todo = [], list(roots)
        while todo:
            f = todo.pop()
            if f in seen or f not in self.m.funcs or f in self.spec.get('replace', {}):
                continue
            seen.append(f)
            for b in self.m.funcs[f].blocks:
                for ins in b.insts:
                    for g in re.findall(r'@("[^"]+"|[\w.$-]+)', ins):
                        g = g.strip('"')
                        rep = self.spec.get('replace', {}).get(g)
                        if rep and rep.startswith('f_'):
                            g = rep[2:]       # a replaced callee: control continues in the replacement
                        if g in self.m.funcs and g not in seen:
                            todo.append(g)
                        elif g in self.m.globals and self.m.globals[g]['init']:
                            for h in re.findall(r'@("[^"]+"|[\w.$-]+)', self.m.globals[g]['init']):
                                if h in self.m.funcs and h not in seen:
                                    todo.append(h)
        return seen

    def reachable_calls(self, roots):
        """functions that can actually be EXECUTED starting from roots: direct call edges (through replacements) plus
        indirect calls to type-compatible address-taken functions; a function whose address is merely passed around is not
        executed unless some reachable indirect call can target it"""
        seen, todo = set(), [r for r in roots if r in self.m.funcs]
        while todo:
            f = todo.pop()
            if f in seen or f not in self.m.funcs or f in self.spec.get('replace', {}):
                continue
            seen.add(f)
            for g in self.call_edges.get(f, ()):
                rep = self.spec.get('replace', {}).get(g)
                if rep and rep.startswith('f_'):
                    g = rep[2:]
                if g not in seen:
                    todo.append(g)
        return seen

    def new_obj(self, name, size, ty, kind, **kw):
        o = Obj(len(self.objs), name, size, ty, kind, **kw)
        if o.size >= (1 << OBJ_SHIFT):
            raise IRError('object too large: %s %d' % (name, size))
        self.objs.append(o)
        return o

    def collect_puns(self, funcs):
        for f in funcs:
            for b in self.m.funcs[f].blocks:
                for ins in b.insts:
                    for m in re.finditer(r'bitcast \(?%("[^"]+"|[\w.$-]+)\*+ [^,)]*? to %("[^"]+"|[\w.$-]+)\*', ins):
                        a, c = m.group(1), m.group(2)
                        if a != c and a in self.T.named and c in self.T.named:
                            self.puns.setdefault(a, set()).add(c)
                            self.puns.setdefault(c, set()).add(a)

    def setup_globals(self, funcs):
        used = set()
        for f in funcs:
            for b in self.m.funcs[f].blocks:
                for ins in b.insts:
                    used.update(x.strip('"') for x in re.findall(r'@("[^"]+"|[\w.$-]+)', ins))
        changed = True
        while changed:
            changed = False
            for g in list(used):
                if g in self.m.globals and self.m.globals[g]['init']:
                    for h in re.findall(r'@("[^"]+"|[\w.$-]+)', self.m.globals[g]['init']):
                        if h not in used:
                            used.add(h)
                            changed = True
        for g, info in self.m.globals.items():
            if g not in used:
                continue
            if info['const'] and info['init'] and info['init'].startswith('c"'):
                self.strings[g] = info['init']
                continue
            if info['external']:
                raise IRError('external global @%s is used but not defined in the linked module' % g)
            size = self.T.size_align(info['type'])[0]
            if info['tls']:
                nk = self.spec.get('kthreads', 1)
                stride = (size + 7) // 8 * 8
                o = self.new_obj('@' + g, stride * nk, info['type'], 'tls', init=info['init'], arr=True)
                o.tls_stride = stride
            else:
                o = self.new_obj('@' + g, size, info['type'], 'global', init=info['init'])
            self.gaddr[g] = o
        for f in funcs:
            if f not in self.fn_ids:
                self.fn_ids[f] = (0xF0000 + len(self.fn_ids)) << 4
        # errno: one cell per kernel thread
        nk = self.spec.get('kthreads', 1)
        self.errno_obj = self.new_obj('@__errno', 8 * nk, ('int', 32), 'tls', init=None, arr=True)
        self.errno_obj.tls_stride = 8

    def fn_addr(self, name):
        if name in self.fn_ids:
            return self.fn_ids[name]
        if name not in self.extra_fn:
            self.extra_fn[name] = (0xF8000 + len(self.extra_fn)) << 4
        return self.extra_fn[name]

    def str_addr(self, g):
        if g not in self._stra:
            self._stra[g] = (0xE0000 + len(self._stra)) << 4
        return self._stra[g]

    def str_text(self, s):
        m = re.search(r'@("[^"]+"|[\w.$-]+)', s)
        if m and m.group(1).strip('"') in self.strings:
            raw = self.strings[m.group(1).strip('"')][2:-1]
            raw = re.sub(r'\\([0-9A-Fa-f]{2})', lambda k: chr(int(k.group(1), 16)), raw)
            return raw.rstrip('\0')
        return None

    # ============================================================ dynamic allocation sites
    def scan_sites(self, funcs):
        """every malloc/calloc/alloca instruction is a site; its object type is taken from the bitcast of the result"""
        for f in funcs:
            fn = self.m.funcs[f]
            n = 0
            for b in fn.blocks:
                for ins in b.insts:
                    m = re.match(r'(%[\w.$-]+) = (?:tail |notail |musttail )?call .*?@(malloc|calloc|memalign|aligned_alloc)\(', ins)
                    if m:
                        ty = self.result_cast_type(fn, m.group(1))
                        key = '%s#%s%d' % (f, m.group(2), n)
                        n += 1
                        self.add_site(key, f, 'heap', ty, True, m.group(1))
                        continue
                    m = re.match(r'(%[\w.$-]+) = alloca (.*?)(?:, align \d+)?$', ins)
                    if m:
                        body = m.group(2)
                        t, k = self.T.parse(body)
                        rest = body[k:].strip()
                        cnt = 1
                        if rest.startswith(','):
                            mm = re.match(r',\s*i\d+ (\d+)', rest)
                            if not mm:
                                raise IRError('variable-size alloca: ' + ins)
                            cnt = int(mm.group(1))
                        key = '%s#alloca%d' % (f, n)
                        n += 1
                        s = self.add_site(key, f, 'alloca', t, cnt > 1, m.group(1))
                        s['size'] = self.T.size_align(t)[0] * cnt
                        s['private'] = not self.alloca_escapes(fn, m.group(1))

    def alloca_escapes(self, fn, res):
        derived = {res}
        changed = True
        insts = [ins for b in fn.blocks for ins in b.insts]
        while changed:
            changed = False
            for ins in insts:
                m = re.match(r'(%[\w.$-]+) = (bitcast|getelementptr)\b(.*)$', ins)
                if m and m.group(1) not in derived:
                    ops = set(re.findall(r'%[\w.$-]+', m.group(3)))
                    if m.group(2) == 'bitcast':
                        src = re.match(r' \S.*? (%[\w.$-]+) to ', m.group(3))
                        hit = src and src.group(1) in derived
                    else:
                        args = split_top(re.sub(r'^ (inbounds )?', '', m.group(3)))
                        hit = len(args) > 1 and args[1].split()[-1] in derived
                    if hit:
                        derived.add(m.group(1))
                        changed = True
        for ins in insts:
            names = set(re.findall(r'%[\w.$-]+', ins))
            if not (names & derived):
                continue
            body = re.sub(r'^%[\w.$-]+ = ', '', ins)
            op = body.split()[0]
            if op in ('bitcast', 'getelementptr', 'icmp', 'alloca'):
                if op == 'getelementptr':
                    args = split_top(re.sub(r'^getelementptr (inbounds )?', '', body))
                    if any(set(re.findall(r'%[\w.$-]+', a)) & derived for a in args[2:]):
                        return True
                continue
            if op == 'load':
                continue
            if op == 'store':
                vt = body[6:]
                vt = re.sub(r'^(atomic )?(volatile )?', '', vt)
                parts = split_top(vt)
                if set(re.findall(r'%[\w.$-]+', parts[0])) & derived:
                    return True
                continue
            if op in ('call', 'tail') and re.search(r'@llvm\.(lifetime|memset|memcpy|memmove)', body):
                continue
            return True
        return False

    def add_site(self, key, f, kind, ty, arr, res):
        hint = None
        for rx, h in self.spec.get('site_types', {}).items():
            if re.search(rx + '$', key):
                hint = h
        if hint:
            ty, _ = self.T.parse(hint)
        s = dict(key=key, fn=f, kind=kind, ty=ty, arr=arr, res=res, id=len(self.sites))
        self.sites.append(s)
        self.site_by_key[(f, res)] = s
        return s

    def result_cast_type(self, fn, res):
        """pointee type of the allocation: a hint from the harness spec, else the (largest) named struct type the result is
        bitcast to, else the declared type T of a T** slot it is stored into, else unknown (i8: candidate of every set)"""
        best = None
        pat = re.compile(r'= bitcast i8\* ' + re.escape(res) + r' to (.*)$')
        for b in fn.blocks:
            for ins in b.insts:
                m = pat.search(ins)
                if m:
                    t, _ = self.T.parse(m.group(1))
                    if t[0] == 'ptr' and t[1][0] == 'named' and self.T.resolve(t[1])[0] == 'lit':
                        if best is None or self.T.size_align(t[1])[0] > self.T.size_align(best)[0]:
                            best = t[1]
        if best is not None:
            return best
        pat2 = re.compile(r'^store i8\* ' + re.escape(res) + r', i8\*\* bitcast \((.*?) to i8\*\*\)')
        for b in fn.blocks:
            for ins in b.insts:
                m = pat2.search(ins)
                if m:
                    try:
                        t, k = self.T.parse(m.group(1))
                        if t[0] == 'ptr' and t[1][0] == 'ptr' and t[1][1][0] == 'named':
                            return t[1][1]
                    except IRError:
                        pass
        return ('int', 8)   # unknown: such objects are candidates of every type-based set

    def setup_dynamic_objects(self, funcs):
        """init-phase heap objects come from the native pre-run (exact sites and sizes); concurrent-phase
        pools come from the harness spec; allocas get one object per (site, thread that can reach it)."""
        if self.mode == 'native':
            return
        snap = self.init_objects or {'nstatic': len(self.objs), 'objects': []}
        if snap['nstatic'] != len(self.objs):
            raise IRError('native pre-run and cbmc translation disagree on the static objects')
        for k, rec in enumerate(snap['objects']):
            if k < snap['nstatic']:
                self.objs[k].snap = rec['cells']
                continue
            s = self.sites_by_name()[rec['site']]
            if not rec['live']:
                # freed again during init: the object does not exist in the scenario; keep the numbering, allocate nothing
                o = self.new_obj('dead%d:%s' % (k, rec['site']), 8, ('int', 64), 'dead', tid=0, site=None, dies=False, arr=True)
                o.dead = True
                continue
            o = self.new_obj('init%d:%s' % (k, rec['site']), rec['size'], s['ty'], 'heap', tid=0, site=s['id'], dies=True, arr=True)
            o.snap = rec['cells']
            o.init_live = rec['live']
            s.setdefault('init_objs', []).append(o)
        # concurrent pools: spec['pools'] = [[site-regex, tid, count, size_bytes], ...]
        for rx, tid, count, size in self.spec.get('pools', []):
            for s in self.sites:
                if s['kind'] == 'heap' and re.search(rx, s['key']):
                    for k in range(count):
                        o = self.new_obj('pool:%s:t%d:%d' % (s['key'], tid, k), size, s['ty'], 'heap', tid=tid,
                                         site=s['id'], dies=True, arr=True)
                        s.setdefault('pool', {}).setdefault(tid, []).append(o)
        # allocas
        reach = {}
        for t in range(0, self.nthreads + 1):
            root = 'vm_init' if t == 0 else 'vm_thread_%d' % t
            roots = [root] + (['vm_final'] if t == 0 else [])
            reach[t] = set(self.reachable([r for r in roots if r in self.m.funcs]))
            if self.fiber_mode and t > 0:
                reach[t] = set(funcs)
        self.frees = any(re.search(r'call .*@free\(', ins) for f in funcs for b in self.m.funcs[f].blocks for ins in b.insts)
        for o in self.objs:
            if o.kind == 'heap' and not self.frees:
                o.dies = False
        for s in self.sites:
            if s['kind'] != 'alloca' or s.get('private'):
                continue
            for t in range(0, self.nthreads + 1):
                if s['fn'] in reach[t]:
                    o = self.new_obj('alloca:%s:t%d' % (s['key'], t), s['size'], s['ty'], 'alloca', tid=t, site=s['id'],
                                     dies=True, arr=s['arr'])
                    s.setdefault('pool', {}).setdefault(t, []).append(o)

    def sites_by_name(self):
        return {s['key']: s for s in self.sites}

    # ============================================================ cell signatures
    def compute_sigs(self, o):
        sigs = [set() for _ in range(o.ncells)]
        limit = o.size
        T = self.T

        def mark(real, chain):
            if 0 <= real < limit:
                for (n, off) in chain:
                    sigs[real // 8].add((n, off - off % 8))

        def walk(t, real, chain, depth):
            if depth > 12 or real >= limit:
                return
            r = T.resolve(t)
            if r[0] == 'lit':
                views = [t]
                if t[0] == 'named':
                    views += [('named', p) for p in self.puns.get(t[1], ()) if depth < 4]
                for v in views:
                    vr = T.resolve(v)
                    if vr[0] != 'lit':
                        continue
                    if v is not t and not self.has_flex(v) and real + T.size_align(v)[0] > limit:
                        continue      # a punned view that does not fit into the object is a value cast, not a memory view
                    vname = v[1] if v[0] == 'named' else 'lit:' + tstr(v)
                    for i in range(len(vr[1])):
                        fo, ft = T.field(v, i)
                        walk(ft, real + fo, [(n, off + fo) for n, off in chain] + [(vname, fo)], depth + 1)
            elif r[0] == 'arr':
                es = T.size_align(r[2])[0]
                if es == 0:
                    return
                n = r[1] if r[1] > 0 else max(0, (limit - real) // es)
                for k in range(n):
                    if real + k * es >= limit:
                        break
                    walk(r[2], real + k * es, chain, depth + 1)
            elif r[0] == 'opaque':
                return
            else:
                extra = [('arr:' + tstr(t), 0)]
                if r[0] == 'ptr':
                    extra.append(('arr:ptr', 0))      # any pointer-typed slot (pointer types are punned freely, e.g. void** handles)
                mark(real, chain + extra)

        ty = o.ty
        r = T.resolve(ty)
        if r[0] == 'opaque':
            ts = 0
        else:
            ts = T.size_align(ty)[0]
        root = [('arr:' + tstr(ty), 0)]
        if ts == 0 or (r[0] == 'lit' and self.has_flex(ty)):
            walk(ty, 0, root, 0)
        else:
            k = 0
            while k * ts < limit:
                walk(ty, k * ts, root, 0)
                k += 1
        o.sigs = sigs

    def has_flex(self, t):
        r = self.T.resolve(t)
        if r[0] != 'lit' or not r[1]:
            return False
        last = self.T.resolve(r[1][-1])
        return (last[0] == 'arr' and last[1] == 0) or (last[0] == 'lit' and self.has_flex(r[1][-1]))

    def set_id(self, sig):
        """sig: None (TOP) | frozenset of (name, off8) | ('obj', oid) exact object"""
        key = sig
        if key not in self.sets:
            self.sets[key] = len(self.set_keys)
            self.set_keys.append(key)
        return self.sets[key]

    def cells_of_set(self, key):
        out = []
        for o in self.objs:
            if o.sigs is None:
                self.compute_sigs(o)
            for c in range(o.ncells):
                if key is None or (o.sigs[c] & key):
                    out.append((o, c))
        return out

    # ============================================================ operands
    def val(self, ty, s):
        s = s.strip()
        if s in ('null', 'undef', 'poison', 'false', 'zeroinitializer'):
            return '0UL'
        if s == 'true':
            return '1UL'
        if re.fullmatch(r'-?\d+', s):
            bits = self.T.bits(ty)
            return '%dUL' % (int(s) & ((1 << bits) - 1))
        if s.startswith('%'):
            return 'v_' + cname(s)
        if s.startswith('@'):
            g = s[1:].strip('"')
            if g in self.gaddr:
                o = self.gaddr[g]
                if o.kind == 'tls':
                    return '(%dUL + vm_kt * %dUL)' % (o.base, o.tls_stride)
                return '%dUL' % o.base
            if g in self.strings:
                return '%dUL' % self.str_addr(g)
            return '%dUL' % self.fn_addr(g)
        m = re.match(r'(getelementptr inbounds|getelementptr|bitcast|ptrtoint|inttoptr|trunc|zext|sext|add|sub|and|or|shl|lshr)\s*\(', s)
        if m:
            inner = s[m.end():match_close(s, m.end() - 1, '(', ')')]
            op = m.group(1)
            if op.startswith('getelementptr'):
                args = split_top(inner)
                bty, _ = self.T.parse(args[0])
                pt, pv, _ = self.m.parse_tv(args[1])
                idxs = []
                for a in args[2:]:
                    a = re.sub(r'^inrange ', '', a)
                    it, iv, _ = self.m.parse_tv(a)
                    idxs.append((it, iv))
                return self.gep(bty, self.val(pt, pv), idxs)[0]
            if op in ('bitcast', 'ptrtoint', 'inttoptr', 'trunc', 'zext', 'sext'):
                mm = re.fullmatch(r'(.*) to (.*)', inner, re.S)
                t, v, _ = self.m.parse_tv(mm.group(1))
                e = self.val(t, v)
                t2, _ = self.T.parse(mm.group(2))
                if op == 'trunc':
                    return self.mask(e, self.T.bits(t2))
                if op == 'sext':
                    return self.mask('(W)' + self.sext(e, self.T.bits(t)), self.T.bits(t2))
                return e
            args = split_top(inner)
            t, a, _ = self.m.parse_tv(args[0])
            t2, b, _ = self.m.parse_tv(args[1])
            c = {'add': '+', 'sub': '-', 'and': '&', 'or': '|', 'shl': '<<', 'lshr': '>>'}[op]
            return self.mask('(%s %s %s)' % (self.val(t, a), c, self.val(t2, b)), self.T.bits(t))
        raise IRError('operand? ' + s)

    @staticmethod
    def mask(e, bits):
        return e if bits >= 64 else '((%s) & %dUL)' % (e, (1 << bits) - 1)

    @staticmethod
    def sext(e, bits):
        if bits >= 64:
            return '((SW)(%s))' % e
        return '(((SW)((W)(%s) << %d)) >> %d)' % (e, 64 - bits, 64 - bits)

    def scaled(self, it, iv, sz):
        iv = iv.strip()
        if re.fullmatch(r'-?\d+', iv):
            return '%dUL' % ((int(iv) * sz) & M64)
        e = self.val(it, iv)
        return '((W)%s * %dUL)' % (self.sext(e, self.T.bits(it)), sz)

    def gep(self, base_ty, base, idxs):
        """(C expr, signature); signature = (struct-name | 'arr:<type>', normalized byte offset)"""
        parts = [base]
        cur = base_ty
        r0 = self.T.resolve(cur)
        if cur[0] == 'named' and r0[0] == 'lit':
            sig_ty = cur[1]
        elif r0[0] == 'lit':
            sig_ty = 'lit:' + tstr(cur)
        else:
            sig_ty = 'arr:' + tstr(cur)
        sig_off = 0
        first = True
        named = cur[0] == 'named' and r0[0] == 'lit'
        for it, iv in idxs:
            if first:
                first = False
                sz = self.T.size_align(cur)[0]
                parts.append(self.scaled(it, iv, sz))
                continue
            r = self.T.resolve(cur)
            if r[0] == 'lit':
                off, cur = self.T.field(cur, int(iv))
                parts.append('%dUL' % off)
                sig_off += off
            elif r[0] == 'arr':
                sz = self.T.size_align(r[2])[0]
                parts.append(self.scaled(it, iv, sz))
                cur = r[2]
            else:
                raise IRError('gep into %r' % (cur,))
            if not named and cur[0] == 'named' and self.T.resolve(cur)[0] == 'lit':
                # source type was an array / literal: use the first named struct on the path
                named = True
                sig_ty, sig_off = cur[1], 0
        parts = [p for p in parts if p not in ('0', '0UL')]
        return '(' + ' + '.join(parts or ['0UL']) + ')', (sig_ty, sig_off), cur

    # ============================================================ address signature analysis
    def build_defs(self, fn):
        defs = {}
        for b in fn.blocks:
            for ins in b.insts:
                m = re.match(r'(%[\w.$-]+|%"[^"]+") = (.*)$', ins)
                if m:
                    defs[m.group(1)] = m.group(2)
        return defs

    def addr_sig(self, fname, ptr_ty, opnd, seen=None, depth=0):
        r = self.addr_sig_inner(fname, ptr_ty, opnd, seen, depth)
        if r is None and opnd.strip().startswith('%'):
            # untyped value that is cast to a struct pointer elsewhere in the function: it points to such a struct
            fn = self.m.funcs[fname]
            if not hasattr(fn, 'defs'):
                fn.defs = self.build_defs(fn)
            best = None
            pat = re.compile(r'^bitcast i8\* ' + re.escape(opnd.strip()) + r' to (%[\w.$"-]+)\*$')
            for dd in fn.defs.values():
                mm = pat.match(dd)
                if mm:
                    try:
                        t0, _ = self.T.parse(mm.group(1))
                        if t0[0] == 'named' and self.T.resolve(t0)[0] == 'lit':
                            if best is None or self.T.size_align(t0)[0] > self.T.size_align(best)[0]:
                                best = t0
                    except IRError:
                        pass
            if best is not None:
                return {(best[1], 0)}
        return r

    def addr_sig_inner(self, fname, ptr_ty, opnd, seen=None, depth=0):
        """set of (name, off) the address operand may denote, or None for unknown (TOP)"""
        seen = seen if seen is not None else set()
        opnd = opnd.strip()
        if (fname, opnd) in seen or depth > 12:
            return set()
        seen.add((fname, opnd))
        if opnd.startswith('@'):
            g = opnd[1:].strip('"')
            if g in self.gaddr:
                return {('obj', self.gaddr[g].oid)}
            return None
        if opnd in ('null', 'undef', 'poison'):
            return set()
        m = re.match(r'(getelementptr inbounds|getelementptr|bitcast)\s*\(', opnd)
        if m:
            inner = opnd[m.end():match_close(opnd, m.end() - 1, '(', ')')]
            return self.sig_of_expr(fname, m.group(1), inner, seen, depth)
        if not opnd.startswith('%'):
            return None
        fn = self.m.funcs[fname]
        if not hasattr(fn, 'defs'):
            fn.defs = self.build_defs(fn)
        d = fn.defs.get(opnd)
        if d is None:
            # parameter: union over all call sites
            idx = [p for t, p in fn.params].index(opnd) if opnd in [p for t, p in fn.params] else None
            if idx is None:
                return None
            pty = fn.params[idx][0]
            st = self.struct_ptr_sig(pty)
            if st is not None:
                return st
            res = set()
            callers = self.callers.get(fname, [])
            if not callers:
                return None
            for cf, args in callers:
                if idx >= len(args):
                    return None
                at, av = args[idx]
                r = self.addr_sig(cf, at, av, seen, depth + 1)
                if r is None:
                    return None
                res |= r
            return res
        op = d.split()[0]
        if op == 'getelementptr':
            body = d[len('getelementptr'):].strip()
            body = re.sub(r'^inbounds ', '', body)
            return self.sig_of_expr(fname, 'getelementptr', body, seen, depth)
        if op == 'bitcast':
            mm = re.match(r'bitcast (.*) to (.*)$', d)
            return self.sig_of_expr(fname, 'bitcast', mm.group(1) + ' to ' + mm.group(2), seen, depth)
        if op == 'phi':
            mm = re.match(r'phi (.*?) (\[.*)$', d)
            t, _ = self.T.parse(mm.group(1))
            res = set()
            unknown = False
            for v, bb in re.findall(r'\[ (.*?), (%[\w.$-]+) \]', mm.group(2)):
                r = self.addr_sig(fname, t, v, seen, depth + 1)
                if r is None:
                    unknown = True
                    continue
                res |= r
            if unknown:
                # some incoming value is untyped: assume it has the struct type of the typed ones (a guess that is GUARDED by the
                # default arm of the candidate switch: if wrong the run is inconclusive, never a wrong verdict)
                guess = set()
                for x in res:
                    if x[0] == 'site':
                        ty = self.sites[x[1]]['ty']
                        if ty[0] == 'named' and self.T.resolve(ty)[0] == 'lit':
                            guess.add((ty[1], 0))
                    elif x[0] not in ('obj', 'priv'):
                        guess.add(x)
                if not guess:
                    return None
                return res | guess
            return res
        if op == 'select':
            mm = re.match(r'select i1 (.*?), (.*)$', d)
            parts = split_top(mm.group(2))
            res = set()
            for p in parts:
                t, v, _ = self.m.parse_tv(p)
                r = self.addr_sig(fname, t, v, seen, depth + 1)
                if r is None:
                    return None
                res |= r
            return res
        if op == 'alloca':
            s = self.site_by_key.get((fname, opnd))
            if s and self.mode != 'native':
                return {('priv' if s.get('private') else 'site', s['id'])}
            return None
        if op in ('call', 'tail', 'notail', 'musttail'):
            s = self.site_by_key.get((fname, opnd))
            if s:
                return {('site', s['id'])}
            if '@__errno_location(' in d:
                return {('obj', self.errno_obj.oid)}
        # load of a pointer from a struct field whose every store is known: the stored values' signatures
        if op == 'load' and getattr(self, 'M', None) is not None and not self.M_bad and self.struct_ptr_sig(ptr_ty) is None:
            mm = re.match(r'load (?:atomic )?(?:volatile )?([^,]+), (.*?)(?: syncscope\("[^"]*"\))?(?: (?:seq_cst|acquire|monotonic|unordered))?, align', d)
            if mm:
                try:
                    lt, lv, _ = self.m.parse_tv(mm.group(2))
                    loc = self.addr_sig(fname, lt, lv, seen, depth + 1)
                except Exception:
                    loc = None
                if loc and all(l[0] not in ('obj', 'site', 'priv') for l in loc) and all(l in self.M and self.M[l] is not None for l in loc):
                    res = set()
                    for l in loc:
                        res |= self.M[l]
                    if res:
                        return res
        # load / call / inttoptr ...: fall back on the static pointee type
        st = self.struct_ptr_sig(ptr_ty)
        if st is None:
            # an untyped (i8*) value that is also cast to a struct pointer elsewhere in the function: that struct
            best = None
            pat = re.compile(r'^bitcast i8\* ' + re.escape(opnd) + r' to (%[\w.$"-]+)\*$')
            for dd in fn.defs.values():
                mm = pat.match(dd)
                if mm:
                    try:
                        t0, _ = self.T.parse(mm.group(1))
                        if t0[0] == 'named' and self.T.resolve(t0)[0] == 'lit':
                            if best is None or self.T.size_align(t0)[0] > self.T.size_align(best)[0]:
                                best = t0
                    except IRError:
                        pass
            if best is not None:
                return {(best[1], 0)}
        if st is None and op == 'load':
            # `load i8*, i8** (bitcast T*** %p to i8**)`: the slot's declared type says what the value points to
            mm = re.match(r'load (?:atomic )?(?:volatile )?[^,]+, \S+ (%[\w.$-]+)', d)
            if mm:
                pd = fn.defs.get(mm.group(1), '')
                m2 = re.match(r'bitcast (.*?) (%[\w.$-]+) to ', pd)
                if m2:
                    try:
                        t0, _ = self.T.parse(m2.group(1))
                        if t0[0] == 'ptr':
                            st = self.struct_ptr_sig(t0[1])
                    except IRError:
                        pass
        return st

    def struct_ptr_sig(self, pty):
        if pty and pty[0] == 'ptr':
            p = pty[1]
            r = self.T.resolve(p) if p[0] != 'named' or p[1] in self.T.named else ('opaque',)
            if p[0] == 'named' and r[0] == 'lit':
                return {(p[1], 0)}
            if r[0] == 'ptr':
                # pointer to a pointer-typed slot of type T*: points into a location whose leaf type is T*.
                # (not for iN*: clang puns pointer slots to i64* for atomic accesses)
                return {('arr:ptr', 0)} if tstr(p) in ('i8*',) else {('arr:' + tstr(p), 0), ('arr:ptr', 0)} if False else ({('arr:ptr', 0)} if tstr(p) == 'i8*' else {('arr:' + tstr(p), 0)})
        return None

    def sig_of_expr(self, fname, op, inner, seen, depth):
        if op == 'bitcast':
            mm = re.fullmatch(r'(.*) to (.*)', inner, re.S)
            t, v, _ = self.m.parse_tv(mm.group(1))
            r = self.addr_sig(fname, t, v, seen, depth + 1)
            return r
        args = split_top(inner)
        bty, _ = self.T.parse(args[0])
        pt, pv, _ = self.m.parse_tv(args[1])
        idxs = []
        for a in args[2:]:
            a = re.sub(r'^inrange ', '', a)
            it, iv, _ = self.m.parse_tv(a)
            idxs.append((it, iv))
        _, (sn, so), _ = self.gep(bty, '0UL', [(it, iv if re.fullmatch(r'-?\d+', iv.strip()) else '0') for it, iv in idxs])
        if sn == 'arr:i8':
            base = self.addr_sig(fname, pt, pv, seen, depth + 1)
            if base is not None and base and all(x[0] in ('obj', 'site', 'priv') for x in base):
                return base
            # byte arithmetic with a constant offset on a pointer to a struct: the field at that offset
            if base is not None and base and len(idxs) == 1 and re.fullmatch(r'-?\d+', idxs[0][1].strip()):
                c = int(idxs[0][1])
                if all(x[0] in ('obj', 'site', 'priv') or not x[0].startswith('arr:') for x in base):
                    return {x if x[0] in ('obj', 'site', 'priv') else (x[0], x[1] + c) for x in base}
            return None
        if sn.startswith('arr:') or sn.startswith('lit:'):
            # scalar-element pointer arithmetic: keep the base's signature when the base is exact
            base = self.addr_sig(fname, pt, pv, seen, depth + 1)
            if base is not None:
                return base      # pointer arithmetic inside an array keeps pointing into the same array
            return {(sn, so)}
        first_const = re.fullmatch(r'-?\d+', idxs[0][1].strip()) if idxs else None
        base = self.addr_sig(fname, pt, pv, seen, depth + 1)
        if base is not None and base and all(x[0] in ('obj', 'site', 'priv') for x in base):
            return base
        return {(sn, so)}

    def build_callgraph(self, funcs):
        self.callers = {}
        self.addr_taken = set()
        self.indirect_calls = []
        self.call_edges = {}
        for f in funcs:
            for b in self.m.funcs[f].blocks:
                for ins in b.insts:
                    m = re.match(r'(?:%[\w.$-]+ = )?(?:tail |notail |musttail )?call (.*)$', ins)
                    direct = None
                    if m:
                        body0 = re.sub(r'bitcast \(([^()]|\([^()]*\))*?(@"[^"]+"|@[\w.$-]+) to [^()]*(\([^()]*\))?[^()]*\)\s*\(', lambda k: k.group(2) + '(', m.group(1), count=1)
                        m = re.match(r'(.*)$', body0)
                        mm = re.search(r'@("[^"]+"|[\w.$-]+)\s*\(', m.group(1))
                        if mm and not m.group(1).lstrip().startswith('asm') and ' asm ' not in m.group(1)[:mm.start()]:
                            direct = mm.group(1).strip('"')
                            k = m.group(1).index('(', mm.end() - 1)
                            j = match_close(m.group(1), k, '(', ')')
                            args = []
                            for a in split_top(m.group(1)[k + 1:j]):
                                t, v, _ = self.m.parse_tv(a)
                                args.append((t, v))
                            self.callers.setdefault(direct, []).append((f, args))
                            self.call_edges.setdefault(f, set()).add(direct)
                            # other @refs in args are address-taken
                            for t, v in args:
                                for g in re.findall(r'@("[^"]+"|[\w.$-]+)', v):
                                    self.addr_taken.add(g.strip('"'))
                            continue
                        mi = re.search(r'(%[\w.$-]+)\s*\(', m.group(1))
                        if mi and not m.group(1).lstrip().startswith('asm') and ' asm ' not in m.group(1)[:mi.start()]:
                            k = m.group(1).index('(', mi.end() - 1)
                            j = match_close(m.group(1), k, '(', ')')
                            args = []
                            for a in split_top(m.group(1)[k + 1:j]):
                                t, v, _ = self.m.parse_tv(a)
                                args.append((t, v))
                            self.indirect_calls.append((f, args))
                    for g in re.findall(r'@("[^"]+"|[\w.$-]+)', ins):
                        self.addr_taken.add(g.strip('"'))
        for g, info in self.m.globals.items():
            if info['init']:
                for h in re.findall(r'@("[^"]+"|[\w.$-]+)', info['init']):
                    self.addr_taken.add(h.strip('"'))
        for f in funcs:
            if f in self.addr_taken:
                ptys = [t for t, _ in self.m.funcs[f].params]
                for cf, args in self.indirect_calls:
                    if len(args) == len(ptys) and all(a[0] == b for a, b in zip(args, ptys)):
                        self.callers.setdefault(f, []).append((cf, args))
                        self.call_edges.setdefault(cf, set()).add(f)

    def build_store_map(self, funcs):
        """M[(struct, off)] = signatures of the pointer values stored into that field anywhere in the module, or None if some
        store of a pointer value could not be attributed (then the map is not used for that field)"""
        self.M = {}
        self.M_bad = False
        for f in funcs:
            fn = self.m.funcs[f]
            for b in fn.blocks:
                for ins in b.insts:
                    if not ins.startswith('store '):
                        continue
                    body = re.sub(r'^store (atomic )?(volatile )?', '', ins)
                    body = re.sub(r'( syncscope\("[^"]*"\))?( (seq_cst|acquire|release|monotonic|unordered|acq_rel))?, align \d+$', '', body)
                    try:
                        vt, vv, k = self.m.parse_tv(body)
                        pt, pv, _ = self.m.parse_tv(body[k:].lstrip(', '))
                    except Exception:
                        self.M_bad = True
                        continue
                    if self.T.resolve(vt)[0] != 'ptr':
                        continue
                    loc = self.addr_sig(f, pt, pv)
                    val = self.addr_sig(f, vt, vv) if vv.strip() not in ('null', 'undef') else set()
                    if loc is None:
                        self.M_bad = True      # a pointer stored through an unknown address: it may land in any field
                        continue
                    for l in loc:
                        if l[0] in ('obj', 'site', 'priv'):
                            continue       # exact objects: not tracked per field; see lookup
                        if val is None:
                            self.M[l] = None
                        elif self.M.get(l, set()) is not None:
                            self.M.setdefault(l, set()).update(val)

    def site_set(self, fname, ptr_ty, opnd, kind='rw', delta=0):
        """candidate-set id for an access through `opnd` (+ delta bytes: memset/memcpy touch several cells)"""
        sid = self.site_set0(fname, ptr_ty, opnd, delta)
        if not isinstance(sid, str):
            self.set_use.setdefault(sid, set()).add((fname, kind))
        return sid

    def site_set0(self, fname, ptr_ty, opnd, delta=0):
        if self.mode == 'native':
            return 0
        sig = self.addr_sig(fname, ptr_ty, opnd)
        if sig is not None and delta:
            sig = {x if x[0] in ('obj', 'site', 'priv') or x[0].startswith('arr:') else (x[0], x[1] + delta) for x in sig}
        if sig is not None and len(sig) == 1 and next(iter(sig))[0] == 'priv':
            return 'P%d' % next(iter(sig))[1]
        if sig is not None and any(x[0] == 'priv' for x in sig):
            raise IRError('address may denote a private alloca or something else in @%s: %s' % (fname, opnd))
        if sig is None:
            self.top_sites.append('%s: %s' % (fname, opnd))
            return self.set_id(None)
        return self.set_id(frozenset(sig))

    def cells_for_key(self, key):
        return [(o, c) for o, c in self.cells_for_key0(key) if not getattr(o, 'dead', False)]

    def cells_for_key0(self, key):
        if key is None:
            return [(o, c) for o in self.objs for c in range(o.ncells)]
        out = []
        tysigs = {(n, off - off % 8) for (n, off) in key if n not in ('obj', 'site', 'priv')}
        exact_o = {x[1] for x in key if x[0] == 'obj'}
        exact_s = {x[1] for x in key if x[0] == 'site'}
        for o in self.objs:
            if o.oid in exact_o or (o.site is not None and o.site in exact_s):
                out += [(o, c) for c in range(o.ncells)]
                continue
            if not tysigs:
                continue
            if o.ty == ('int', 8):
                # untyped object: if it is (an array of) the struct named by the signature, the field sits at off + k*sizeof
                hit = set()
                for (n, off) in tysigs:
                    if n.startswith('arr:') or n.startswith('lit:') or n not in self.T.named or self.T.resolve(('named', n))[0] != 'lit':
                        hit = set(range(o.ncells))
                        break
                    ssz = self.T.size_align(('named', n))[0]
                    if self.has_flex(('named', n)) or ssz == 0:
                        hit |= {c for c in range(o.ncells) if c * 8 >= off - off % 8} if off >= ssz else {off // 8}
                        if off >= ssz:
                            continue
                        # flexible tail: cells beyond the fixed part may be tail elements reached through other signatures
                        continue
                    k = 0
                    while off + k * ssz < o.size:
                        hit.add((off + k * ssz) // 8)
                        k += 1
                out += [(o, c) for c in sorted(hit) if c < o.ncells]
                continue
            if o.sigs is None:
                self.compute_sigs(o)
            for c in range(o.ncells):
                if o.sigs[c] & tysigs:
                    out.append((o, c))
        return out


def classify_cells(tr, funcs):
    """per cell: 'ro' (no concurrent-phase writer), ('excl', t) (only thread t touches it concurrently), 'shared'.
    Thread 0 = vm_setup (before the spawns) and vm_final (after all threads finished)."""
    reach = {}
    roots0 = [r for r in ('vm_setup', 'vm_final') if r in tr.m.funcs]
    reach[0] = set(tr.reachable_calls(roots0))
    for t in range(1, tr.nthreads + 1):
        reach[t] = set(tr.reachable_calls(['vm_thread_%d' % t] + tr.spec.get('thread_roots', {}).get(str(t), [])))
    if tr.spec.get('all_threads_reach_all'):
        for t in range(1, tr.nthreads + 1):
            reach[t] = set(funcs)
    readers, writers = {}, {}
    setup_written = set()
    setup_funcs = set(tr.reachable_calls(['vm_setup'])) if 'vm_setup' in tr.m.funcs else set()
    for sid, uses in tr.set_use.items():
        key = tr.set_keys[sid]
        cells = [(o.oid, c) for o, c in tr.cells_for_key(key)]
        for fname, kind in uses:
            ths = {t for t in reach if fname in reach[t]}
            for cell in cells:
                if 'r' in kind:
                    readers.setdefault(cell, set()).update(ths)
                if 'w' in kind:
                    writers.setdefault(cell, set()).update(ths)
                    if fname in setup_funcs:
                        setup_written.add(cell)
    # liveness ghosts only for objects that concurrent-phase code can actually free (or stack slots that escape)
    conc = set()
    for t in reach:
        conc |= reach[t]
    freeable = set()
    for sid, uses in tr.set_use.items():
        if any(kind == 'f' and fname in conc for fname, kind in uses):
            for o, c in tr.cells_for_key(tr.set_keys[sid]):
                freeable.add(o.oid)
    for o in tr.objs:
        if o.kind == 'heap':
            o.dies = o.oid in freeable and not tr.spec.get('no_free')
    cls = {}
    for o in tr.objs:
        for c in range(o.ncells):
            cell = (o.oid, c)
            w = writers.get(cell, set()) - {0}
            r = readers.get(cell, set()) - {0}
            dyn = o.kind in ('heap', 'alloca') and not hasattr(o, 'snap')   # created during the concurrent phase
            if dyn and not (len(w | r) == 1 and w):
                cls[cell] = 'shared'
            elif not w:
                cls[cell] = 'ro'
            elif len(w | r) == 1:
                cls[cell] = ('excl', next(iter(w | r)))
            else:
                cls[cell] = 'shared'
    # declared ownership (spec 'excl': [[object-name-regex, cells|null, [tid of 1st match, tid of 2nd match, ...]], ...]).
    # It is a speculation checked at run time: an access by any other thread trips an 'encoding:' assertion (no verdict).
    tr.guarded = set()
    for rx, cells, tids in tr.spec.get('excl', []):
        k = 0
        for o in tr.objs:
            if re.search(rx, o.name):
                if k < len(tids) and tids[k]:
                    for c in (cells if cells is not None else range(o.ncells)):
                        if c < o.ncells and cls.get((o.oid, c)) == 'shared':
                            cls[(o.oid, c)] = ('excl', tids[k])
                            tr.guarded.add((o.oid, c))
                k += 1
    tr.cell_class = cls
    tr.setup_written = setup_written
    tr.thread_reach = reach


from ir2cell_gen import generate   # noqa: E402  (code generation lives in its own file)

if __name__ == '__main__':
    import argparse
    ap = argparse.ArgumentParser()
    ap.add_argument('ll')
    ap.add_argument('--mode', default='cbmc', choices=['cbmc', 'native'])
    ap.add_argument('--out', required=True)
    ap.add_argument('--objects')
    ap.add_argument('--spec')
    a = ap.parse_args()
    spec = json.load(open(a.spec)) if a.spec else {}
    objs = json.load(open(a.objects)) if a.objects else None
    try:
        generate(Translator, a.ll, a.mode, a.out, spec, objs)
    except IRError as e:
        print('ir2cell: UNSUPPORTED: %s' % e, file=sys.stderr)
        sys.exit(3)
