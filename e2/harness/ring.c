/* C16 lockfree_ring_buffer: capacity 2^LOG, NPUSHER pushers x NPUSH trypush attempts, NPOPPER poppers x NPOP trypop attempts.
 * Indices start at a symbolic value X (incl. near 2^64: wrap-around).  Oracles:
 *  - occupancy (ghost, counted at claim time) never exceeds capacity; a slot is never overwritten while non-NULL
 *  - every successfully pushed value is popped at most once during the run and exactly once after the final drain,
 *    pops return only pushed values, per-pusher order is preserved for a single popper
 *  - trypush fails only if the buffer was full at some instant or another operation was in progress; same for trypop/empty */
#include "lockfree_ring_buffer.h"
#include "vm.h"
#ifndef LOG
#define LOG 1
#endif
#define CAP (1u << LOG)
#ifndef NPUSH
#define NPUSH 2
#endif
#ifndef NPOP
#define NPOP 2
#endif
#ifndef NPUSH2
#define NPUSH2 NPUSH   /* pushes of the second pusher (asymmetric programs: one pusher stalls, the other laps it) */
#endif
lockfree_ring_buffer_t* rb;
volatile uint64_t ops_begun, ops_done;      /* ghost counters of operations begun / completed (any kind) */
volatile uint64_t pushes_ok, pops_ok;       /* ghost: completed successful pushes / pops */
volatile uint64_t pushes_ok_begun, pops_ok_begun;
uint64_t popped_mask;                       /* values 1..6 popped so far (bit set), maintained atomically via vm_mark */
uint64_t res1, res2;

void vm_init(void) { rb = lockfree_ring_buffer_create(LOG); }
void vm_setup(void) {
  uint64_t x = vm_nondet();
#ifdef WRAP
  vm_assume(x >= (uint64_t)-3);           /* indices wrap through 2^64 during the run */
#else
  vm_assume(x <= 1);
#endif
  rb->high = x; rb->low = x;
}

static inline void pusher(int id, int npush) {
  for (int i = 0; i < npush; i++) {
    uint64_t done_before = ops_done, pops_before = pops_ok, pushes_begun_before = pushes_ok_begun;
    __atomic_fetch_add(&ops_begun, 1, __ATOMIC_SEQ_CST);
    uint64_t v = id * 8 + i + 1;
    int ok = lockfree_ring_buffer_trypush(rb, (void*)v);
    uint64_t begun_after = ops_begun;
    if (ok) {
      __atomic_fetch_add(&pushes_ok, 1, __ATOMIC_SEQ_CST);
    } else {
      /* failure is legitimate only if the buffer was full at some instant during the call, or another operation
         was in progress during the call.  Quiescent and not full => must succeed. */
      uint64_t quiescent = (done_before + 1 == begun_after); /* nobody else began-and-not-finished: all ops begun before us were done, none began during */
      if (quiescent) {
        vm_assert(pushes_ok - pops_before >= CAP, "C16 ring: trypush failed although the buffer was not full and no other operation was in progress");
      }
    }
    __atomic_fetch_add(&ops_done, 1, __ATOMIC_SEQ_CST);
    vm_progress();
  }
}

static inline uint64_t popper(void) {
  uint64_t mine = 0, last0 = 0, last1 = 0;
  for (int i = 0; i < NPOP; i++) {
    uint64_t done_before = ops_done, pushes_before = pushes_ok;
    __atomic_fetch_add(&ops_begun, 1, __ATOMIC_SEQ_CST);
    uint64_t v = (uint64_t)lockfree_ring_buffer_trypop(rb);
    uint64_t begun_after = ops_begun;
    if (v) {
      uint64_t id = (v - 1) / 8, k = (v - 1) % 8;
      vm_assert(id < 2 && k < (NPUSH > NPUSH2 ? NPUSH : NPUSH2), "C16 ring: trypop returned a value that was never pushed");
      uint64_t old = __atomic_fetch_or(&popped_mask, 1ul << v, __ATOMIC_SEQ_CST);
      vm_assert(!(old & (1ul << v)), "C16 ring: a pushed item was popped twice");
      /* one popper sees each pusher's items in push order */
      if (id == 0) { vm_assert(k + 1 > last0, "C16 ring: items of one pusher popped out of order"); last0 = k + 1; }
      else { vm_assert(k + 1 > last1, "C16 ring: items of one pusher popped out of order"); last1 = k + 1; }
      __atomic_fetch_add(&pops_ok, 1, __ATOMIC_SEQ_CST);
      mine++;
    } else {
      uint64_t quiescent = (done_before + 1 == begun_after);
      if (quiescent) {
        vm_assert(pushes_before <= pops_ok, "C16 ring: trypop reported empty although an item was present and no other operation was in progress");
      }
    }
    __atomic_fetch_add(&ops_done, 1, __ATOMIC_SEQ_CST);
    vm_progress();
  }
  return mine;
}

#if defined(CFG_MIX)
/* one thread pushes and then pops itself, two more poppers: three pop attempts race over two items (a popper holding a stale `high`
   while another one has claimed a slot but not yet cleared it) */
void vm_thread_1(void) { pusher(0, NPUSH); res1 = popper(); }
void vm_thread_2(void) { res2 = popper(); }
void vm_thread_3(void) { (void)popper(); }
#elif defined(CFG_2P1C)
void vm_thread_1(void) { pusher(0, NPUSH); }
void vm_thread_2(void) { pusher(1, NPUSH2); }
void vm_thread_3(void) { res1 = popper(); }
#else /* 1 pusher, 2 poppers */
void vm_thread_1(void) { pusher(0, NPUSH); }
void vm_thread_2(void) { res1 = popper(); }
void vm_thread_3(void) { res2 = popper(); }
#endif

void vm_final(void) {
  /* occupancy: everything pushed and not yet popped is still in the buffer, in claim order, and fits */
  uint64_t in = pushes_ok - pops_ok;
  vm_assert(pushes_ok >= pops_ok && in <= CAP, "C16 ring: buffer holds more than its capacity / popped more than pushed");
  vm_assert(rb->high - rb->low == in, "C16 ring: index difference does not match the number of unpopped items");
  uint64_t mask = popped_mask;
  for (uint64_t k = 0; k < CAP + 1; k++) {
    uint64_t v = (uint64_t)lockfree_ring_buffer_trypop(rb);
    if (!v) { vm_assert(k == in, "C16 ring: a successfully pushed item was lost (final drain came up short)"); break; }
    vm_assert(k < in, "C16 ring: final drain returned more items than were pushed and not popped");
    vm_assert(!(mask & (1ul << v)), "C16 ring: a pushed item was popped twice (final drain)");
    mask |= 1ul << v;
  }
}
