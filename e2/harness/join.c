/* C04: join / tryjoin / detach over the contract kernel.
 * Fiber 1 is the target T: its function "returns" the value V (ghost t_returned = 1) and runs the real
 * fiber_join_routine -> fiber_mark_completed -> ... -> done_fiber hand-over -> fiber_destroy (by the successor).
 * The other fibers are actors chosen by MODE: J = fiber_join, Y = 2 x fiber_tryjoin, D = fiber_detach.
 *  - a successful join/tryjoin happens only after T's function returned and yields exactly V
 *  - at most one joiner succeeds; join after a completed detach fails
 *  - T's memory is reclaimed exactly once, after it finished, and never touched afterwards (liveness ghost of the VM:
 *    any access to the freed control block / double free is a memory-safety violation) */
#include "fiber_manager.c"
#include "fiber.c"
#ifndef NF
#define NF 2
#endif
#define K_CHECK_EARLY_WAKE
#include "kernel_contract.h"
#define V ((void*)0x5a5a)
uint64_t t_returned;
uint64_t successes;
uint64_t detach_done;        /* ghost: a fiber_detach call has completed successfully */
uint64_t results[NF + 1];

#ifdef K_MIGRATE
void vm_init(void) { k_init(); k_init_migrate(); }
#else
void vm_init(void) { k_init(); }
#endif

void vm_thread_1(void) {
  t_returned = 1;
  fiber_join_routine(k_fiber[1], V);   /* never returns normally: the fiber ends parked in state DONE */
}
static inline void check_success(void* res, const char* unused) {
  (void)unused;
  uint64_t s = __atomic_fetch_add(&successes, 1, __ATOMIC_SEQ_CST);
  vm_assert(s == 0, "C04 join: two joiners succeeded for one fiber");
  vm_assert(t_returned == 1, "C04 join: join/tryjoin succeeded before the fiber's function returned");
  vm_assert(res == V, "C04 join: a successful join/tryjoin did not deliver the fiber's return value");
}
static inline void do_join(void) {
  uint64_t detached_before = detach_done;
  void* res = (void*)1;
  int r = fiber_join(k_fiber[1], &res);
  if (r == FIBER_SUCCESS) {
    vm_assert(!detached_before, "C04 join: joining a fiber whose detach had completed succeeded");
    check_success(res, 0);
  }
  vm_progress();
}
static inline void do_join_noresult(void) {   /* fiber_join(f, NULL): the caller is not interested in the value */
  int r = fiber_join(k_fiber[1], 0);
  if (r == FIBER_SUCCESS) {
    uint64_t s = __atomic_fetch_add(&successes, 1, __ATOMIC_SEQ_CST);
    vm_assert(s == 0, "C04 join: two joiners succeeded for one fiber");
    vm_assert(t_returned == 1, "C04 join: join/tryjoin succeeded before the fiber's function returned");
    /* the value travels through the joiner's own result slot; it must not stay there, or a later join of the joiner
       would deliver the joined fiber's value instead of the joiner's own */
    vm_assert(k_fiber[vm_self()]->result == 0, "C04 join: the joiner's result slot still holds the joined fiber's return value after fiber_join(f, NULL) (a later join of the joiner would deliver a stale value)");
  }
  vm_progress();
}
static inline void do_tryjoin(void) {
  for (int i = 0; i < 2; i++) {
    uint64_t detached_before = detach_done;
    void* res = (void*)1;
    int r = fiber_tryjoin(k_fiber[1], &res);
    if (r == FIBER_SUCCESS) {
      vm_assert(!detached_before, "C04 join: tryjoin of a fiber whose detach had completed succeeded");
      check_success(res, 0);
      break;
    }
    vm_progress();
  }
}
static inline void do_detach(void) {
  int r = fiber_detach(k_fiber[1]);
  if (r == FIBER_SUCCESS) detach_done = 1;
  vm_progress();
}
#define ACT_J 1
#define ACT_Y 2
#define ACT_D 3
#define ACT_N 4
static inline void act(int a) { if (a == ACT_J) do_join(); else if (a == ACT_Y) do_tryjoin(); else if (a == ACT_N) do_join_noresult(); else do_detach(); }
void vm_thread_2(void) { act(A2); }
#if NF > 2
void vm_thread_3(void) { act(A3); }
#endif

void vm_final(void) {
  uint64_t blocked = 0;
  for (int t = 2; t <= NF; t++) if (vm_is_parked(t)) { vm_assume(!k_runnable[t]); blocked++; }
  if (vm_is_parked(1)) vm_assume(!k_runnable[1]);
  /* the target must have finished (state DONE, destroyed) if somebody joined or detached it */
  vm_assert(blocked == 0, "C04 join: a joiner stays blocked although the fiber finished (lost wake-up)");
  vm_assert(k_done[1] == 1 || (successes == 0 && detach_done == 0), "C04 join: the fiber never completed although it was joined or detached");
}
