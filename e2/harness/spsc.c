/* C15 / spsc_fifo: one producer x NPUSH pushes, one consumer popping until everything is received;
 * exactly-once in push order, NULL only when no completed push is pending (or one in flight), nothing lost. */
#include "spsc_fifo.h"
#include "vm.h"
#ifndef NPUSH
#define NPUSH 3
#endif
spsc_fifo_t q;
spsc_node_t nodes[NPUSH];
volatile uint64_t pushed_done;
volatile uint64_t pushed_begun;

void vm_init(void) { spsc_fifo_init(&q); }
void vm_setup(void) { for (int i = 0; i < NPUSH; i++) nodes[i].next = (spsc_node_t*)vm_nondet(); } /* nodes come from malloc / are recycled: link field holds garbage */

void vm_thread_1(void) {
  for (int i = 0; i < NPUSH; i++) {
    nodes[i].data = (void*)(uintptr_t)(i + 1);
    pushed_begun = i + 1;
    spsc_fifo_push(&q, &nodes[i]);
    pushed_done = i + 1;
    vm_progress();
  }
}

void vm_thread_2(void) {
  uint64_t next = 0;
  while (next < NPUSH) {
    uint64_t before = pushed_done;
    spsc_node_t* n = spsc_fifo_trypop(&q);
    if (!n) {
      uint64_t after = pushed_begun;
      vm_assert(before <= next || after > before, "C15 spsc: pop reported empty although a completed push was pending and no push was in flight");
      vm_spin();
    } else {
      vm_assert((uint64_t)n->data == next + 1, "C15 spsc: items not returned exactly once in push order");
      next++;
      vm_progress();
    }
  }
  vm_assert(spsc_fifo_trypop(&q) == 0, "C15 spsc: pop returned an item after every pushed item had been received (duplicate)");
}
void vm_final(void) {}
