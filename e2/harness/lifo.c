/* C20 mpmc_lifo (double-word CAS with version counter): ABA scenario.
 * The stack starts as  A -> B.  Thread 1 pops (gets A) and immediately pushes A again (node reuse).
 * Thread 2 pops.  Thread 3 (optional) pops.  With a missing counter bump the classic ABA corruption appears:
 * a popper that read head=A,next=B before the other thread popped A, popped B and re-pushed A installs B (already taken).
 * Oracle: every node is owned by at most one thread at a time (ghost owner word per node), pops return only nodes that
 * are in the stack, and at the end each node is either owned by exactly one popper or still reachable exactly once. */
#include "mpmc_lifo.h"
#include "vm.h"
mpmc_lifo_t lifo;
mpmc_lifo_node_t nA, nB;
uint64_t owner[2];   /* ghost: 0 = in the stack, t = held by thread t */
static inline int idx(mpmc_lifo_node_t* n) { return n == &nB; }

void vm_init(void) {
  mpmc_lifo_init(&lifo);
  mpmc_lifo_push(&lifo, &nB);
  mpmc_lifo_push(&lifo, &nA);
}
static inline mpmc_lifo_node_t* do_pop(void) {
  mpmc_lifo_node_t* n = mpmc_lifo_pop(&lifo);
  if (n) {
    vm_assert(n == &nA || n == &nB, "C20 lifo: pop returned something that is not a pushed node");
    uint64_t old = __atomic_exchange_n(&owner[idx(n)], vm_self(), __ATOMIC_SEQ_CST);
    vm_assert(old == 0, "C20 lifo: a node was handed to two takers (ABA)");
  }
  vm_progress();
  return n;
}
static inline void do_push(mpmc_lifo_node_t* n) {
  uint64_t old = __atomic_exchange_n(&owner[idx(n)], 0, __ATOMIC_SEQ_CST);
  vm_assert(old == vm_self(), "harness: pushes only nodes it owns");
  mpmc_lifo_push(&lifo, n);
  vm_progress();
}
void vm_thread_1(void) {
  mpmc_lifo_node_t* a = do_pop();
  if (a) {
    mpmc_lifo_node_t* b = do_pop();
    do_push(a);               /* reuse: a goes back while another thread may hold a stale snapshot of it */
    (void)b;
  }
}
void vm_thread_2(void) { do_pop(); }
#ifdef T3
void vm_thread_3(void) { mpmc_lifo_node_t* n = do_pop(); if (n) do_push(n); }
#endif
void vm_final(void) {
  /* conservation: nodes not owned by a thread are reachable from the head exactly once, LIFO links well formed */
  uint64_t seenA = 0, seenB = 0;
  mpmc_lifo_node_t* n = lifo.data.head;
  for (int k = 0; k < 3 && n; k++) {
    vm_assert(n == &nA || n == &nB, "C20 lifo: stack links point outside the pushed nodes");
    if (n == &nA) seenA++; else seenB++;
    n = n->next;
  }
  vm_assert(n == 0, "C20 lifo: stack has a cycle (ABA corruption)");
  vm_assert(seenA == (owner[0] == 0) && seenB == (owner[1] == 0), "C20 lifo: a node is both owned by a taker and still in the stack, or lost");
}
