/* C20 dist_fifo: one distinguished pusher (wait-free), two concurrent poppers (double-word CAS on the head).
 * Nodes popped are immediately reused by the pusher?  The FIFO hands out the *previous* dummy node carrying the value,
 * so reuse is natural: a popped node may be pushed again while the other popper still holds a stale head snapshot.
 * Oracle: each pushed value returned exactly once, in FIFO order per popper, RETRY/EMPTY lose nothing. */
#include "dist_fifo.h"
#include "vm.h"
#ifndef NPUSH
#define NPUSH 2
#endif
dist_fifo_t fifo __attribute__((aligned(16)));
dist_fifo_node_t nodes[4];
uint64_t taken;
volatile uint64_t recycled;  /* address of a node handed back to the pusher for reuse (0 = none) */

void vm_init(void) { dist_fifo_init(&fifo); }

void vm_thread_1(void) {
  for (int i = 0; i < NPUSH; i++) {
    dist_fifo_node_t* n = &nodes[i];
#ifdef REUSE
    uint64_t r = recycled;
    if (i == NPUSH - 1 && r) n = (dist_fifo_node_t*)r;   /* reuse a node that a popper just returned */
#endif
    n->data = (void*)(uintptr_t)(i + 1);
    dist_fifo_push(&fifo, n);
    vm_progress();
  }
}
static inline void popper(int tries) {
  uint64_t last = 0;
  for (int i = 0; i < tries; i++) {
    dist_fifo_node_t* n = dist_fifo_trypop(&fifo);
    if (n != DIST_FIFO_EMPTY && n != DIST_FIFO_RETRY) {
      uint64_t v = (uint64_t)n->data;
      vm_assert(v >= 1 && v <= NPUSH, "C20 dist_fifo: pop returned a value that was never pushed");
      uint64_t old = __atomic_fetch_or(&taken, 1ul << v, __ATOMIC_SEQ_CST);
      vm_assert(!(old & (1ul << v)), "C20 dist_fifo: a pushed value was handed to two poppers");
      vm_assert(v > last, "C20 dist_fifo: values seen by one popper are not in push (FIFO) order");
      last = v;
#ifdef REUSE
      recycled = (uint64_t)n;
#endif
    }
    vm_progress();
  }
}
void vm_thread_2(void) { popper(2); }
void vm_thread_3(void) { popper(2); }
void vm_final(void) {
  uint64_t m = taken;
  uint64_t last = 0;
  for (int k = 0; k < NPUSH + 1; k++) {
    dist_fifo_node_t* n = dist_fifo_trypop(&fifo);
    if (n == DIST_FIFO_EMPTY) break;
    vm_assert(n != DIST_FIFO_RETRY, "C20 dist_fifo: RETRY although no other popper is running");
    uint64_t v = (uint64_t)n->data;
    vm_assert(v >= 1 && v <= NPUSH && !(m & (1ul << v)), "C20 dist_fifo: final drain returned a duplicate or unknown value");
    vm_assert(v > last, "C20 dist_fifo: final drain not in FIFO order");
    last = v;
    m |= 1ul << v;
  }
  vm_assert(m == ((1ul << (NPUSH + 1)) - 2), "C20 dist_fifo: a pushed value was lost");
}
