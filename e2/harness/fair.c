/* C10: fiber_yield fairness on ONE kernel thread, on the real scheduler + deque + fiber_manager_yield/switch_to/do_maintenance.
 * With a single kernel thread the runtime is sequential: the only non-sequential step is fiber_context_swap, which is
 * replaced by k_swap() = "execution continues as the target fiber" (exact for fibers whose body is a loop of yields:
 * every suspended fiber is suspended at the same program point inside fiber_manager_yield, a fresh one enters through
 * fiber_go_function which performs the same fiber_manager_do_maintenance()).
 * NFIB fibers (plus the thread fiber) are ready; for STEPS steps the running fiber yields.
 * Ghost: bypass[f] = number of times another fiber was switched in since f became ready / last ran.
 * Property: bypass[f] <= 2*(n-1) with n = number of ready fibers (bounded by the number of ready fibers, independent of
 * how long the others keep yielding). */
#include "fiber_manager.c"
#include "fiber_scheduler_wsd.c"
#include "vm.h"
#ifndef NFIB
#define NFIB 2
#endif
#define NALL (NFIB + 1)
#ifndef STEPS
#define STEPS 8
#endif
#ifndef QLOG
#define QLOG 3   /* log2 of the run-queue array size the scenario starts with */
#endif
fiber_t* fibs[NALL];
uint64_t bypass[NALL];
uint64_t runs[NALL];
uint64_t running_idx;
#ifdef HANDOFF
/* fibers 1 and 2 hand off to each other by wake-then-block (the pattern of two fibers ping-ponging over a signal or channel): the one
   that runs wakes its partner if that is blocked and then blocks itself; everybody else only yields.  A blocked fiber is not ready, so
   it is not counted as bypassed. */
uint64_t blocked[NALL];
#endif

static void* body(void* p) { return p; }

void k_swap(fiber_context_t* from, fiber_context_t* to) {
  uint64_t ti = NALL, fi = NALL;
  for (uint64_t i = 0; i < NALL; i++) {
    if (&fibs[i]->context == to) ti = i;
    if (&fibs[i]->context == from) fi = i;
  }
  vm_assert(ti < NALL && fi < NALL, "C10/C01: context switch between unknown contexts");
  vm_assert(ti != fi, "C10/C01: a fiber switched to itself");
  vm_assert(fi == running_idx, "C10/C01: the fiber switching away is not the one that is running");
  for (uint64_t i = 0; i < NALL; i++) {
    if (i == ti) { bypass[i] = 0; runs[i]++; }
#ifdef HANDOFF
    else if (blocked[i]) { }
#endif
    else {
      bypass[i]++;
      vm_assert(bypass[i] <= 2 * (NALL - 1), "C10 fairness: a ready fiber was bypassed more often than 2*(n-1) times while the others kept yielding (starvation)");
    }
  }
  running_idx = ti;
}
int k_context_init(fiber_context_t* c, size_t stack_size, fiber_run_function_t fn, void* param) { c->ctx_stack = 0; c->ctx_stack_size = stack_size; c->is_thread = 0; return FIBER_SUCCESS; }
int k_context_init_from_thread(fiber_context_t* c) { memset(c, 0, sizeof(*c)); c->is_thread = 1; return FIBER_SUCCESS; }
void k_context_destroy(fiber_context_t* c) { (void)c; }

void vm_init(void) {
  fiber_scheduler_init(1);
  /* small deque arrays instead of the hard-coded 256-slot ones (state constructed directly) */
  for (int q = 0; q < 2; q++) {
    wsd_work_stealing_deque_t* d = fiber_scheduler_thread_queues[q];
    wsd_circular_array_destroy(d->underlying_array);
    d->underlying_array = wsd_circular_array_create(QLOG);
  }
  fiber_manager_t* m = fiber_manager_create(fiber_scheduler_for_thread(0));
  fiber_the_manager = m;
  fiber_manager_state = FIBER_MANAGER_STATE_STARTED;
  fibs[0] = m->thread_fiber;
  for (int i = 1; i < NALL; i++) fibs[i] = fiber_create(1024, body, 0);
#ifdef SAVING_QUEUED
  /* one more fiber sits in the run queue in state SAVING_STATE_TO_WAIT for the whole window (it was woken by this thread while its own
     kernel thread is still switching it out, and that thread is stalled): it must be skipped, not handed out, and must not block the others */
  { fiber_t* x = fiber_create(1024, body, 0); x->state = FIBER_STATE_SAVING_STATE_TO_WAIT; }
#endif
  running_idx = 0;
}
#ifdef HANDOFF
static void step(void) {
  const uint64_t me = running_idx;
  if (me == 1 || me == 2) {
    const uint64_t other = 3 - me;
    fiber_manager_t* const m = fiber_manager_get();
    if (blocked[other]) { blocked[other] = 0; bypass[other] = 0; fibs[other]->state = FIBER_STATE_READY; fiber_manager_schedule(m, fibs[other]); }
    blocked[me] = 1;
    fibs[me]->state = FIBER_STATE_WAITING;
    fiber_manager_yield(m);
  } else {
    fiber_yield();
  }
}
void vm_thread_1(void) {
  for (int s = 0; s < STEPS; s++) step();
}
#else
void vm_thread_1(void) {
  for (int s = 0; s < STEPS; s++) fiber_yield();
}
#endif
void vm_final(void) {
  for (uint64_t i = 0; i < NALL; i++) vm_assert(runs[i] + (i == 0) >= 1, "C10 fairness: a ready fiber never ran during the whole window");
}
