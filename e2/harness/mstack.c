/* C20 mpmc_stack: two pushers, one flusher (lifo_flush / fifo_flush).  Every pushed node ends up in exactly one
 * flushed chain (or remains for the final flush), chains are in LIFO resp. FIFO order of the successful CASes:
 * per-pusher order is preserved (reversed for lifo). */
#include "mpmc_stack.h"
#include "vm.h"
mpmc_stack_t st;
mpmc_stack_node_t nodes[2][2];
uint64_t seen_mask;
static uint64_t walk(mpmc_stack_node_t* n, int fifo, uint64_t mask) {
  uint64_t last0 = fifo ? 0 : 99, last1 = fifo ? 0 : 99;
  for (int k = 0; k < 5 && n; k++) {
    uint64_t v = (uint64_t)mpmc_stack_node_get_data(n);
    uint64_t p = (v - 1) / 8, i = (v - 1) % 8 + 1;
    vm_assert(v >= 1 && p < 2 && i <= 2, "C20 mpmc_stack: flushed chain contains something that was never pushed");
    vm_assert(!(mask & (1ul << v)), "C20 mpmc_stack: a node appears in two flushed chains / twice");
    mask |= 1ul << v;
    if (p == 0) { vm_assert(fifo ? i > last0 : i < last0, "C20 mpmc_stack: per-pusher order broken in flushed chain"); last0 = i; }
    else { vm_assert(fifo ? i > last1 : i < last1, "C20 mpmc_stack: per-pusher order broken in flushed chain"); last1 = i; }
    n = n->next;
  }
  vm_assert(n == 0, "C20 mpmc_stack: flushed chain longer than the number of pushed nodes (cycle)");
  return mask;
}
void vm_init(void) { mpmc_stack_init(&st); }
static inline void pusher(int p) {
  for (int i = 0; i < NPUSH; i++) {
    mpmc_stack_node_init(&nodes[p][i], (void*)(uintptr_t)(p * 8 + i + 1));
    mpmc_stack_push(&st, &nodes[p][i]);
    vm_progress();
  }
}
void vm_thread_1(void) { pusher(0); }
void vm_thread_2(void) { pusher(1); }
void vm_thread_3(void) {
  uint64_t m = 0;
  m = walk(mpmc_stack_lifo_flush(&st), 0, m);
  vm_progress();
  m = walk(mpmc_stack_fifo_flush(&st), 1, m);
  vm_progress();
  seen_mask = m;
}
void vm_final(void) {
  uint64_t m = walk(mpmc_stack_fifo_flush(&st), 1, seen_mask);
  uint64_t want = 0;
  for (int p = 0; p < 2; p++) for (int i = 0; i < NPUSH; i++) want |= 1ul << (p * 8 + i + 1);
  vm_assert(m == want, "C20 mpmc_stack: a pushed node was lost");
}
