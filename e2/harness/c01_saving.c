/* C01 scenario S2: a wake-up that arrives BEFORE the sleeper has switched away (mpsc-queue waiters, e.g. mutex / barrier /
 * rwlock / cond).  Two kernel threads.
 *   fiber A (on k0): real fiber_manager_wait_in_mpsc_queue: state = SAVING, pushes itself on the queue, real
 *       fiber_manager_yield -> real scheduler_next (nothing) -> real switch_to(maintenance fiber S0) -> r_swap
 *   fiber S0 (k0's maintenance fiber, fresh): entry = real fiber_manager_do_maintenance() (flips SAVING -> WAITING)
 *   fiber W (on k1): real fiber_manager_wake_from_mpsc_queue (pops A, READY only if WAITING, real schedule onto k1's
 *       deque), then yields until A has run: real yield -> real scheduler_next (must skip A while SAVING) -> switch_to(A)
 * r_swap asserts that A is only ever switched to after its own swap completed; A re-fetches its manager after resuming. */
#include "fiber_manager.c"
#include "fiber.c"
#include "fiber_scheduler_wsd.c"
#define RNF 3
#include "kernel_runtime.h"
mpsc_fifo_t Q;
volatile uint64_t a_resumed;
uint64_t a_kt_after;

void vm_init(void) {
  fiber_scheduler_init(2);
  r_shrink_queues(2, 2);
  fiber_manager_t* m0 = fiber_manager_create(fiber_scheduler_for_thread(0));
  fiber_manager_t* m1 = fiber_manager_create(fiber_scheduler_for_thread(1));
  m1->id = 1;
  fiber_manager_num_threads = 2;
  vm_set_kt(0); fiber_the_manager = m0;
  vm_set_kt(1); fiber_the_manager = m1;
  vm_set_kt(0);
  fiber_manager_state = FIBER_MANAGER_STATE_STARTED;
  m0->maintenance_fiber = fiber_create_no_sched(1024, &fiber_manager_thread_func, m0);
  m1->maintenance_fiber = m1->thread_fiber;
  mpsc_fifo_init(&Q);
  r_register(1, m0->thread_fiber, 0);          /* A: running on k0 */
  r_register(2, m0->maintenance_fiber, -1);    /* S0: fresh, saved */
  r_register(3, m1->thread_fiber, 1);          /* W: running on k1 */
}
void vm_thread_1(void) {   /* A */
  vm_set_kt(0);
  fiber_manager_wait_in_mpsc_queue(fiber_manager_get(), &Q);
  a_kt_after = vm_get_kt();
  vm_assert(fiber_manager_get()->current_fiber == r_fiber[1], "C01: after resuming, the fiber is not the current fiber of the manager of the kernel thread it runs on");
  a_resumed = 1;
}
void vm_thread_2(void) {   /* S0: a fresh fiber starts in fiber_go_function, which first runs the deferred actions */
  r_resume_here(2);
  fiber_manager_do_maintenance();
}
void vm_thread_3(void) {   /* W */
  vm_set_kt(1);
  int n = fiber_manager_wake_from_mpsc_queue(fiber_manager_get(), &Q, 1);
  vm_assert(n == 1, "C01: wake_from_mpsc_queue(count=1) woke exactly one fiber");
  while (!a_resumed) {
    fiber_manager_yield(fiber_manager_get());
    vm_spin();
  }
}
void vm_final(void) {
  /* discard non-maximal runs: a parked fiber that holds a token could still run */
  for (uint64_t t = 1; t <= RNF; t++) if (vm_is_parked(t)) vm_assume(!r_token[t]);
  vm_assert(a_resumed == 1, "C01/C02: the woken fiber never ran again although a kernel thread kept scheduling (lost wake-up)");
  vm_assert(r_resumes[1] == 1, "C02: the fiber was run more than once for one wake-up");
}
