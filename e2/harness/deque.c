/* C02 (deque level): Chase-Lev deque of the real work_stealing_deque.c.
 * One owner (push_bottom / pop_bottom) and NTHIEF thieves (steal).  The deque starts with INIT elements in an array of
 * 2^LOG slots, so that the configured owner program crosses the growth boundary when it pushes.
 * Oracle: every pushed value is returned by exactly one successful pop/steal or is still in the deque at the end
 * (drained by the owner after all threads finished); no value is returned that was not pushed; ABORT/EMPTY lose nothing. */
#include "work_stealing_deque.h"
#include "vm.h"
#include <stdlib.h>
#ifndef LOG
#define LOG 1
#endif
#ifndef INIT
#define INIT 2
#endif
#ifndef NSTEAL
#define NSTEAL 2
#endif
wsd_work_stealing_deque_t* d;
uint64_t taken;        /* ghost bit mask of values returned so far (atomic or) */

static void take(uint64_t v) {
  vm_assert(v >= 1 && v <= 6, "C02 deque: returned a value that was never pushed");
  uint64_t old = __atomic_fetch_or(&taken, 1ul << v, __ATOMIC_SEQ_CST);
  vm_assert(!(old & (1ul << v)), "C02 deque: one entry was handed to two takers (duplicate)");
}

void vm_init(void) {
  d = malloc(sizeof(*d));
  d->top = 0; d->bottom = 0;
  d->underlying_array = wsd_circular_array_create(LOG);
  for (uint64_t i = 1; i <= INIT; i++) wsd_work_stealing_deque_push_bottom(d, (void*)i);
}
void vm_setup(void) {
#ifdef OFFSET
  /* common symbolic offset on top/bottom (index arithmetic incl. negative / large indices) */
  uint64_t off = vm_nondet();
  vm_assume(off == 0 || off == (uint64_t)-4 || off == (uint64_t)-8 || off == ((uint64_t)1 << 62));
  vm_assume((off & (uint64_t)d->underlying_array->size_minus_one) == 0);   /* keeps the slot mapping of the entries pushed by vm_init (the array may have grown there) */
  d->top += off; d->bottom += off;
#endif
}

static inline void own_pop(void) {
  void* r = wsd_work_stealing_deque_pop_bottom(d);
  if (r != WSD_EMPTY && r != WSD_ABORT) take((uint64_t)r);
  vm_progress();
}
static inline void own_push(uint64_t v) { wsd_work_stealing_deque_push_bottom(d, (void*)v); vm_progress(); }

void vm_thread_1(void) {
#if defined(PROG_POP2)
  own_pop(); own_pop();
#elif defined(PROG_PUSH_POP)
  own_push(INIT + 1); own_pop(); own_pop();
#elif defined(PROG_PUSH3)
  /* with INIT=2 in a 2-slot array: grows 2->4 at the first push and 4->8 at the third (two array generations retired while a
     thief may still hold the first one) */
  own_push(INIT + 1); own_push(INIT + 2); own_push(INIT + 3);
#elif defined(PROG_PUSH2_POP)
  own_push(INIT + 1); own_push(INIT + 2); own_pop();
#else
  own_pop(); own_push(INIT + 1); own_pop();
#endif
}
static inline void thief(void) {
  for (int i = 0; i < NSTEAL; i++) {
    void* r = wsd_work_stealing_deque_steal(d);
    if (r != WSD_EMPTY && r != WSD_ABORT) take((uint64_t)r);
    vm_progress();
  }
}
void vm_thread_2(void) { thief(); }
#ifdef THIEF2
void vm_thread_3(void) { thief(); }
#endif

#if defined(PROG_POP2)
#define NPUSHED (INIT)
#elif defined(PROG_PUSH3)
#define NPUSHED (INIT + 3)
#elif defined(PROG_PUSH2_POP)
#define NPUSHED (INIT + 2)
#else
#define NPUSHED (INIT + 1)
#endif
void vm_final(void) {
  uint64_t m = taken;
  for (int k = 0; k < NPUSHED + 1; k++) {
    void* r = wsd_work_stealing_deque_pop_bottom(d);
    if (r == WSD_EMPTY) break;
    vm_assert(r != WSD_ABORT, "C02 deque: pop aborted although no thief is running");
    uint64_t v = (uint64_t)r;
    vm_assert(v >= 1 && v <= NPUSHED, "C02 deque: final drain returned a value that was never pushed");
    vm_assert(!(m & (1ul << v)), "C02 deque: one entry was handed to two takers (final drain)");
    m |= 1ul << v;
  }
  vm_assert(m == ((1ul << (NPUSHED + 1)) - 2), "C02 deque: a queued entry was dropped (neither returned nor left in the deque)");
  vm_assert(d->bottom == d->top, "C02 deque: deque not empty after the final drain");
}
