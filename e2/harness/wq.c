/* C17 work_queue: NT threads each push NITEM items; whoever is told START_WORKING drains with get_work until EMPTY.
 *  - at most one active worker at a time (ghost)
 *  - every item is handed out exactly once
 *  - when all threads are finished no item is left queued (EMPTY is never reported with an item stranded) */
#include "work_queue.h"
#include "vm.h"
#ifndef NITEM
#define NITEM 1
#endif
#ifndef NT
#define NT 2
#endif
work_queue_t wq;
work_queue_item_t items[3][NITEM];
uint64_t active;       /* ghost: number of threads currently between START_WORKING and EMPTY */
uint64_t handed_mask;  /* ghost: items handed out */
uint64_t pushed_total;

void vm_init(void) { work_queue_init(&wq); }

static inline void worker(int t) {
  for (int i = 0; i < NITEM; i++) {
    items[t][i].data = (void*)(uintptr_t)(t * 8 + i + 1);
    __atomic_fetch_add(&pushed_total, 1, __ATOMIC_SEQ_CST);
    int r = work_queue_push(&wq, &items[t][i]);
    if (r == WORK_QUEUE_START_WORKING) {
      uint64_t a = __atomic_fetch_add(&active, 1, __ATOMIC_SEQ_CST);
      vm_assert(a == 0, "C17 work queue: two callers were told to start working at the same time");
      work_queue_item_t* out = 0;
      while (work_queue_get_work(&wq, &out) == WORK_QUEUE_MORE_WORK) {
        uint64_t v = (uint64_t)out->data;
        vm_assert(v >= 1 && (v - 1) / 8 < NT && (v - 1) % 8 < NITEM, "C17 work queue: handed out an item that was never pushed");
        uint64_t old = __atomic_fetch_or(&handed_mask, 1ul << v, __ATOMIC_SEQ_CST);
        vm_assert(!(old & (1ul << v)), "C17 work queue: an item was handed out twice");
        vm_assert(active == 1, "C17 work queue: item handed to a worker while another worker is active");
      }
      __atomic_fetch_sub(&active, 1, __ATOMIC_SEQ_CST);
    } else {
      vm_assert(r == WORK_QUEUE_QUEUED, "C17 work queue: push returns START_WORKING or QUEUED");
    }
    vm_progress();
  }
}
void vm_thread_1(void) { worker(0); }
void vm_thread_2(void) { worker(1); }
#if NT > 2
void vm_thread_3(void) { worker(2); }
#endif

void vm_final(void) {
  uint64_t want = 0;
  for (int t = 0; t < NT; t++) for (int i = 0; i < NITEM; i++) want |= 1ul << (t * 8 + i + 1);
  vm_assert(active == 0, "C17 work queue: a worker is still marked active after all threads finished");
  vm_assert(handed_mask == want, "C17 work queue: an item was left queued with no active worker (stranded) or lost");
  vm_assert(wq.in_count == 0, "C17 work queue: in_count not back to zero after the queue was drained");
}
