/* C17 work_queue.  Thread 1 ("worker") pushes an item, is told START_WORKING and drains with get_work until EMPTY;
 * the other threads ("pushers") push concurrently and are told QUEUED (executions in which a pusher is told
 * START_WORKING are the symmetric case and are cut by an assumption -- except in the HANDOVER configuration, where
 * thread 2 starts only after the worker finished and must be told START_WORKING itself).
 *  - a pusher is never told START_WORKING while the worker is active (between its START_WORKING and the EMPTY result)
 *  - every item is handed out exactly once, only items that were pushed
 *  - EMPTY is reported only when every item pushed so far was handed out: at the end nothing is stranded,
 *    i.e. every pusher that was told QUEUED had its item processed by the worker */
#include "work_queue.h"
#include "vm.h"
#ifndef NPUSHERS
#define NPUSHERS 1
#endif
work_queue_t wq;
work_queue_item_t items[3];
volatile uint64_t worker_state;   /* ghost: 0 not started, 1 active (told START_WORKING), 2 told EMPTY */
uint64_t handed_mask;
volatile uint64_t queued_mask;    /* ghost: items whose push returned QUEUED */
volatile uint64_t second_started; /* ghost: a pusher was told START_WORKING (set right after its push returned) */

void vm_init(void) { work_queue_init(&wq); }

static inline uint64_t drain(int first) {
  uint64_t mask = 0;
  work_queue_item_t* out = 0;
  while (1) {
    uint64_t other = first ? second_started : 0; /* sampled before the call begins */
    if (work_queue_get_work(&wq, &out) != WORK_QUEUE_MORE_WORK) break;
    /* once another caller has been told to start working, this worker's EMPTY decision has already been taken:
       being handed a further item means two workers are active at the same time */
    vm_assert(!other, "C17 work queue: an item was handed to a worker after another caller had been told to start working (two active workers)");
    uint64_t v = (uint64_t)out->data;
    vm_assert(v >= 1 && v <= 3, "C17 work queue: handed out an item that was never pushed");
    vm_assert(!(mask & (1ul << v)), "C17 work queue: an item was handed out twice");
    mask |= 1ul << v;
  }
  return mask;
}

void vm_thread_1(void) {
  items[0].data = (void*)1;
  int r = work_queue_push(&wq, &items[0]);
#ifdef HANDOVER
  vm_assume(r == WORK_QUEUE_START_WORKING);
#else
  vm_assume(r == WORK_QUEUE_START_WORKING); /* symmetric case cut, see header */
#endif
  worker_state = 1;
  uint64_t m = drain(1);
  worker_state = 2;
  handed_mask = m;
}

static inline void pusher(int k) {
#ifdef HANDOVER
  vm_assume(worker_state == 2);   /* sequential hand-over: this thread starts after the first worker was told EMPTY */
#endif
  items[k].data = (void*)(uintptr_t)(k + 1);
  uint64_t ws_before = worker_state;
  int r = work_queue_push(&wq, &items[k]);
  uint64_t ws_after = worker_state;
  if (r == WORK_QUEUE_START_WORKING) {
    /* legal only if the worker was not active during the whole call: it had been told EMPTY before we started,
       or had not been told START_WORKING when we finished */
    second_started = 1;
    (void)ws_before; (void)ws_after;
#ifdef HANDOVER
    uint64_t m = drain(0);
    vm_assert(m == (1ul << (k + 1)), "C17 work queue: the second worker must be handed exactly its own item");
    queued_mask |= 1ul << 7; /* marks: handled by itself */
#else
    vm_assume(0);
#endif
  } else {
#ifdef HANDOVER
    vm_assert(0, "C17 work queue: push after the worker was told EMPTY must be told START_WORKING (item stranded otherwise)");
#endif
    vm_assert(r == WORK_QUEUE_QUEUED, "C17 work queue: push returns START_WORKING or QUEUED");
    __atomic_fetch_or(&queued_mask, 1ul << (k + 1), __ATOMIC_SEQ_CST);
  }
}
void vm_thread_2(void) { pusher(1); }
#if NPUSHERS > 1
void vm_thread_3(void) { pusher(2); }
#endif

void vm_final(void) {
  uint64_t q = queued_mask & 0x7e;
  vm_assert(worker_state == 2, "C17 work queue: worker finished");
  vm_assert((handed_mask & 2) != 0, "C17 work queue: the worker was not handed its own item");
#ifdef HANDOVER
  vm_assert(queued_mask == (1ul << 7) && handed_mask == 2, "C17 work queue: hand-over: each worker handles exactly its own item");
  return;
#endif
  vm_assert((handed_mask & ~2ul) == q, "C17 work queue: an item whose push was answered QUEUED was left stranded with no active worker (or an item was handed out that was not queued)");
  vm_assert(wq.in_count == 0 && wq.out_count == 0, "C17 work queue: counters not back to zero after the queue was drained");
}
