/* C11 (a'): the channel receive pattern over the real fiber_signal and the contract kernel, with the message queue abstracted to
 * one plain word (queue correctness itself is C15/C16):
 *     sender:    msg = 1 (plain store, like the link store of the queue push);  fiber_signal_raise()
 *     receiver:  while (!msg) fiber_signal_wait()          (fiber_*_channel_receive)
 * The signal starts either clear or already RAISED (an earlier message that was consumed without sleeping: symbolic).
 *  - the receiver is never stranded: the store->load order "reset the signal, then re-check the queue" against
 *    "publish the message, then exchange RAISED" must hold under x86-TSO as well (needs the seq_cst reset in fiber_signal_wait) */
#include "fiber_manager.c"
#define NF 2
#include "kernel_contract.h"
#include "fiber_signal.h"
fiber_signal_t sig;
volatile uint64_t msg;
volatile uint64_t got, sent;


void vm_init(void) { k_init(); fiber_signal_init(&sig); }
void vm_setup(void) {
  if (vm_nondet() & 1) sig.waiter = (fiber_t*)FIBER_SIGNAL_RAISED;
}
void vm_thread_1(void) {
  if (!msg) { fiber_signal_wait(&sig);
    if (!msg) { fiber_signal_wait(&sig);
      vm_assert(msg, "C11 signal+queue: the receiver was woken twice without a message"); } }
  got = 1;
  vm_progress();
}
void vm_thread_2(void) {
  msg = 1;
  fiber_signal_raise(&sig);
  sent = 1;
  vm_progress();
}
void vm_final(void) {
  vm_assert(!k_blocked_forever(), "C11 signal+queue: the message was published and the signal raised, but the receiver sleeps forever (raise lost)");
  vm_assert(got && sent, "C11 signal+queue: both sides completed");
}
