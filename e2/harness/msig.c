/* C20 (multi-signal part): fiber_multi_signal over the contract kernel.  NW waiters, NR raisers (one raise each).
 *  - a raise releases exactly one waiter or leaves the signal raised: every return from wait is matched by its own raise
 *    (returned waits <= raises begun), one raise never releases two waiters (contract: never scheduled twice; count check)
 *  - never dropped while a fiber waits: at quiescence a blocked waiter implies the signal is not in the raised state and
 *    no raise completed after that waiter had registered; blocked waiters are exactly the ones still in the list */
#include "fiber_manager.c"
#ifndef NW
#define NW 2
#endif
#ifndef NR
#define NR 1
#endif
#define NF (NW + NR)
#define K_CHECK_EARLY_WAKE
#include "kernel_contract.h"
#include "fiber_signal.h"
fiber_multi_signal_t ms;
volatile uint64_t raises_begun, raises_done, returned;

void vm_init(void) { k_init(); fiber_multi_signal_init(&ms); }
static inline void waiter(void) {
  fiber_multi_signal_wait(&ms);
  uint64_t r = __atomic_fetch_add(&returned, 1, __ATOMIC_SEQ_CST) + 1;
  vm_assert(r <= raises_begun, "C20 multi-signal: more waiters were released than raises were issued (one raise released two waiters, or a spurious release)");
  vm_progress();
}
static inline void raiser(void) {
  __atomic_fetch_add(&raises_begun, 1, __ATOMIC_SEQ_CST);
  fiber_multi_signal_raise(&ms);
  __atomic_fetch_add(&raises_done, 1, __ATOMIC_SEQ_CST);
  vm_progress();
}
void vm_thread_1(void) { raiser(); }
#if NR > 1
void vm_thread_2(void) { raiser(); }
#define W0 3
#else
#define W0 2
#endif
#if W0 == 2
void vm_thread_2(void) { waiter(); }
#if NW > 1
void vm_thread_3(void) { waiter(); }
#endif
#else
void vm_thread_3(void) { waiter(); }
#if NW > 1
void vm_thread_4(void) { waiter(); }
#endif
#endif
void vm_final(void) {
  uint64_t blocked = k_blocked_forever();
  uint64_t r = returned;
  vm_assert(r + blocked == NW, "C20 multi-signal: accounting (every waiter either returned or is blocked)");
  /* raises either released a waiter or were coalesced into the raised state; with all raises finished:
     released = min(NW, number of non-coalesced raises) >= 1 if any raise was issued while/after... sound bound: */
  vm_assert(r <= raises_done, "C20 multi-signal: more releases than raises");
  if (blocked > 0) {
    vm_assert(ms.data.head != FIBER_MULTI_SIGNAL_RAISED, "C20 multi-signal: the signal is raised while a fiber is still waiting (raise dropped)");
    /* a blocked waiter is still registered in the list */
    uint64_t n = 0;
    mpsc_fifo_node_t* p = ms.data.head;
    for (int k = 0; k < NW + 1 && p; k++) { n++; p = p->next; }
    vm_assert(n == blocked, "C20 multi-signal: a blocked waiter is not in the waiter list (lost) or the list is corrupt");
    /* each raise released a distinct waiter unless it found none: raises_done - r raises found no waiter, which is only
       possible if they were issued when nobody was registered; since blocked waiters stay registered forever, such a raise
       must have preceded their registration: cannot be checked exactly without timestamps, the list/raised checks above are the claim */
  }
}
