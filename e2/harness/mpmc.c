/* C13 (+ C14 protocol part): mpmc_fifo over the real hazard pointer implementation.
 * Pushers push fresh nodes; poppers pop and call hazard_pointer_scan() after every successful pop, so that retired
 * nodes are handed to their gc callback as early as the protocol allows.  The callback either free()s the node
 * (any later access is a memory-safety violation reported by the VM) or, with RECYCLE, makes it available to the
 * pusher for immediate reuse (ABA pressure while another thread may still hold the old head/tail).
 * Oracle: popped values were pushed, none twice, per-pusher order per popper, NULL only if the queue was empty at
 * some instant or a push was in flight, nothing lost (final drain), no access to reclaimed memory. */
#include "mpmc_fifo.h"
#include "vm.h"
#include <stdlib.h>
#ifndef NPUSHER
#define NPUSHER 1
#endif
#ifndef NPUSH
#define NPUSH 2
#endif
#ifndef NPOPPER
#define NPOPPER 2
#endif
#ifndef NPOP
#define NPOP 1
#endif
#define NT (NPUSHER + NPOPPER)
mpmc_fifo_t fifo;
_Atomic(hazard_pointer_thread_record_t*) hp_head;
hazard_pointer_thread_record_t* rec[NT + 1];
mpmc_fifo_node_t* fresh[NPUSHER][NPUSH];
volatile uint64_t pushed_done[2], pushed_begun[2];
uint64_t taken;
volatile uint64_t recycled; /* RECYCLE: address of a node handed back by the gc callback */
volatile uint64_t gc_calls;
uint64_t pop_active; /* ghost: poppers currently inside trypop (or between trypop and recording the result) */

void qsort(void* base, size_t n, size_t sz, int (*cmp)(const void*, const void*)) {
  /* model of libc qsort for 8-byte elements: insertion sort calling the real comparison function */
  hazard_node_t** a = (hazard_node_t**)base;
  for (size_t i = 1; i < n; i++) {
    for (size_t j = i; j > 0; j--) {
      hazard_node_t* pair[2] = {a[j - 1], a[j]};   /* the comparison function sees copies (keeps its accesses local) */
      if (cmp(&pair[0], &pair[1]) <= 0) break;
      a[j] = pair[0]; a[j - 1] = pair[1];
    }
  }
}

static void gc_node(void* gc_data, hazard_node_t* node) {
  gc_calls = gc_calls + 1;
#ifdef RECYCLE
  recycled = (uint64_t)node;
#else
  free(node);
#endif
}
static mpmc_fifo_node_t* new_node(void) {
  mpmc_fifo_node_t* n = malloc(sizeof(*n));
  n->hazard.gc_data = 0;
  n->hazard.gc_function = gc_node;
  return n;
}
void vm_init(void) {
  for (int t = 1; t <= NT; t++) {
    rec[t] = hazard_pointer_thread_record_create_and_push(&hp_head, MPMC_HAZARD_COUNT);
    hazard_pointer_scan(rec[t]);   /* allocates the scratch list up front */
  }
  mpmc_fifo_init(&fifo, new_node());
  for (int p = 0; p < NPUSHER; p++) for (int i = 0; i < NPUSH; i++) fresh[p][i] = new_node();
}
static inline void pusher(int p, int tid) {
  for (int i = 0; i < NPUSH; i++) {
    mpmc_fifo_node_t* n = fresh[p][i];
#ifdef RECYCLE
    uint64_t r = recycled;
    if (i == NPUSH - 1 && r) { n = (mpmc_fifo_node_t*)r; recycled = 0; }
#endif
    n->value = (void*)(uintptr_t)(p * 8 + i + 1);
    pushed_begun[p] = i + 1;
    mpmc_fifo_push(rec[tid], &fifo, n);
    pushed_done[p] = i + 1;
    vm_progress();
  }
}
static inline void popper(int tid) {
  uint64_t last0 = 0, last1 = 0;
  /* pop until all pushed values have been received by somebody: an await loop (empty results are retried) */
  while (__builtin_popcountl(taken) < NPUSHER * NPUSH) {
    uint64_t b0 = pushed_done[0], b1 = pushed_done[1];
    __atomic_fetch_add(&pop_active, 1, __ATOMIC_SEQ_CST);
    uint64_t v = (uint64_t)mpmc_fifo_trypop(rec[tid], &fifo);
    if (!v) {
      uint64_t others = __atomic_fetch_sub(&pop_active, 1, __ATOMIC_SEQ_CST) - 1;
      uint64_t a0 = pushed_begun[0], a1 = pushed_begun[1];
      /* every push completed before this pop began (b0+b1) has been taken by a pop that is recorded by now or still
         in flight, or a push was in flight during this pop */
      uint64_t popped = __builtin_popcountl(taken);
      vm_assert(b0 + b1 <= popped + others || a0 > b0 || a1 > b1,
                "C13 mpmc fifo: pop reported empty although a completed push was pending and no push was in flight");
      vm_spin();
    } else {
      uint64_t p = (v - 1) / 8, i = (v - 1) % 8 + 1;
      vm_assert(p < NPUSHER && i <= NPUSH, "C13 mpmc fifo: pop returned a value that was never pushed");
      uint64_t old = __atomic_fetch_or(&taken, 1ul << v, __ATOMIC_SEQ_CST);
      vm_assert(!(old & (1ul << v)), "C13 mpmc fifo: a pushed value was popped twice");
      __atomic_fetch_sub(&pop_active, 1, __ATOMIC_SEQ_CST);
      if (p == 0) { vm_assert(i > last0, "C13 mpmc fifo: values of one pusher seen out of push order by one popper"); last0 = i; }
      else { vm_assert(i > last1, "C13 mpmc fifo: values of one pusher seen out of push order by one popper"); last1 = i; }
#ifdef SCAN
      hazard_pointer_scan(rec[tid]);
#endif
    }
    vm_progress();
  }
}
void vm_thread_1(void) { pusher(0, 1); }
#if NPUSHER == 2
void vm_thread_2(void) { pusher(1, 2); }
void vm_thread_3(void) { popper(3); }
#if NPOPPER == 2
void vm_thread_4(void) { popper(4); }
#endif
#else
void vm_thread_2(void) { popper(2); }
#if NPOPPER == 2
void vm_thread_3(void) { popper(3); }
#endif
#endif

void vm_final(void) {
  /* poppers in DRAIN mode only stop when every pushed value has been received (else they are reported as stuck) */
  uint64_t want = 0;
  for (int p = 0; p < NPUSHER; p++) for (int i = 0; i < NPUSH; i++) want |= 1ul << (p * 8 + i + 1);
  vm_assert(taken == want, "C13 mpmc fifo: a pushed value was lost");
}
