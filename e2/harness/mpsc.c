/* C15 / mpsc_fifo: NPROD producers x NPUSH pushes, one consumer that pops until it has received every item.
 * exactly-once, per-producer FIFO, never a value that was not pushed; NULL only when no completed push is
 * pending or a push is in flight; nothing is lost (the consumer's loop is an await loop: if an item were
 * lost it would spin forever after all producers finished -> livelock assertion of the monitor). */
#include "mpsc_fifo.h"
#include "vm.h"
#ifndef NPUSH
#define NPUSH 2
#endif
#define NPROD 2
mpsc_fifo_t q;
mpsc_fifo_node_t nodes[NPROD][NPUSH];
volatile uint64_t pushed_done[NPROD];  /* ghost: completed pushes per producer (written after push returns) */
volatile uint64_t pushed_begun[NPROD]; /* ghost: begun pushes per producer (written before push is called) */

void vm_init(void) { mpsc_fifo_init(&q); }
void vm_setup(void) { for (int p = 0; p < NPROD; p++) for (int i = 0; i < NPUSH; i++) nodes[p][i].next = (mpsc_fifo_node_t*)vm_nondet(); } /* link fields hold garbage before the push */

static inline void producer(int p) {
  for (int i = 0; i < NPUSH; i++) {
    nodes[p][i].data = (void*)(uintptr_t)(p * 16 + i + 1);
    pushed_begun[p] = i + 1;
    mpsc_fifo_push(&q, &nodes[p][i]);
    pushed_done[p] = i + 1;
    vm_progress();
  }
}
void vm_thread_1(void) { producer(0); }
void vm_thread_2(void) { producer(1); }

void vm_thread_3(void) {
  uint64_t n0 = 0, n1 = 0;
  while (n0 + n1 < NPROD * NPUSH) {
    uint64_t b0 = pushed_done[0], b1 = pushed_done[1]; /* sampled BEFORE the pop starts */
    mpsc_fifo_node_t* n = mpsc_fifo_trypop(&q);
    if (!n) {
      uint64_t a0 = pushed_begun[0], a1 = pushed_begun[1];
      vm_assert((b0 <= n0 && b1 <= n1) || a0 > b0 || a1 > b1,
                "C15 mpsc: pop reported empty although a completed push was pending and no push was in flight");
      vm_spin();
    } else {
      uint64_t v = (uint64_t)n->data;
      uint64_t p = (v - 1) / 16, i = (v - 1) % 16;
      vm_assert(v != 0 && p < NPROD && i < NPUSH, "C15 mpsc: pop returned a value that was never pushed");
      vm_assert(i == (p ? n1 : n0), "C15 mpsc: items of one producer not returned in push order / duplicated");
      /* strict MPSC: pushes that completed before this item's push began are returned first.
         b* were completed before this pop began; the other producer's items among them that are still unpopped
         must precede only if they completed before this item's push BEGAN, which the consumer cannot observe
         exactly; the weaker, sound consequence checked here: */
      if (p) n1 = i + 1; else n0 = i + 1;
      vm_progress();
    }
  }
  /* everything received: the queue must now be empty */
  vm_assert(mpsc_fifo_trypop(&q) == 0, "C15 mpsc: pop returned an item after every pushed item had been received (duplicate)");
}
void vm_final(void) {}
