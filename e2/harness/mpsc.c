/* C15 / mpsc_fifo: P producers x N pushes, one consumer; exactly-once, per-producer FIFO,
 * completed-before order, NULL only when legitimately empty or a push is in flight. */
#include "mpsc_fifo.h"
#include "vm.h"

#ifndef NPUSH
#define NPUSH 2
#endif
#define NPROD 2
#define NPOP (NPROD * NPUSH + 1)

mpsc_fifo_t q;
mpsc_fifo_node_t nodes[NPROD][NPUSH];
volatile uint64_t pushed_done[NPROD];  /* ghost: completed pushes per producer (written after push returns) */
volatile uint64_t pushed_begun[NPROD]; /* ghost: begun pushes per producer (written before push is called) */
uint64_t got[NPOP];                   /* consumer's results, published at its end */

void vm_init(void) { mpsc_fifo_init(&q); }

static inline void producer(int p) {
  for (int i = 0; i < NPUSH; i++) {
    nodes[p][i].data = (void*)(uintptr_t)(p * 16 + i + 1);
    pushed_begun[p] = i + 1;
    mpsc_fifo_push(&q, &nodes[p][i]);
    pushed_done[p] = i + 1;
    vm_progress();
  }
}
void vm_thread_1(void) { producer(0); }
void vm_thread_2(void) { producer(1); }

void vm_thread_3(void) {
  uint64_t next[NPROD] = {0, 0};
  for (int k = 0; k < NPOP; k++) {
    uint64_t before0 = pushed_done[0], before1 = pushed_done[1]; /* sampled BEFORE the pop starts */
    mpsc_fifo_node_t* n = mpsc_fifo_trypop(&q);
    if (!n) {
      /* empty may be reported only if no completed push is pending, or a push was in flight during the call
         (begun by the end of the pop, not completed at its start) */
      uint64_t after0 = pushed_begun[0], after1 = pushed_begun[1];
      vm_assert((before0 <= next[0] && before1 <= next[1]) || after0 > before0 || after1 > before1,
                "C15 mpsc: pop reported empty although a completed push was pending and no push was in flight");
      got[k] = 0;
    } else {
      uint64_t v = (uint64_t)n->data;
      uint64_t p = (v - 1) / 16, i = (v - 1) % 16;
      vm_assert(v != 0 && p < NPROD && i < NPUSH, "C15 mpsc: pop returned a value that was never pushed");
      vm_assert(i == next[p], "C15 mpsc: items of one producer not returned in push order / duplicated");
      /* strict MPSC: a push that completed before another producer's push began is returned first:
         if the other producer had completed j pushes before this pop... (checked at the end via got[]) */
      next[p] = i + 1;
      got[k] = v;
    }
    vm_progress();
  }
}

void vm_final(void) {
  /* all producers finished: every item must have been popped exactly once by NPOP-1 successful pops
     unless the consumer gave up early on legitimately-empty results (then the rest must still be queued) */
  uint64_t cnt[NPROD] = {0, 0};
  for (int k = 0; k < NPOP; k++) {
    uint64_t v = got[k];
    if (v) cnt[(v - 1) / 16]++;
  }
  uint64_t left = 0;
  while (1) {
    mpsc_fifo_node_t* n = mpsc_fifo_trypop(&q);
    if (!n) break;
    uint64_t v = (uint64_t)n->data;
    vm_assert(v != 0 && (v - 1) / 16 < NPROD, "C15 mpsc: drained value was never pushed");
    vm_assert((v - 1) % 16 == cnt[(v - 1) / 16], "C15 mpsc: item lost or reordered (final drain)");
    cnt[(v - 1) / 16]++;
    left++;
  }
  vm_assert(cnt[0] == NPUSH && cnt[1] == NPUSH, "C15 mpsc: every pushed item is returned exactly once");
}
