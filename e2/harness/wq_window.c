/* C17 work_queue, three threads, the "worker role released while the previous worker is still inside get_work" window:
 *   T1: push A (must be told START_WORKING), get_work -> A, get_work -> EMPTY         (fixed call sequence, no outer loop)
 *   T2: push B; if told START_WORKING it becomes the second worker: up to three get_work calls until EMPTY
 *   T3: push C; executions in which T3 is told START_WORKING are the mirror image and are cut
 *  - every item handed out at most once, only pushed items
 *  - at quiescence every item whose push returned QUEUED (or that belongs to a worker) has been handed out:
 *    EMPTY is never reported with an item stranded */
#include "work_queue.h"
#include "vm.h"
work_queue_t wq;
work_queue_item_t items[3];
uint64_t handed_mask;
volatile uint64_t t2_started;
void vm_init(void) { work_queue_init(&wq); }
static inline int take(void) {
  work_queue_item_t* out = 0;
  if (work_queue_get_work(&wq, &out) != WORK_QUEUE_MORE_WORK) return 0;
  uint64_t v = (uint64_t)out->data;
  vm_assert(v >= 1 && v <= 3, "C17 work queue: handed out an item that was never pushed");
  uint64_t old = __atomic_fetch_or(&handed_mask, 1ul << v, __ATOMIC_SEQ_CST);
  vm_assert(!(old & (1ul << v)), "C17 work queue: an item was handed out twice");
  return 1;
}
void vm_thread_1(void) {
  items[0].data = (void*)1;
  int r = work_queue_push(&wq, &items[0]);
  vm_assume(r == WORK_QUEUE_START_WORKING);
  if (take()) { if (take()) { if (take()) { vm_assume(!take()); } } }
}
void vm_thread_2(void) {
  items[1].data = (void*)2;
  int r = work_queue_push(&wq, &items[1]);
  if (r == WORK_QUEUE_START_WORKING) {
    t2_started = 1;
    if (take()) { if (take()) { vm_assume(!take()); } }
  }
}
void vm_thread_3(void) {
  items[2].data = (void*)3;
  int r = work_queue_push(&wq, &items[2]);
  vm_assume(r == WORK_QUEUE_QUEUED);
}
void vm_final(void) {
  vm_assert(handed_mask == 0xe, "C17 work queue: an item was left queued with no active worker (stranded) or lost");
  vm_assert(wq.in_count == 0, "C17 work queue: in_count not back to zero after everything was handed out");
}
