/* C11 (e): fiber_multi_channel (mutex-protected bounded channel with a waiter list) over the contract kernel, with the
 * mutex replaced by its C03 contract (abstract mutex).  NSEND senders x NMSG messages, NRECV receivers; capacity 2^POW.
 *  - every message received exactly once, per-sender order preserved per receiver, never more than capacity buffered
 *  - no stranded sender / receiver: everybody finishes (a fiber parked in internal_wait at quiescence is reported) */
#include "fiber_manager.c"
#ifndef NSEND
#define NSEND 1
#endif
#ifndef NRECV
#define NRECV 1
#endif
#define NF (NSEND + NRECV)
#include "kernel_contract.h"
#include "fiber_multi_channel.h"
#ifndef NMSG
#define NMSG 3
#endif
#ifndef POW
#define POW 1
#endif
fiber_multi_channel_t* ch;
uint64_t got_mask;
void vm_init(void) { k_init(); ch = fiber_multi_channel_create(POW); }
static inline void sender(int s) {
  for (int i = 0; i < NMSG; i++) {
    fiber_multi_channel_send(ch, (void*)(uintptr_t)(s * 8 + i + 1));
    vm_assert(ch->high - ch->low <= ch->size, "C11 multi channel: more messages buffered than the capacity");
    vm_progress();
  }
}
static inline void receiver(int n) {
  uint64_t last0 = 0, last1 = 0;
  for (int k = 0; k < n; k++) {
    uint64_t v = (uint64_t)fiber_multi_channel_receive(ch);
    uint64_t s = (v - 1) / 8, i = (v - 1) % 8 + 1;
    vm_assert(v != 0 && s < NSEND && i <= NMSG, "C11 multi channel: received a message that was never sent");
    uint64_t old = __atomic_fetch_or(&got_mask, 1ul << v, __ATOMIC_SEQ_CST);
    vm_assert(!(old & (1ul << v)), "C11 multi channel: a message was received twice");
    if (s == 0) { vm_assert(i > last0, "C11 multi channel: messages of one sender not received in the order sent"); last0 = i; }
    else { vm_assert(i > last1, "C11 multi channel: messages of one sender not received in the order sent"); last1 = i; }
    vm_progress();
  }
}
void vm_thread_1(void) { sender(0); }
#if NSEND > 1
void vm_thread_2(void) { sender(1); }
void vm_thread_3(void) { receiver(NSEND * NMSG / NRECV); }
#if NRECV > 1
void vm_thread_4(void) { receiver(NSEND * NMSG / NRECV); }
#endif
#else
void vm_thread_2(void) { receiver(NSEND * NMSG / NRECV); }
#if NRECV > 1
void vm_thread_3(void) { receiver(NSEND * NMSG / NRECV); }
#endif
#endif
void vm_final(void) {
  uint64_t blocked = k_blocked_forever();
  vm_assert(blocked == 0, "C11 multi channel: a sender or receiver stays blocked although its peer made progress (stranded peer)");
  uint64_t want = 0;
  for (int s = 0; s < NSEND; s++) for (int i = 0; i < NMSG; i++) want |= 1ul << (s * 8 + i + 1);
  vm_assert(got_mask == want, "C11 multi channel: a message was lost");
}
