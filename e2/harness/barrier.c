/* C12: fiber_barrier over the contract kernel.  COUNT fibers, ROUNDS consecutive rounds on the same barrier.
 *  - nobody returns from its k-th wait before COUNT fibers entered their k-th wait (ghost arrival counters)
 *  - exactly one SERIAL fiber per round
 *  - everybody returns: at quiescence no fiber is parked */
#include "fiber_manager.c"
#ifndef NF
#define NF 2
#endif
#include "kernel_contract.h"
#include "fiber_barrier.h"
#ifndef ROUNDS
#define ROUNDS 2
#endif
fiber_barrier_t bar;
uint64_t arrived[ROUNDS];   /* ghost: fibers that have entered their k-th wait */
uint64_t serials[ROUNDS];   /* ghost: fibers told SERIAL in round k */

#ifdef PHANTOM
/* count 3 with two scenario fibers: the third participant B is a fiber on another kernel thread that HAS arrived at round 0
   (its increment of the arrival counter is done) but is stalled before it enqueues itself - for the whole scenario.  This is the
   window the property names: "a fiber re-entering round k+1 while a round-k participant has arrived but not yet enqueued".
   Fiber 1 re-enters the barrier at once (2 waits), fiber 2 waits once. */
#define BCOUNT 3
void vm_init(void) { k_init(); fiber_barrier_init(&bar, BCOUNT); bar.counter = 1; arrived[0] = 1; }
#else
#define BCOUNT NF
void vm_init(void) { k_init(); fiber_barrier_init(&bar, NF); }
#endif
#ifdef COUNTER_START
/* the barrier has been in use for a long time: the arrival counter starts at a symbolic round boundary around 2^32 */
void vm_setup(void) {
  uint64_t k = vm_nondet();
  vm_assume(k >= (0xfffffff0UL / NF) && k <= (0x10000000fUL / NF));
  bar.counter = k * NF;
}
#endif

static inline void body_n(int rounds) {
  for (int k = 0; k < rounds; k++) {
    __atomic_fetch_add(&arrived[k], 1, __ATOMIC_SEQ_CST);
    int r = fiber_barrier_wait(&bar);
    vm_assert(arrived[k] == BCOUNT, "C12 barrier: a fiber passed round k before all fibers had arrived at round k");
    if (r == FIBER_BARRIER_SERIAL_FIBER) __atomic_fetch_add(&serials[k], 1, __ATOMIC_SEQ_CST);
    else vm_assert(r == 0, "C12 barrier: wait returns 0 or SERIAL");
    vm_progress();
  }
}
#ifdef PHANTOM
void vm_thread_1(void) { body_n(2); }
void vm_thread_2(void) { body_n(1); }
#elif defined(ASYM)
/* count 3: fibers 1 and 3 take part in round 0 only, fiber 2 re-enters the barrier immediately (round 1) where it must block:
   the cheapest program in which "a fiber re-entering round k+1 while a round-k participant has arrived but not yet enqueued" exists */
void vm_thread_1(void) { body_n(1); }
void vm_thread_2(void) { body_n(2); }
void vm_thread_3(void) { body_n(1); }
#else
void vm_thread_1(void) { body_n(ROUNDS); }
#if NF > 1
void vm_thread_2(void) { body_n(ROUNDS); }
#endif
#if NF > 2
void vm_thread_3(void) { body_n(ROUNDS); }
#endif
#endif
void vm_final(void) {
  uint64_t blocked = k_blocked_forever();
#ifdef PHANTOM
  (void)blocked;   /* B never enqueues within the scenario: fibers may legitimately still be blocked; the round-order assertion in body_n decides */
  vm_assert(serials[0] <= 1 && serials[1] <= 1, "C12 barrier: more than one serial fiber in a round");
#elif defined(ASYM)
  vm_assert(blocked == 1 && vm_is_parked(2), "C12 barrier: in the asymmetric program exactly fiber 2 stays blocked in round 1 (everybody returns from round 0)");
  vm_assert(serials[0] == 1 && serials[1] == 0, "C12 barrier: not exactly one serial fiber in round 0");
#else
  vm_assert(blocked == 0, "C12 barrier: a fiber never returns from fiber_barrier_wait although all fibers arrived");
  for (int k = 0; k < ROUNDS; k++) vm_assert(serials[k] == 1, "C12 barrier: not exactly one serial fiber in a round");
#endif
}
