/* C12: fiber_barrier over the contract kernel.  COUNT fibers, ROUNDS consecutive rounds on the same barrier.
 *  - nobody returns from its k-th wait before COUNT fibers entered their k-th wait (ghost arrival counters)
 *  - exactly one SERIAL fiber per round
 *  - everybody returns: at quiescence no fiber is parked */
#include "fiber_manager.c"
#ifndef NF
#define NF 2
#endif
#include "kernel_contract.h"
#include "fiber_barrier.h"
#ifndef ROUNDS
#define ROUNDS 2
#endif
fiber_barrier_t bar;
uint64_t arrived[ROUNDS];   /* ghost: fibers that have entered their k-th wait */
uint64_t serials[ROUNDS];   /* ghost: fibers told SERIAL in round k */

void vm_init(void) { k_init(); fiber_barrier_init(&bar, NF); }

static inline void body(void) {
  for (int k = 0; k < ROUNDS; k++) {
    __atomic_fetch_add(&arrived[k], 1, __ATOMIC_SEQ_CST);
    int r = fiber_barrier_wait(&bar);
    vm_assert(arrived[k] == NF, "C12 barrier: a fiber passed round k before all fibers had arrived at round k");
    if (r == FIBER_BARRIER_SERIAL_FIBER) __atomic_fetch_add(&serials[k], 1, __ATOMIC_SEQ_CST);
    else vm_assert(r == 0, "C12 barrier: wait returns 0 or SERIAL");
    vm_progress();
  }
}
void vm_thread_1(void) { body(); }
#if NF > 1
void vm_thread_2(void) { body(); }
#endif
#if NF > 2
void vm_thread_3(void) { body(); }
#endif
void vm_final(void) {
  uint64_t blocked = k_blocked_forever();
  vm_assert(blocked == 0, "C12 barrier: a fiber never returns from fiber_barrier_wait although all fibers arrived");
  for (int k = 0; k < ROUNDS; k++) vm_assert(serials[k] == 1, "C12 barrier: not exactly one serial fiber in a round");
}
