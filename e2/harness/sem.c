/* C06: fiber_semaphore over the contract kernel (waiters queue = real mpmc_fifo + hazard pointers + node pool).
 * Initial value V0 (symbolic in {0,1}); NWAIT waiters (the last one may use trywait), NPOST posters.
 *  - no over-admission: at every successful wait/trywait:  succeeded <= V0 + posts begun
 *  - trywait never blocks and never succeeds without a unit
 *  - no lost post: at quiescence no fiber is parked in wait while units are available; value == V0 + posts - successful waits */
#ifdef ABSTRACT_QUEUE
#include "mpmc_fifo.h"
#include "abstract_mpmc.h"
#endif
#include "fiber_manager.c"
#ifndef NWAIT
#define NWAIT 1
#endif
#ifndef NPOST
#define NPOST 1
#endif
#define NF (NWAIT + NPOST)
#include "kernel_contract.h"
#include "fiber_semaphore.h"
#include "qsort_model.h"
fiber_semaphore_t sem;
uint64_t v0;
uint64_t posts_begun, posts_done, succeeded;

void vm_init(void) {
  k_init();
  fiber_free_mpmc_nodes = lockfree_ring_buffer_create(1);      /* 2-slot node pool instead of the lazily created 1024-slot one */
  for (int t = 1; t <= NF; t++) fiber_manager_get_hazard_record(k_mgr[t]);
  fiber_semaphore_init(&sem, 0);
}
void vm_setup(void) {
  uint64_t v = vm_nondet();
  vm_assume(v <= V0MAX);
  v0 = v;
  sem.counter = (int)v;
}
static inline void waiter(int use_try) {
  if (use_try) {
    int r = fiber_semaphore_trywait(&sem);
    if (r == FIBER_SUCCESS) {
      uint64_t s = __atomic_fetch_add(&succeeded, 1, __ATOMIC_SEQ_CST) + 1;
      vm_assert(s <= v0 + posts_begun, "C06 semaphore: trywait succeeded without a unit (over-admission)");
    }
  } else {
    fiber_semaphore_wait(&sem);
    uint64_t s = __atomic_fetch_add(&succeeded, 1, __ATOMIC_SEQ_CST) + 1;
    vm_assert(s <= v0 + posts_begun, "C06 semaphore: more waits succeeded than initial value + posts begun (over-admission)");
  }
  vm_progress();
}
static inline void poster(void) {
  __atomic_fetch_add(&posts_begun, 1, __ATOMIC_SEQ_CST);
  fiber_semaphore_post(&sem);
  __atomic_fetch_add(&posts_done, 1, __ATOMIC_SEQ_CST);
  vm_progress();
}
void vm_thread_1(void) { poster(); }
#if NPOST > 1
void vm_thread_2(void) { poster(); }
#define W1 3
#else
#define W1 2
#endif
#if W1 == 2
void vm_thread_2(void) { waiter(0); }
#if NWAIT > 1
void vm_thread_3(void) { waiter(TRYLAST); }
#endif
#else
void vm_thread_3(void) { waiter(0); }
#if NWAIT > 1
void vm_thread_4(void) { waiter(TRYLAST); }
#endif
#endif
void vm_final(void) {
  uint64_t blocked = k_blocked_forever();
  int64_t value = fiber_semaphore_getvalue(&sem);
  /* value counts blocked waiters as negative */
  vm_assert(value == (int64_t)(v0 + posts_done) - (int64_t)succeeded - (int64_t)blocked, "C06 semaphore: value != initial + posts - successful waits at quiescence");
  vm_assert(blocked == 0 || value < 0, "C06 semaphore: a fiber stays blocked in wait although units are available (lost post)");
  vm_assert(blocked == 0 || (int64_t)(v0 + posts_done) - (int64_t)succeeded <= 0, "C06 semaphore: a fiber stays blocked in wait although a unit is available (lost post)");
}
