/* C11 (a): fiber_signal over the contract kernel.  One waiter doing NWAITS waits, NRAISE raiser fibers one raise each.
 *  - a wait returns only after a raise that was not consumed by an earlier wait (raises may coalesce)
 *  - a raise that finds a registered waiter schedules it exactly once (contract assertion) and only after the waiter
 *    published READY_TO_WAKE (otherwise the fiber would be resumed before it was suspended: contract assertion)
 *  - never lost: if a raise begins after the last wait began, that wait returns (nobody stranded) */
#include "fiber_manager.c"
#ifndef NRAISE
#define NRAISE 1
#endif
#define NF (NRAISE + 1)
#define K_CHECK_EARLY_WAKE
#include "kernel_contract.h"
#include "fiber_signal.h"
#ifndef NWAITS
#define NWAITS 1
#endif
fiber_signal_t sig;
volatile uint64_t raises_begun, raises_done, waits_begun, waits_done;
volatile uint64_t last_wait_begun_raises;   /* raises begun when the last wait began */

void vm_init(void) { k_init(); fiber_signal_init(&sig); }
/* fiber->scratch is shared with other subsystems (the event engine resumes a poller with scratch = (void*)-1, the multi
   channel keeps list links there): the waiter starts with an arbitrary left-over value, in particular the READY_TO_WAKE marker */
void vm_setup(void) {
  uint64_t v = vm_nondet();
  if (v == 0 || v == (uint64_t)-1 || v == 0x10) k_fiber[1]->scratch = (void*)v; else k_fiber[1]->scratch = 0;
}

void vm_thread_1(void) {
  for (int i = 0; i < NWAITS; i++) {
    last_wait_begun_raises = raises_begun;
    waits_begun = i + 1;
    fiber_signal_wait(&sig);
    /* every completed wait needs its own raise (begun before the wait returned), except that several raises may
       coalesce into one: waits_done <= raises_begun */
    uint64_t rb = raises_begun;
    waits_done = i + 1;
    vm_assert(i + 1 <= rb, "C11 signal: a wait returned without a raise");
    vm_progress();
  }
}
static inline void raiser(void) {
  __atomic_fetch_add(&raises_begun, 1, __ATOMIC_SEQ_CST);
  fiber_signal_raise(&sig);
  __atomic_fetch_add(&raises_done, 1, __ATOMIC_SEQ_CST);
  vm_progress();
}
void vm_thread_2(void) { raiser(); }
#if NRAISE > 1
void vm_thread_3(void) { raiser(); }
#endif
void vm_final(void) {
  uint64_t blocked = k_blocked_forever();
  /* the waiter may legitimately remain blocked only if every raise was consumed by (or coalesced before) an earlier wait:
     with NWAITS waits and NRAISE raises: blocked in wait #k (k = waits_done + 1) is legal only if all raises completed
     before wait #k began were already used up; sound check: if a raise BEGAN after the last wait began, that wait must have
     returned.  (The first version compared with the raises COMPLETED, which is too strict: the exchange of a raise - its
     effect - can precede its completion arbitrarily, e.g. land while the previous wait is still resetting the signal and be
     coalesced into that wait, and only its ghost 'done' increment falls after the next wait began.) */
  if (blocked) {
    vm_assert(vm_is_parked(1), "C11 signal: a raiser is blocked");
    vm_assert(raises_begun == last_wait_begun_raises, "C11 signal: a raise issued after the waiter began waiting was lost (waiter stranded)");
  }
}
