/* C12, inductive step: ONE fiber_barrier_wait call (count 3) from an ARBITRARY arrival count c (any round, incl. values around
 * 2^32), with the two other participants of the round either already waiting in the queue (c = 3k+2: the caller is
 * the last arriver) or not (c = 3k, 3k+1: the caller must wait).  Real fiber_barrier.c + real mpsc wait/wake over the
 * contract kernel; fibers 2 and 3 are pre-queued waiters and do not run.
 *  - the arrival counter is incremented by exactly one and nothing else ever changes it (monotone round arithmetic)
 *  - the caller is told SERIAL iff it is the count-th arrival of its round, and then releases exactly the count-1 waiters
 *  - otherwise it is queued exactly once and blocks */
#include "fiber_manager.c"
#define NF 3
#include "kernel_contract.h"
#include "fiber_barrier.h"
fiber_barrier_t bar;
/* the queue in which the arrivals of the round that contains arrival number c+1 wait: derived the way the library does it
   (one queue up to fix 619b508, two queues alternating by round after it) */
#define BAR_NQ (sizeof(bar.waiters) / sizeof(mpsc_fifo_t))
static inline mpsc_fifo_t* bar_q(uint64_t c) {
  mpsc_fifo_t* const q0 = (mpsc_fifo_t*)&bar.waiters;
  if (BAR_NQ > 1 && ((c / 3) & 1)) return q0 + 1;
  return q0;
}
#define BAR_Q(c) bar_q(c)
/* the pushes of vm_setup go through two distinct non-inlined functions with a constant queue address each (an atomic exchange on a
   computed address inside the single-threaded set-up phase trips a CBMC restriction on atomic sections) */
__attribute__((noinline)) static void push_q0(mpsc_fifo_node_t* n) { mpsc_fifo_push((mpsc_fifo_t*)&bar.waiters, n); }
__attribute__((noinline)) static void push_q1(mpsc_fifo_node_t* n) { mpsc_fifo_push((mpsc_fifo_t*)&bar.waiters + (BAR_NQ > 1 ? 1 : 0), n); }
uint64_t c0;
uint64_t ret1 = 99;
void vm_init(void) {
  k_init();
  fiber_barrier_init(&bar, 3);
}
void vm_setup(void) {
  uint64_t c = vm_nondet();
  /* an arbitrary point in the barrier's life: small, around 2^32, around 2^64 */
  vm_assume(c < 9 || (c >= 0xfffffff8UL && c <= 0x100000008UL));   /* 2^64 arrivals are outside the claim (the 64-bit counter itself wraps there) */
  c0 = c;
  bar.counter = c;
  uint64_t arrived_in_round = c % 3;
  /* the fibers that arrived earlier in this round are waiting in the queue, exactly as fiber_manager_wait_in_mpsc_queue leaves them */
  for (uint64_t t = 2; t < 2 + arrived_in_round; t++) {
    fiber_t* f = k_fiber[t];
    mpsc_fifo_node_t* node = f->mpsc_fifo_node;
    node->data = f; f->mpsc_fifo_node = 0;
    if (BAR_NQ > 1 && ((c / 3) & 1)) push_q1(node); else push_q0(node);
    f->state = FIBER_STATE_WAITING;
    k_suspended[t] = 1;
  }
}
void vm_thread_1(void) { ret1 = fiber_barrier_wait(&bar); vm_progress(); }
void vm_thread_2(void) { vm_park(); }   /* pre-queued waiters: suspended for the whole step */
void vm_thread_3(void) { vm_park(); }
void vm_final(void) {
  uint64_t ar = c0 % 3;
  vm_assert(bar.counter == c0 + 1, "C12 barrier: one wait call changes the arrival counter by exactly one (no reset, no truncation): round arithmetic stays consistent for every later round");
  if (ar == 2) {
    vm_assert(!vm_is_parked(1) && ret1 == FIBER_BARRIER_SERIAL_FIBER, "C12 barrier: the count-th arrival of a round returns and is told it is the serial fiber");
    vm_assert(k_runnable[2] == 1 && k_runnable[3] == 1, "C12 barrier: the last arriver releases every waiter of its round exactly once");
    vm_assert(BAR_Q(c0)->head->next == 0, "C12 barrier: waiter queue empty after the round was released");
  } else {
    vm_assert(vm_is_parked(1) && ret1 == 99, "C12 barrier: a fiber passed the barrier before count fibers had arrived at its round");
    vm_assert(k_runnable[2] == 0 && k_runnable[3] == 0 && k_runnable[1] == 0, "C12 barrier: a waiter was released although the round is not complete");
    uint64_t n = 0; mpsc_fifo_node_t* p = BAR_Q(c0)->head->next;
    for (int k = 0; k < 4 && p; k++) { n++; p = p->next; }
    vm_assert(n == ar + 1, "C12 barrier: an early arriver is queued exactly once");
  }
}
