/* C11 (b,c,d): fiber channels over the contract kernel.
 *   KIND 1: fiber_bounded_channel (capacity 2^POW), NSEND senders x NMSG, one receiver, with ready signal
 *   KIND 2: fiber_unbounded_channel (mpsc + signal)
 *   KIND 3: fiber_unbounded_sp_channel (spsc + signal), one sender
 *  - every message received exactly once, per-sender order, never a message that was not sent
 *  - bounded: never more than capacity messages in the buffer (ghost sent - received), no slot overwritten
 *  - the receiver is never stranded: it receives all NSEND*NMSG messages (else it stays parked -> reported) */
#include "fiber_manager.c"
#ifndef NSEND
#define NSEND 1
#endif
#define NF (NSEND + 1)
#include "kernel_contract.h"
#include "fiber_channel.h"
#ifndef NMSG
#define NMSG 2
#endif
#ifndef POW
#define POW 1
#endif
fiber_signal_t sig;
#if KIND == 1
fiber_bounded_channel_t* ch;
#elif KIND == 2
fiber_unbounded_channel_t ch;
fiber_unbounded_channel_message_t msgs[2][NMSG];
#else
fiber_unbounded_sp_channel_t ch;
fiber_unbounded_sp_channel_message_t msgs[2][NMSG];
#endif
volatile uint64_t sent_begun, received;
uint64_t got;

void vm_init(void) {
  k_init();
  fiber_signal_init(&sig);
#if KIND == 1
  ch = fiber_bounded_channel_create(POW, &sig);
#elif KIND == 2
  fiber_unbounded_channel_init(&ch, &sig);
#else
  fiber_unbounded_sp_channel_init(&ch, &sig);
#endif
}
static inline void sender(int s) {
  for (int i = 0; i < NMSG; i++) {
    uint64_t v = s * 8 + i + 1;
#if KIND == 1
    __atomic_fetch_add(&sent_begun, 1, __ATOMIC_SEQ_CST);
    fiber_bounded_channel_send(ch, (void*)v);
#elif KIND == 2
    msgs[s][i].data = (void*)v;
    fiber_unbounded_channel_send(&ch, &msgs[s][i]);
#else
    msgs[s][i].data = (void*)v;
    fiber_unbounded_sp_channel_send(&ch, &msgs[s][i]);
#endif
    vm_progress();
  }
}
void vm_thread_1(void) {
  uint64_t last0 = 0, last1 = 0, mask = 0;
  for (int k = 0; k < NSEND * NMSG; k++) {
#if KIND == 1
    uint64_t v = (uint64_t)fiber_bounded_channel_receive(ch);
    uint64_t r = received + 1; received = r;
#elif KIND == 2
    fiber_unbounded_channel_message_t* m = fiber_unbounded_channel_receive(&ch);
    uint64_t v = (uint64_t)m->data;
#else
    fiber_unbounded_sp_channel_message_t* m = fiber_unbounded_sp_channel_receive(&ch);
    uint64_t v = (uint64_t)m->data;
#endif
    uint64_t s = (v - 1) / 8, i = (v - 1) % 8 + 1;
    vm_assert(v != 0 && s < NSEND && i <= NMSG, "C11 channel: received a message that was never sent");
    vm_assert(!(mask & (1ul << v)), "C11 channel: a message was received twice");
    mask |= 1ul << v;
    if (s == 0) { vm_assert(i == last0 + 1, "C11 channel: messages of one sender not received in the order sent"); last0 = i; }
    else { vm_assert(i == last1 + 1, "C11 channel: messages of one sender not received in the order sent"); last1 = i; }
    vm_progress();
  }
  got = mask;
}
void vm_thread_2(void) { sender(0); }
#if NSEND > 1
void vm_thread_3(void) { sender(1); }
#endif
void vm_final(void) {
  uint64_t blocked = k_blocked_forever();
  vm_assert(blocked == 0, "C11 channel: a receiver (or sender) stays blocked although messages were sent (stranded peer / lost raise)");
#if KIND == 1
  vm_assert(ch->high - ch->low == 0, "C11 channel: bounded channel not empty after everything was received");
#endif
}
