/* C15 / mpsc_relaxed_fifo: 2 producers (own sub-queues) x NPUSH pushes, one consumer popping until everything
 * is received; exactly-once, per-producer FIFO, NULL only when nothing completed is pending, nothing lost. */
#include "mpsc_relaxed_fifo.h"
#include "vm.h"
#ifndef NPUSH
#define NPUSH 1
#endif
#ifndef NPROD
#define NPROD 2
#endif
mpscr_fifo_t* q;
spsc_node_t nodes[3][NPUSH];
volatile uint64_t pushed_done[3];
volatile uint64_t pushed_begun[3];

void vm_init(void) { q = mpscr_fifo_create(NPROD); }
void vm_setup(void) {
  for (int p = 0; p < NPROD; p++) for (int i = 0; i < NPUSH; i++) nodes[p][i].next = (spsc_node_t*)vm_nondet();
#ifdef COUNTER_NEAR_2_32
  uint64_t c = vm_nondet();       /* the round-robin read counter has been running for a long time */
  vm_assume(c >= 0xfffffffcUL && c <= 0x100000002UL);
  q->counter = c;
#endif
}

static inline void producer(int p) {
  for (int i = 0; i < NPUSH; i++) {
    nodes[p][i].data = (void*)(uintptr_t)(p * 16 + i + 1);
    pushed_begun[p] = i + 1;
    mpscr_fifo_push(q, p, &nodes[p][i]);
    pushed_done[p] = i + 1;
    vm_progress();
  }
}
void vm_thread_1(void) { producer(0); }
void vm_thread_2(void) { producer(1); }
#if NPROD > 2
void vm_thread_4(void) { producer(2); }
#endif

void vm_thread_3(void) {
  uint64_t n0 = 0, n1 = 0, n2 = 0;
  while (n0 + n1 + n2 < NPROD * NPUSH) {
    uint64_t b0 = pushed_done[0], b1 = pushed_done[1], b2 = pushed_done[2];
    spsc_node_t* n = mpscr_fifo_trypop(q);
    if (!n) {
      uint64_t a0 = pushed_begun[0], a1 = pushed_begun[1], a2 = pushed_begun[2];
      vm_assert((b0 <= n0 && b1 <= n1 && b2 <= n2) || a0 > b0 || a1 > b1 || a2 > b2, "C15 mpscr: pop reported empty although a completed push was pending and no push was in flight");
      vm_spin();
    } else {
      uint64_t v = (uint64_t)n->data;
      uint64_t p = (v - 1) / 16, i = (v - 1) % 16;
      vm_assert(v != 0 && p < NPROD && i < NPUSH, "C15 mpscr: pop returned a value that was never pushed");
      vm_assert(i == (p == 0 ? n0 : p == 1 ? n1 : n2), "C15 mpscr: items of one producer not returned in push order / duplicated");
      if (p == 0) n0 = i + 1; else if (p == 1) n1 = i + 1; else n2 = i + 1;
      vm_progress();
    }
  }
  vm_assert(mpscr_fifo_trypop(q) == 0, "C15 mpscr: pop returned an item after every pushed item had been received (duplicate)");
}
void vm_final(void) {}
