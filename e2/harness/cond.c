/* C05: fiber_cond over the contract kernel.  NW waiters, one signaller issuing NSIG signals (or one broadcast).
 * All ghost bookkeeping is done under the user mutex, so it is exact:
 *   waiting   = waiters that have begun waiting (cond_wait entered) and have not been selected by a signal yet
 *   expected  = number of waiters that signals/broadcasts issued so far must release
 *  - no lost signal / broadcast wakes all: at quiescence the number of released waiters equals `expected`
 *    (a waiter selected by a signal is not left blocked)
 *  - no spurious release: released <= expected at every return from cond_wait
 *  - cond_wait returns with the mutex held (occupancy ghost)
 * PREDICATE mode: waiters loop on a flag set by the signaller (classic usage): nobody may remain blocked. */
#include "fiber_manager.c"
#ifndef NW
#define NW 1
#endif
#define NF (NW + 1)
#include "kernel_contract.h"
#include "fiber_cond.h"
#ifndef NSIG
#define NSIG 1
#endif
fiber_mutex_t mtx;
fiber_cond_t cnd;
uint64_t in_cs, waiting, expected, released, flag;

void vm_init(void) { k_init(); fiber_mutex_init(&mtx); fiber_cond_init(&cnd); }

static inline void enter(void) { uint64_t o = __atomic_fetch_add(&in_cs, 1, __ATOMIC_SEQ_CST); vm_assert(o == 0, "C05 cond: mutex not held exclusively (cond_wait returned without the mutex, or two owners)"); }
static inline void leave(void) { __atomic_fetch_sub(&in_cs, 1, __ATOMIC_SEQ_CST); }

static inline void waiter(void) {
  fiber_mutex_lock(&mtx);
  enter();
#ifdef PREDICATE
  while (!flag) {
    leave();
    fiber_cond_wait(&cnd, &mtx);
    enter();
  }
#else
  waiting = waiting + 1;
  leave();
  fiber_cond_wait(&cnd, &mtx);
  enter();
  released = released + 1;
  vm_assert(released <= expected, "C05 cond: a waiter was released without a signal or broadcast");
#endif
  leave();
  fiber_mutex_unlock(&mtx);
  vm_progress();
}
static inline void signaller(void) {
#ifdef SIGNAL_OUTSIDE
  /* POSIX allows signalling without holding the mutex: the predicate is changed under the mutex, the signal is sent after
     unlocking; earlier "blind" signals (no predicate change) must not disturb the registration of a waiter */
  for (int i = 0; i < NSIG; i++) {
    if (i == NSIG - 1) { fiber_mutex_lock(&mtx); enter(); flag = 1; leave(); fiber_mutex_unlock(&mtx); }
#ifdef BROADCAST
    fiber_cond_broadcast(&cnd);
#else
    fiber_cond_signal(&cnd);
#endif
    vm_progress();
  }
  return;
#endif
  for (int i = 0; i < NSIG; i++) {
    fiber_mutex_lock(&mtx);
    enter();
#ifdef PREDICATE
    flag = 1;
#endif
#ifdef BROADCAST
    expected = expected + waiting; waiting = 0;
    leave();
    fiber_cond_broadcast(&cnd);
#else
    if (waiting > 0) { waiting = waiting - 1; expected = expected + 1; }
    leave();
    fiber_cond_signal(&cnd);
#endif
    fiber_mutex_unlock(&mtx);
    vm_progress();
  }
}
void vm_thread_1(void) { signaller(); }
void vm_thread_2(void) { waiter(); }
#if NW > 1
void vm_thread_3(void) { waiter(); }
#endif

void vm_final(void) {
  uint64_t blocked = k_blocked_forever();
#ifdef PREDICATE
  vm_assert(blocked == 0, "C05 cond: a waiter whose predicate was made true and signalled stays blocked (lost signal)");
#else
  vm_assert(released == expected, "C05 cond: a waiter selected by a signal/broadcast was not released (lost signal)");
  vm_assert(blocked == NW - expected, "C05 cond: number of blocked waiters does not match the signals issued");
#endif
  vm_assert(mtx.counter == 1 && cnd.internal_mutex.counter == 1, "C05 cond: a mutex is still held at quiescence");
}
