/* C17 work_queue, general program: NT threads each push one item; whoever is told START_WORKING drains with get_work until
 * EMPTY.  No symmetry cut: several threads may become the worker one after the other, including a second worker that
 * starts while the first one is still inside the get_work call that told it EMPTY.
 *  - every item is handed out exactly once and only pushed items are handed out
 *  - at quiescence nothing is stranded: every item whose push completed has been handed to some worker */
#include "work_queue.h"
#include "vm.h"
#ifndef NT
#define NT 3
#endif
work_queue_t wq;
work_queue_item_t items[NT];
uint64_t handed_mask;

void vm_init(void) { work_queue_init(&wq); }
static inline void worker(int t) {
  items[t].data = (void*)(uintptr_t)(t + 1);
  int r = work_queue_push(&wq, &items[t]);
  if (r == WORK_QUEUE_START_WORKING) {
    work_queue_item_t* out = 0;
    while (work_queue_get_work(&wq, &out) == WORK_QUEUE_MORE_WORK) {
      uint64_t v = (uint64_t)out->data;
      vm_assert(v >= 1 && v <= NT, "C17 work queue: handed out an item that was never pushed");
      uint64_t old = __atomic_fetch_or(&handed_mask, 1ul << v, __ATOMIC_SEQ_CST);
      vm_assert(!(old & (1ul << v)), "C17 work queue: an item was handed out twice");
    }
  } else {
    vm_assert(r == WORK_QUEUE_QUEUED, "C17 work queue: push returns START_WORKING or QUEUED");
  }
  vm_progress();
}
void vm_thread_1(void) { worker(0); }
void vm_thread_2(void) { worker(1); }
#if NT > 2
void vm_thread_3(void) { worker(2); }
#endif
void vm_final(void) {
  vm_assert(handed_mask == ((1ul << (NT + 1)) - 2), "C17 work queue: an item was left queued with no active worker (stranded) or lost");
  vm_assert(wq.in_count == 0, "C17 work queue: in_count not back to zero after everything was handed out");
}
