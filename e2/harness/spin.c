/* C18 (E2): 2-3 contenders on a fiber_spinlock, each lock|trylock ; critical section ; unlock.
 * Initial (ticket == users) symbolic incl. values next to 2^32 (wrap-around during the run).
 *  - occupancy <= 1 (ghost), writes of the previous owner visible to the next one (checked under TSO too)
 *  - contenders enter in the order in which they took their tickets
 *  - trylock never succeeds while the lock is held or others are queued, and never waits */
#include "fiber_spinlock.h"
#include "fiber_manager.h"
#include "vm.h"
fiber_spinlock_t lk;
fiber_manager_t mgr[4];
fiber_manager_t* fiber_manager_get(void) { return &mgr[vm_self()]; }
uint64_t in_cs;           /* ghost occupancy */
uint64_t data;            /* plain shared datum protected by the lock */
uint64_t entered;         /* ghost: number of critical sections entered so far */
uint32_t base;            /* initial ticket value */

void vm_init(void) { fiber_spinlock_init(&lk); }
void vm_setup(void) {
  uint64_t t = vm_nondet();
  vm_assume(t == 0 || t == 0xfffffffeu || t == 0xffffffffu);
  base = (uint32_t)t;
  lk.state.counters.ticket = (uint32_t)t;
  lk.state.counters.users = (uint32_t)t;
}
static inline void cs(uint32_t my_ticket, int have_ticket) {
  uint64_t o = __atomic_fetch_add(&in_cs, 1, __ATOMIC_SEQ_CST);
  vm_assert(o == 0, "C18 spinlock: two holders inside the critical section");
  uint64_t e = entered;
  if (have_ticket) vm_assert((uint32_t)(base + e) == my_ticket, "C18 spinlock: contenders did not acquire in ticket order");
  vm_assert(data == e, "C18 spinlock: write of the previous owner not visible to the next owner");
  data = e + 1;
  entered = e + 1;
  __atomic_fetch_sub(&in_cs, 1, __ATOMIC_SEQ_CST);
}
static inline void locker(void) {
  fiber_spinlock_lock(&lk);
  /* my ticket: users was incremented by me; holders are served in order, so ticket == my ticket now */
  uint32_t mine = lk.state.counters.ticket;
  cs(mine, 1);
  fiber_spinlock_unlock(&lk);
  vm_progress();
}
static inline void trylocker(void) {
  int r = fiber_spinlock_trylock(&lk);
  if (r == FIBER_SUCCESS) {
    /* success while the lock is held or others are queued would show up as a second holder / wrong ticket order in cs() */
    cs(lk.state.counters.ticket, 1);
    fiber_spinlock_unlock(&lk);
  }
  vm_progress();
}
void vm_thread_1(void) { locker(); }
void vm_thread_2(void) { locker(); }
#if defined(T3_TRY)
void vm_thread_3(void) { trylocker(); }
#elif defined(T3_LOCK)
void vm_thread_3(void) { locker(); }
#endif
void vm_final(void) {
  vm_assert(lk.state.counters.ticket == lk.state.counters.users, "C18 spinlock: lock not free after every holder released it");
  vm_assert(in_cs == 0, "C18 spinlock: occupancy ghost not zero at the end");
}
