/* C03: fiber_mutex over the contract kernel.  NF fibers, each: (lock | trylock) ; critical section ; unlock, ROUNDS times.
 *  - occupancy <= 1 (ghost), the next owner sees the previous owner's plain write (checked under TSO too)
 *  - one unlock releases at most one waiter (contract assertion in k_schedule: never scheduled twice)
 *  - nobody stays blocked on a mutex nobody holds: at quiescence no fiber is parked, counter == 1, waiter list empty */
#include "fiber_manager.c"
#ifndef NF
#define NF 2
#endif
#include "kernel_contract.h"
#ifndef ROUNDS
#define ROUNDS 1
#endif
fiber_mutex_t mtx;
uint64_t in_cs;
uint64_t data;
uint64_t acquisitions;

void vm_init(void) { k_init(); fiber_mutex_init(&mtx); }

static inline void critical(void) {
  uint64_t o = __atomic_fetch_add(&in_cs, 1, __ATOMIC_SEQ_CST);
  vm_assert(o == 0, "C03 mutex: two fibers inside the critical section");
  uint64_t a = acquisitions;
  vm_assert(data == a, "C03 mutex: write made in the previous critical section not seen by the next owner");
  data = a + 1;
  acquisitions = a + 1;
  __atomic_fetch_sub(&in_cs, 1, __ATOMIC_SEQ_CST);
}
static inline void body(int use_try) {
  for (int r = 0; r < ROUNDS; r++) {
    if (use_try) {
      if (fiber_mutex_trylock(&mtx) != FIBER_SUCCESS) { vm_progress(); continue; }
    } else {
      fiber_mutex_lock(&mtx);
    }
    critical();
    fiber_mutex_unlock(&mtx);
    vm_progress();
  }
}
void vm_thread_1(void) { body(0); }
#ifdef T2_TRY
void vm_thread_2(void) { body(1); }
#else
void vm_thread_2(void) { body(0); }
#endif
#if NF > 2
#ifdef T3_TRY
void vm_thread_3(void) { body(1); }
#else
void vm_thread_3(void) { body(0); }
#endif
#endif

void vm_final(void) {
  uint64_t blocked = k_blocked_forever();
  vm_assert(blocked == 0, "C03 mutex: a fiber stays blocked in fiber_mutex_lock although nobody holds the mutex (lost hand-off)");
  vm_assert(mtx.counter == 1, "C03 mutex: counter not back to 1 after every owner unlocked");
  vm_assert(mtx.waiters.head->next == 0, "C03 mutex: waiter list not empty at quiescence");
}
