/* C01, compositional part: the suspension protocol of the REAL runtime, checked step by step on one kernel thread with
 * the real fiber_manager_yield / switch_to / do_maintenance / scheduler / deque.  fiber_context_swap is replaced by
 * s_swap = "the context of `from` is now saved; execution continues as `to`" (exact on one kernel thread for the steps
 * driven here) which checks what must hold AT THE MOMENT OF THE SWITCH:
 *   - the target is a different, saved, live fiber
 *   - nothing that would let another kernel thread resume `from` has been published yet, unless `from` is in state
 *     SAVING_STATE_TO_WAIT (the only publication that precedes the switch, guarded by the scheduler's SAVING test):
 *     the deferred slot of the mechanism is still pending and its effect has not happened
 * and, after the successor ran the deferred actions (real fiber_manager_do_maintenance, part of switch_to), that the
 * effect HAS happened exactly once and the slot is empty.
 * MODE: 1 yield of a running fiber (to_schedule) 2 set_and_wait (join rendez-vous) 3 wait_in_mpsc_queue (mutex, barrier,
 * rwlock) 4 wait_in_mpsc_queue_and_unlock (cond) 5 wait_in_mpmc_queue (semaphore) 6 spinlock_to_unlock (fd wait / sleep)
 * 7 finished fiber (done_fiber destroyed by the successor, never by itself) 8 signal wait (scratch marker)
 * Cross-thread obligations that close the argument: MODE 11 scheduler_next never returns (and never drops) a fiber in
 * state SAVING for ANY mix of states in the run queue; MODE 12 a waker never turns SAVING into READY. */
#include "fiber_manager.c"
#include "fiber.c"
#include "fiber_scheduler_wsd.c"
#include "vm.h"
#include "fiber_signal.h"
#include "qsort_model.h"
#define NFIBS 3
fiber_t* fibs[NFIBS];          /* 0 = thread fiber A (running), 1,2 = created */
fiber_manager_t* mgr;
uint64_t saved[NFIBS], alive[NFIBS], swaps, sched_calls[NFIBS];
void* loc;                      /* set_and_wait location */
mpsc_fifo_t Q;
mpmc_fifo_t MQ;
fiber_mutex_t mtx;
fiber_spinlock_t slk;
fiber_signal_t sig;
uint64_t from_state_at_swap;

static void* body(void* p) { return p; }
static uint64_t idx_of(fiber_context_t* c) { for (uint64_t i = 0; i < NFIBS; i++) if (&fibs[i]->context == c) return i; return 99; }
static uint64_t queued_count(fiber_t* f) {   /* how many run-queue slots hold f (real deques, read directly) */
  uint64_t n = 0;
  for (int q = 0; q < 2; q++) {
    wsd_work_stealing_deque_t* d = fiber_scheduler_thread_queues[q];
    for (int64_t i = d->top; i < d->bottom; i++) if (wsd_circular_array_get(d->underlying_array, i) == f) n++;
  }
  return n;
}

void s_swap(fiber_context_t* from, fiber_context_t* to) {
  uint64_t fi = idx_of(from), ti = idx_of(to);
  vm_assert(fi < NFIBS && ti < NFIBS && fi != ti, "C01: context switch between unknown contexts / to itself");
  vm_assert(saved[ti] && alive[ti], "C01: switched to a fiber whose context is not saved or that was destroyed");
  fiber_t* f = fibs[fi];
  from_state_at_swap = f->state;
  /* what must NOT have happened yet */
#if MODE == 1
  vm_assert(queued_count(f) == 0, "C01: a yielding fiber was put on a run queue before its context was saved");
  vm_assert(mgr->to_schedule == f, "C01: to_schedule not pending at the switch");
#elif MODE == 2
  vm_assert(loc == 0, "C01: set_and_wait published the wake-up location before the context was saved");
  vm_assert(mgr->set_wait_location == &loc, "C01: set_wait_location not pending at the switch");
#elif MODE == 3 || MODE == 4
  vm_assert(f->state == FIBER_STATE_SAVING_STATE_TO_WAIT, "C01: a fiber queued itself for wake-up before the switch without being in state SAVING");
#if MODE == 4
  vm_assert(mtx.counter == 0 && mgr->mutex_to_unlock == &mtx, "C01: the mutex was released before the waiter's context was saved");
#endif
#elif MODE == 5
  vm_assert(MQ.head == MQ.tail && mgr->mpmc_to_push.fifo == &MQ, "C01: the fiber was pushed on the wait queue before its context was saved");
#elif MODE == 6
  vm_assert(slk.state.counters.ticket != slk.state.counters.users && mgr->spinlock_to_unlock == &slk, "C01: the spinlock protecting the waiter list was released before the context was saved");
#elif MODE == 7
  vm_assert(alive[fi] && mgr->done_fiber == f, "C01: a finished fiber was destroyed before it had switched away (reclaimed while in use)");
#elif MODE == 8
  vm_assert(f->scratch == 0 && mgr->set_wait_location == (void**)&f->scratch, "C01: signal waiter marked ready-to-wake before its context was saved");
#endif
  saved[fi] = 1; saved[ti] = 0;
  swaps++;
}
int s_context_init(fiber_context_t* c, size_t stack_size, fiber_run_function_t fn, void* param) { c->ctx_stack = 0; c->ctx_stack_size = stack_size; c->is_thread = 0; return FIBER_SUCCESS; }
int s_context_init_from_thread(fiber_context_t* c) { memset(c, 0, sizeof(*c)); c->is_thread = 1; return FIBER_SUCCESS; }
void s_context_destroy(fiber_context_t* c) {
  uint64_t i = idx_of(c);
  if (i < NFIBS) {
    vm_assert(saved[i], "C01: a fiber's stack was reclaimed while the fiber was still running on it");
    vm_assert(alive[i], "C01: a fiber was destroyed twice");
    alive[i] = 0;
  }
}
void s_schedule_probe(fiber_t* f) { for (int i = 0; i < NFIBS; i++) if (fibs[i] == f) sched_calls[i]++; }

void vm_init(void) {
  fiber_scheduler_init(1);
  for (int q = 0; q < 2; q++) {
    wsd_work_stealing_deque_t* d = fiber_scheduler_thread_queues[q];
    wsd_circular_array_destroy(d->underlying_array);
    d->underlying_array = wsd_circular_array_create(2);
  }
  mgr = fiber_manager_create(fiber_scheduler_for_thread(0));
  fiber_the_manager = mgr;
  fiber_manager_state = FIBER_MANAGER_STATE_STARTED;
  fibs[0] = mgr->thread_fiber;
  fibs[1] = fiber_create(1024, body, 0);
  fibs[2] = fiber_create(1024, body, 0);
  for (int i = 0; i < NFIBS; i++) { alive[i] = 1; saved[i] = (i != 0); }
  mpsc_fifo_init(&Q);
  fiber_free_mpmc_nodes = lockfree_ring_buffer_create(1);
  fiber_manager_get_hazard_record(mgr);
  mpmc_fifo_init(&MQ, fiber_manager_get_mpmc_node());
  fiber_mutex_init(&mtx);
  fiber_spinlock_init(&slk);
  fiber_signal_init(&sig);
}

void vm_thread_1(void) {
  fiber_t* A = fibs[0];
#if MODE == 1
  fiber_manager_yield(mgr);
  vm_assert(swaps == 1 && queued_count(A) == 1 && A->state == FIBER_STATE_READY && mgr->to_schedule == 0, "C01/C02: after the switch the yielding fiber is queued exactly once, READY, slot empty");
#elif MODE == 2
  fiber_manager_set_and_wait(mgr, &loc, (void*)0x77);
  vm_assert(swaps == 1 && loc == (void*)0x77 && mgr->set_wait_location == 0 && A->state == FIBER_STATE_WAITING && queued_count(A) == 0, "C01: after the switch the wake-up location is published exactly as requested and the waiter is not runnable");
#elif MODE == 3
  fiber_manager_wait_in_mpsc_queue(mgr, &Q);
  vm_assert(swaps == 1 && A->state == FIBER_STATE_WAITING && queued_count(A) == 0, "C01: after the switch a queue waiter is WAITING (not SAVING) and not runnable");
  vm_assert(Q.head->next && Q.head->next->data == A, "C01: the waiter is not in the wait queue");
#elif MODE == 4
  fiber_mutex_lock(&mtx);
  fiber_manager_wait_in_mpsc_queue_and_unlock(mgr, &Q, &mtx);
  vm_assert(swaps == 1 && A->state == FIBER_STATE_WAITING && mtx.counter == 1 && mgr->mutex_to_unlock == 0, "C01: after the switch the waiter is WAITING and the mutex has been released exactly once");
#elif MODE == 5
  fiber_manager_wait_in_mpmc_queue(mgr, &MQ);
  vm_assert(swaps == 1 && A->state == FIBER_STATE_WAITING && MQ.head != MQ.tail && mgr->mpmc_to_push.fifo == 0, "C01: after the switch the waiter has been pushed on the mpmc wait queue exactly once");
#elif MODE == 6
  fiber_spinlock_lock(&slk);
  A->state = FIBER_STATE_WAITING;
  mgr->spinlock_to_unlock = &slk;
  fiber_manager_yield(mgr);
  vm_assert(swaps == 1 && slk.state.counters.ticket == slk.state.counters.users && mgr->spinlock_to_unlock == 0, "C01: after the switch the spinlock has been released exactly once");
#elif MODE == 7
  /* the running fiber finishes: fiber_join_routine's tail (detached fiber) */
  A->detach_state = FIBER_DETACH_DETACHED;
  fiber_mark_completed(A, (void*)1);
  mgr->done_fiber = A;
  fiber_manager_yield(mgr);
  vm_assert(swaps == 1 && alive[0] == 0 && mgr->done_fiber == 0, "C01: after the switch the finished fiber has been reclaimed exactly once by its successor");
#elif MODE == 8
  A->scratch = (void*)vm_nondet();   /* scratch is shared by several mechanisms: whatever the previous one left in it */
  fiber_signal_wait(&sig);
  vm_assert(swaps == 1 && A->scratch == 0, "C01: signal wait path");
#elif MODE == 11
  /* run queue: fibs[1], fibs[2] (created, READY); give them arbitrary states */
  uint64_t s1 = vm_nondet(), s2 = vm_nondet();
  vm_assume(s1 >= FIBER_STATE_READY && s1 <= FIBER_STATE_SAVING_STATE_TO_WAIT && s1 != FIBER_STATE_DONE);
  vm_assume(s2 >= FIBER_STATE_READY && s2 <= FIBER_STATE_SAVING_STATE_TO_WAIT && s2 != FIBER_STATE_DONE);
  fibs[1]->state = (int)s1; fibs[2]->state = (int)s2;
  fiber_t* n = fiber_scheduler_next(mgr->scheduler);
  vm_assert(n == 0 || n->state != FIBER_STATE_SAVING_STATE_TO_WAIT, "C01: the scheduler handed out a fiber that is still saving its state");
  vm_assert(n == 0 || n == fibs[1] || n == fibs[2], "C02: the scheduler returned something that was never queued");
  for (int i = 1; i <= 2; i++) vm_assert(queued_count(fibs[i]) == (n == fibs[i] ? 0 : 1), "C02: a queued fiber was dropped or duplicated by fiber_scheduler_next");
  vm_assert(n != 0 || (s1 == FIBER_STATE_SAVING_STATE_TO_WAIT && s2 == FIBER_STATE_SAVING_STATE_TO_WAIT), "C02: the scheduler reported nothing to run although a runnable fiber was queued");
#elif MODE == 12
  fiber_t* B = fibs[1];
  uint64_t s = vm_nondet();
  vm_assume(s == FIBER_STATE_WAITING || s == FIBER_STATE_SAVING_STATE_TO_WAIT);
  /* B sits in the wait queue as fiber_manager_wait_in_mpsc_queue leaves it */
  while (fiber_scheduler_next(mgr->scheduler)) {}
  mpsc_fifo_node_t* node = B->mpsc_fifo_node; node->data = B; B->mpsc_fifo_node = 0; mpsc_fifo_push(&Q, node);
  B->state = (int)s;
  int n = fiber_manager_wake_from_mpsc_queue(mgr, &Q, 1);
  vm_assert(n == 1, "C01: wake_from_mpsc_queue(1) woke exactly one fiber");
  vm_assert(B->state == (s == FIBER_STATE_WAITING ? FIBER_STATE_READY : FIBER_STATE_SAVING_STATE_TO_WAIT), "C01: a waker changed the state of a fiber that is still saving its state (it would be resumed before its suspension completed)");
  vm_assert(queued_count(B) == 1 && B->mpsc_fifo_node != 0, "C02: the woken fiber is queued exactly once and got its queue node back");
#endif
}
void vm_final(void) {}
