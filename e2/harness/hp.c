/* C14 (E2 part): the real hazard_pointer.c on the integer-address VM.
 * MODE 1 (sequential, all address patterns): record A retires node X and scans; the hazard slots of records A and B hold
 *   ARBITRARY 64-bit values (protected pointers are never dereferenced by the scan, so they may be anything, e.g. nodes in
 *   another arena gigabytes away).  X is reclaimed iff no slot holds X.  Exercises the real compare + sort + binary search
 *   for every ordering pattern of the snapshot, including differences that do not fit 32 bits.
 * MODE 2 (concurrent): record A retires X, which record B protects (published and validated before the retirement), and
 *   scans, WHILE a third record C registers (real hazard_pointer_thread_record_create_and_push).  X must not be reclaimed.
 *   Also the thresholds after registration must be 2*N*K. */
#include "hazard_pointer.h"
#include "vm.h"
#include "qsort_model.h"
#include <stdlib.h>
_Atomic(hazard_pointer_thread_record_t*) head;
hazard_pointer_thread_record_t *ra, *rb, *rc;
hazard_node_t X, Y;
uint64_t reclaimed_x, reclaimed_y;
static void gc(void* d, hazard_node_t* n) { if (n == &X) reclaimed_x++; else if (n == &Y) reclaimed_y++; else vm_assert(0, "C14: gc callback called for something that was never retired"); }

#ifndef KSLOTS
#define KSLOTS 2
#endif
void vm_init(void) {
  ra = hazard_pointer_thread_record_create_and_push(&head, KSLOTS);
  rb = hazard_pointer_thread_record_create_and_push(&head, KSLOTS);
  hazard_pointer_scan(ra);   /* allocates the scratch list */
  X.gc_function = gc; Y.gc_function = gc;
}
#if MODE == 1
uint64_t s[4];
void vm_setup(void) { for (int i = 0; i < 4; i++) s[i] = vm_nondet(); }
void vm_thread_1(void) {
  ra->hazard_pointers[0] = (hazard_node_t*)s[0]; ra->hazard_pointers[1] = (hazard_node_t*)s[1];
  rb->hazard_pointers[0] = (hazard_node_t*)s[2]; rb->hazard_pointers[1] = (hazard_node_t*)s[3];
  /* retire X and Y (below the threshold: no automatic scan), then scan */
  hazard_pointer_free(ra, &X);
  hazard_pointer_free(ra, &Y);
  hazard_pointer_scan(ra);
  int px = 0, py = 0;
  for (int i = 0; i < 4; i++) { if (s[i] == (uint64_t)&X) px = 1; if (s[i] == (uint64_t)&Y) py = 1; }
  vm_assert(reclaimed_x == (px ? 0 : 1), "C14: a retired node is reclaimed by the scan if and only if no hazard slot holds it (protected node reclaimed, or unprotected node kept), for every address pattern");
  vm_assert(reclaimed_y == (py ? 0 : 1), "C14: a retired node is reclaimed by the scan if and only if no hazard slot holds it (protected node reclaimed, or unprotected node kept), for every address pattern");
  vm_assert(ra->retired_count == (uint64_t)(px + py), "C14: retired_count equals the number of still-protected retired nodes after a scan");
}
#else
void vm_setup(void) { rb->hazard_pointers[0] = &X; }   /* B protects X: published and validated before the retirement */
void vm_thread_1(void) {       /* A retires X and scans */
  hazard_pointer_free(ra, &X);
  hazard_pointer_scan(ra);
  vm_assert(reclaimed_x == 0, "C14: a node was reclaimed while another record held a published, validated hazard pointer to it (scan racing with a registration)");
  vm_progress();
}
void vm_thread_2(void) {       /* a third participant joins while the scan runs */
  rc = hazard_pointer_thread_record_create_and_push(&head, KSLOTS);
  vm_progress();
}
#endif
void vm_final(void) {
#if MODE == 2
  vm_assert(reclaimed_x == 0, "C14: protected node reclaimed");
  vm_assert(ra->retire_threshold == 6 * KSLOTS && rb->retire_threshold == 6 * KSLOTS && rc->retire_threshold == 6 * KSLOTS, "C14: retire thresholds are 2*N*K after a registration");
#endif
}
