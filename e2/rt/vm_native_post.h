static void vm_native_setup(void) {
  for (int i = 0; i < VM_NOBJ_STATIC; i++) { vm_size[i] = vm_static_size[i]; vm_mem[i] = calloc(vm_size[i] / 8 + 1, 8); vm_written[i] = malloc(vm_size[i] / 8 + 1); memset(vm_written[i], 1, vm_size[i] / 8 + 1); vm_livef[i] = 1; vm_site_of[i] = -1; }
  vm_nobj = VM_NOBJ_STATIC;
}
static W* vm_cellp(W a) {
  W o = (a >> 20) - 1, off = a & 0xfffffUL;
  if (a < (1UL << 20) || o >= VM_MAXOBJ || !vm_mem[o] || off >= vm_size[o]) { printf("ASSERTION FAILED: memory safety: bad address %lx\n", a); vm_failed = 1; exit(4); }
  if (!vm_livef[o]) { printf("ASSERTION FAILED: memory safety: access to a freed or out-of-scope object\n"); vm_failed = 1; }
  return &vm_mem[o][off >> 3];
}
static W vm_szmask(int sz) { return sz == 8 ? ~0UL : sz == 4 ? 0xffffffffUL : sz == 2 ? 0xffffUL : 0xffUL; }
static W vm_n_ld(W a, int sz) { W c = *vm_cellp(a & ~7UL); if (sz == 8) return c; return (c >> ((a & 7UL) * 8)) & vm_szmask(sz); }
static void vm_n_st(W a, W v, int sz) { W* p = vm_cellp(a & ~7UL); vm_written[(a >> 20) - 1][(a & 0xfffffUL) >> 3] = 1; if (sz == 8) { *p = v; return; } W sh = (a & 7UL) * 8, m = vm_szmask(sz) << sh; *p = (*p & ~m) | ((v << sh) & m); }
static W vm_n_rmw(int op, W a, W v, int sz) { W o = vm_n_ld(a, sz); W n = op == 0 ? v : op == 1 ? o + v : op == 2 ? o - v : op == 3 ? (o & v) : op == 4 ? (o | v) : (o ^ v); vm_n_st(a, n & vm_szmask(sz), sz); return o; }
static W vm_n_cas(W a, W e, W n, int sz) { W o = vm_n_ld(a, sz); vm_cas_ok = (o == e); if (o == e) vm_n_st(a, n, sz); return o; }
static W vm_n_cas2(W a, W elo, W ehi, W nlo, W nhi) { W lo = vm_n_ld(a, 8), hi = vm_n_ld(a + 8, 8); if (lo == elo && hi == ehi) { vm_n_st(a, nlo, 8); vm_n_st(a + 8, nhi, 8); return 1; } return 0; }
#define LD(s, a, z) vm_n_ld(a, z)
#define ST(s, a, v, z) vm_n_st(a, v, z)
#define RMW(s, op, a, v, z) vm_n_rmw(op, a, v, z)
#define CAS(s, a, e, n, z, weak) vm_n_cas(a, e, n, z)
#define CAS2(s, a, elo, ehi, nlo, nhi) vm_n_cas2(a, elo, ehi, nlo, nhi)
static W vm_native_malloc(int site, W size, int zero) {
  if (vm_nobj >= VM_MAXOBJ) { printf("too many objects\n"); exit(5); }
  int o = vm_nobj++;
  vm_size[o] = (size + 7) / 8 * 8; if (!vm_size[o]) vm_size[o] = 8;
  vm_mem[o] = calloc(vm_size[o] / 8 + 1, 8);
  if (!zero) memset(vm_mem[o], 0xA5, vm_size[o]);
  vm_written[o] = malloc(vm_size[o] / 8 + 1); memset(vm_written[o], zero ? 1 : 0, vm_size[o] / 8 + 1);
  vm_site_of[o] = site; vm_livef[o] = 1;
  return ((W)(o + 1)) << 20;
}
#define VM_MALLOC(site, size, zero) vm_native_malloc(site, size, zero)
static int vm_nalloca;
static W vm_native_alloca(int site) { /* stack slots take object ids from the top so that heap ids match the CBMC-mode numbering */
  int o = VM_MAXOBJ - 1 - (vm_nalloca++ % 1024);
  vm_size[o] = (vm_site_size[site] + 7) / 8 * 8; if (!vm_size[o]) vm_size[o] = 8;
  free(vm_mem[o]); vm_mem[o] = malloc(vm_size[o] + 8); memset(vm_mem[o], 0xA5, vm_size[o]); free(vm_written[o]); vm_written[o] = calloc(vm_size[o] / 8 + 1, 1); vm_livef[o] = 1; vm_site_of[o] = -1;
  return ((W)(o + 1)) << 20;
}
#define VM_ALLOCA(site) vm_native_alloca(site)
#define VM_ALLOCA_END(site) do { } while (0)
static void vm_native_free(W a) { if (!a) return; W o = (a >> 20) - 1; if ((a & 0xfffffUL) || o >= VM_MAXOBJ || !vm_mem[o] || !vm_livef[o]) { printf("ASSERTION FAILED: memory safety: bad or double free\n"); vm_failed = 1; return; } vm_livef[o] = 0; }
#define VM_FREE(s, a) vm_native_free(a)
static W vm_popcount(W x) { x = x - ((x >> 1) & 0x5555555555555555UL); x = (x & 0x3333333333333333UL) + ((x >> 2) & 0x3333333333333333UL); x = (x + (x >> 4)) & 0x0f0f0f0f0f0f0f0fUL; return (x * 0x0101010101010101UL) >> 56; }
static void vm_assume(W c) { if (!c) { printf("assumption violated\n"); exit(6); } }
static W vm_nondet(void) { return 0; }
static W vm_self(void) { return vm_tid; }
static void vm_fence(void) {}
static void vm_abort(void) { printf("ASSERTION FAILED: abort() reached\n"); exit(7); }
static void vm_spin(void) {}
static void vm_park(void) {}
static W vm_get_kt(void) { return vm_kt; }
static void vm_atomic_begin(void) {}
static void vm_atomic_end(void) {}
static void vm_set_kt(W k) { vm_kt = k; }
static W vm_is_parked(W t) { return 0; }
static void vm_progress(void) {}
static void vm_dump_allocs(void) {
  const char* p = getenv("VM_ALLOC_LOG");
  if (!p) return;
  FILE* f = fopen(p, "w");
  fprintf(f, "{\"nstatic\": %d, \"objects\": [", VM_NOBJ_STATIC);
  for (int o = 0; o < vm_nobj; o++) {
    fprintf(f, "%s{\"site\": \"%s\", \"size\": %lu, \"live\": %d, \"cells\": [", o ? ", " : "", vm_site_of[o] >= 0 ? vm_site_name[vm_site_of[o]] : "", vm_size[o], vm_livef[o]);
    for (unsigned long c = 0; c < vm_size[o] / 8; c++) { if (vm_written[o][c]) fprintf(f, "%s%lu", c ? ", " : "", vm_mem[o][c]); else fprintf(f, "%snull", c ? ", " : ""); }
    fprintf(f, "]}");
  }
  fprintf(f, "]}\n");
  fclose(f);
}
static int vm_native_run(int argc, char** argv) { return vm_failed; }

/* default environment stubs (documented contract only) */
static W ext_fiber_poll_events(void) { return 0; }                       /* no event system in this scenario: nothing triggered */
static W ext_fiber_poll_events_blocking(W s, W us) { vm_spin(); return 0; } /* idle kernel thread: an await point */
static W ext_dlsym(W h, W name) { return 0; }
static W ext_pthread_self(void) { return vm_kt + 1; }
static W ext_pthread_equal(W a, W b) { return a == b; }
static W ext_usleep(W us) { vm_spin(); return 0; }
