/* fvm runtime, CBMC mode, part 2 (after the generated memory and candidate sets) */
#ifndef VM_WEAK_SPURIOUS
#define VM_WEAK_FAIL(weak) 0
#else
#define VM_WEAK_FAIL(weak) ((weak) && nondet_bool())
#endif
#define DEF_ACC(N) \
static W LD_##N(W a, int sz){ VM_CHK(a,sz); W c = cl_##N(a & ~7UL); if (sz == 8) return c; return (c >> ((a & 7UL) * 8)) & vm_szmask(sz); } \
static void STr_##N(W a, W v, int sz){ if (sz == 8) { cs_##N(a, v); return; } W sh = (a & 7UL) * 8; W m = vm_szmask(sz) << sh; \
  W c = cl_##N(a & ~7UL); cs_##N(a & ~7UL, (c & ~m) | ((v << sh) & m)); } \
static void PRE_##N(W a){ if (!in_##N(a & ~7UL)) { (void)cl_##N(a & ~7UL); } } /* bad addresses are diagnosed outside atomic sections */ \
static void ST_##N(W a, W v, int sz){ VM_CHK(a,sz); if (sz == 8) { cs_##N(a, v); return; } \
  PRE_##N(a); __CPROVER_atomic_begin(); STr_##N(a, v, sz); __CPROVER_atomic_end(); } \
static W RMW_##N(int op, W a, W v, int sz){ VM_CHK(a,sz); PRE_##N(a); __CPROVER_atomic_begin(); W o = LD_##N(a, sz); \
  W n = op == 0 ? v : op == 1 ? o + v : op == 2 ? o - v : op == 3 ? (o & v) : op == 4 ? (o | v) : (o ^ v); \
  STr_##N(a, n & vm_szmask(sz), sz); __CPROVER_atomic_end(); return o; } \
static W CAS_##N(W a, W e, W n, int sz, int weak){ VM_CHK(a,sz); PRE_##N(a); __CPROVER_atomic_begin(); W o = LD_##N(a, sz); \
  _Bool s = (o == e); if (VM_WEAK_FAIL(weak)) s = 0; if (s) STr_##N(a, n, sz); __CPROVER_atomic_end(); vm_cas_ok = s; return o; } \
static W CAS2_##N(W a, W elo, W ehi, W nlo, W nhi){ __CPROVER_assert((a & 15UL) == 0, "memory safety: cmpxchg16b operand not 16-byte aligned"); \
  PRE_##N(a); PRE_##N(a + 8); __CPROVER_atomic_begin(); W lo = cl_##N(a), hi = cl_##N(a + 8); _Bool s = (lo == elo && hi == ehi); \
  if (s) { cs_##N(a, nlo); cs_##N(a + 8, nhi); } __CPROVER_atomic_end(); return s; }
SETS(DEF_ACC)
#define LD(s, a, z) LD_##s(a, z)
#define ST(s, a, v, z) ST_##s(a, v, z)
#define RMW(s, op, a, v, z) RMW_##s(op, a, v, z)
#define CAS(s, a, e, n, z, weak) CAS_##s(a, e, n, z, weak)
#define CAS2(s, a, elo, ehi, nlo, nhi) CAS2_##s(a, elo, ehi, nlo, nhi)
#define VM_FREE(s, a) fr_##s(a)
/* thread-private (non-escaping) stack slots: plain local arrays, no shared-memory events */
#define VM_PCHK(off, sz, n) __CPROVER_assert(((off) >> 3) < (W)(n) && (((off) & 7UL) + (sz)) <= 8, "memory safety: out-of-bounds access to a local array")
#define LDP(arr, off, sz, n) (VM_PCHK(off, sz, n), (sz) == 8 ? arr[(off) >> 3] : ((arr[(off) >> 3] >> (((off) & 7UL) * 8)) & vm_szmask(sz)))
#define STP(arr, off, v, sz, n) do { W o_ = (off), v_ = (v); VM_PCHK(o_, sz, n); if ((sz) == 8) arr[o_ >> 3] = v_; else { W sh_ = (o_ & 7UL) * 8, m_ = vm_szmask(sz) << sh_; arr[o_ >> 3] = (arr[o_ >> 3] & ~m_) | ((v_ << sh_) & m_); } } while (0)

static W vm_popcount(W x) { x = x - ((x >> 1) & 0x5555555555555555UL); x = (x & 0x3333333333333333UL) + ((x >> 2) & 0x3333333333333333UL); x = (x + (x >> 4)) & 0x0f0f0f0f0f0f0f0fUL; return (x * 0x0101010101010101UL) >> 56; }
static void vm_assume(W c) { __CPROVER_assume(c != 0); }
static W vm_nondet(void) { return nondet_W(); }
static W vm_self(void) { return vm_tid; }
static void vm_fence(void) { VM_FENCE(); }
static void vm_abort(void) { __CPROVER_assert(0, "abort() / failed library assertion reached"); __CPROVER_assume(0); }

static _Bool vm_others_quiet(int level) { /* level 1: everybody else is EG or beyond ; level 2: CAND or beyond */
  _Bool ok = 1;
  for (int u = 1; u <= VM_NTHREADS; u++)
    if ((W)u != vm_tid) { unsigned char st = vm_status[u]; ok = ok && (level == 1 ? st >= VS_EG : st >= VS_CAND); }
  return ok;
}
/* called for every `pause` (cpu_relax) and by the kernel for every yield of a running fiber:
   await-type loops are cut after VM_SPIN_BOUND iterations by the endgame protocol (DESIGN.md 3.5) */
static void vm_spin(void) {
  if (vm_stage == 0) {
    if (++vm_spins <= VM_SPIN_BOUND) return;
    vm_stage = 1; vm_status[vm_tid] = VS_EG;
    __CPROVER_assume(vm_others_quiet(1));
    return;
  }
  if (vm_stage == 1) {
    vm_stage = 2; vm_status[vm_tid] = VS_CAND;
    __CPROVER_assume(vm_others_quiet(2));
    return;
  }
  vm_final_status = VS_STUCK; vm_dead = 1;   /* published at thread end, after the private copies were written back */
}
static void vm_progress(void) {
  /* an operation completed.  After the confirm stage a thread must not resume (others relied on it being stuck).
     The spin budget is per thread, not per operation, unless the harness asks for VM_SPIN_RESET. */
  if (vm_stage == 2) __CPROVER_assume(0);
#ifdef VM_SPIN_RESET
  if (vm_stage == 1) { vm_stage = 0; vm_status[vm_tid] = VS_RUN; }
  vm_spins = 0;
#endif
}
static void vm_thread_begin(int t) { vm_tid = t; vm_kt = (t - 1) % VM_NKT; vm_dead = 0; vm_spins = 0; vm_stage = 0; }
static void vm_thread_end(int t) {
  if (vm_dead) { vm_status[t] = vm_final_status; return; }
  if (vm_stage == 2) __CPROVER_assume(0);
  vm_status[t] = VS_DONE;
}
static void vm_park(void) { vm_final_status = VS_PARKED; vm_dead = 1; }   /* status is published at thread end (after write-back of private copies) */
static void vm_set_kt(W k) { vm_kt = k; }
static W vm_is_parked(W t) { return vm_status[t] == VS_PARKED; }
static W vm_get_kt(void) { return vm_kt; }
static void vm_atomic_begin(void) { __CPROVER_atomic_begin(); }
static void vm_atomic_end(void) { __CPROVER_atomic_end(); }
static void vm_start(void) {}
static void vm_monitor(void) {
  _Bool all = 1, stuck = 0;
  for (int u = 1; u <= VM_NTHREADS; u++) { unsigned char st = vm_status[u]; all = all && st >= VS_PARKED; stuck = stuck || st == VS_STUCK; }
  __CPROVER_assume(all);
  __CPROVER_assert(!stuck, "liveness: a thread spins forever although every other thread has finished (livelock / lost wake-up)");
}

/* default environment stubs (documented contract only) */
static W ext_fiber_poll_events(void) { return 0; }                       /* no event system in this scenario: nothing triggered */
static W ext_fiber_poll_events_blocking(W s, W us) { vm_spin(); return 0; } /* idle kernel thread: an await point */
static W ext_dlsym(W h, W name) { return 0; }
static W ext_pthread_self(void) { return vm_kt + 1; }
static W ext_pthread_equal(W a, W b) { return a == b; }
static W ext_usleep(W us) { vm_spin(); return 0; }
