/* fvm runtime, CBMC mode, part 1 (before the generated memory) */
typedef unsigned long W;
typedef long SW;
W nondet_W(void);
_Bool nondet_bool(void);
__CPROVER_thread_local W vm_tid;     /* CBMC thread == fiber / thread index */
__CPROVER_thread_local W vm_kt;      /* kernel-thread identity the code currently runs on (selects thread-locals) */
__CPROVER_thread_local _Bool vm_dead; /* this CBMC thread is parked for good: unwind and terminate */
__CPROVER_thread_local int vm_spins, vm_stage;
__CPROVER_thread_local unsigned char vm_final_status;
__CPROVER_thread_local W vm_cas_ok;   /* success flag of the last compare-and-swap of this thread (no pointer out-parameter: keeps locals private) */
/* one status word per thread (a single shared cell, so that a quiescence test costs one read per other thread) */
#define VS_RUN 0    /* running */
#define VS_EG 1     /* spin budget exhausted: waiting for the others to become quiet, then one more iteration */
#define VS_CAND 2   /* still spinning after that: candidate for 'stuck'; will not write shared state any more */
#define VS_PARKED 3 /* parked in a blocking primitive (fiber kernel) */
#define VS_STUCK 4  /* spins forever: livelock */
#define VS_DONE 5   /* terminated normally */
unsigned char vm_status[VM_NTHREADS + 2];
#define VM_ASSERT(c, msg) __CPROVER_assert(c, msg)
#define VM_FENCE() __CPROVER_fence("WRfence", "RRfence", "RWfence", "WWfence")
#define VM_LIVE(f) __CPROVER_assert(f, "memory safety: access to a freed or out-of-scope object")
#define VM_INIT_CELL(o, c, e) m##o##_##c = (e)
static _Bool vm_inrange(W a);
#define VM_BADADDR(a, what) do { \
  if ((a) < (1UL << 20)) __CPROVER_assert(0, "memory safety: NULL pointer dereference"); \
  else if (!vm_inrange(a)) __CPROVER_assert(0, "memory safety: access outside any object (wild pointer)"); \
  else __CPROVER_assert(0, "encoding: address outside candidate set " what " (no verdict)"); \
  __CPROVER_assume(0); } while (0)
static void vm_badfree(W a) {
  __CPROVER_assert(0, "memory safety: free of a pointer that is not the start of a heap object");
  __CPROVER_assume(0);
}
static W vm_szmask(int sz) { return sz == 8 ? ~0UL : sz == 4 ? 0xffffffffUL : sz == 2 ? 0xffffUL : 0xffUL; }
#define VM_CHK(a, sz) __CPROVER_assert((((a) & 7UL) + (sz)) <= 8, "memory safety: access straddles an 8-byte cell (misaligned)")
