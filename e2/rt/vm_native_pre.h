/* fvm runtime, native mode (gcc): used for the init pre-run (allocation log) and for replaying schedules */
#include <stdio.h>
#include <stdlib.h>
#include <string.h>
typedef unsigned long W;
typedef long SW;
#define VM_MAXOBJ 4096
static W* vm_mem[VM_MAXOBJ];
static unsigned long vm_size[VM_MAXOBJ];
static int vm_site_of[VM_MAXOBJ];
static char vm_livef[VM_MAXOBJ];
static unsigned char* vm_written[VM_MAXOBJ]; /* per cell: has the program stored to it (else: indeterminate malloc/stack garbage) */
static int vm_nobj;
static W vm_tid, vm_kt;
static int vm_dead;
static W vm_cas_ok;
static int vm_failed;
#define VM_ASSERT(c, msg) do { if (!(c)) { printf("ASSERTION FAILED: %s\n", msg); vm_failed = 1; } } while (0)
#define VM_FENCE() __sync_synchronize()
#define VM_INIT_CELL(o, c, e) vm_mem[o][c] = (e)
static void vm_unreachable(void) { printf("unreachable reached\n"); exit(3); }
