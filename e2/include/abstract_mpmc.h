/* Abstract MPMC FIFO: the contract that property C13 states for mpmc_fifo ("an atomic FIFO queue; a pop may report empty
 * only if the queue was empty at some instant during the call or a push was still in flight"), used as the wait queue of
 * primitives built on top of it (C06).  Include AFTER mpmc_fifo.h and BEFORE fiber_manager.c: the two macros below redirect
 * the calls made by fiber_manager_wait_in_mpmc_queue (through do_maintenance) and fiber_manager_wake_from_mpmc_queue.
 * One queue instance per scenario.  NOTE: C13 itself is not established by this framework (DESIGN.md section 5). */
#ifndef ABSTRACT_MPMC_H
#define ABSTRACT_MPMC_H
#include "vm.h"
void vm_atomic_begin(void);
void vm_atomic_end(void);
#define A_MPMC_CAP 4
void* a_q[A_MPMC_CAP];
uint64_t a_head, a_tail, a_inflight;
static inline void a_mpmc_push(hazard_pointer_thread_record_t* h, mpmc_fifo_t* f, mpmc_fifo_node_t* n) {
  (void)h; (void)f;
  __atomic_fetch_add(&a_inflight, 1, __ATOMIC_SEQ_CST);          /* the push has begun */
  vm_atomic_begin();
  vm_assert(a_tail - a_head < A_MPMC_CAP, "encoding: abstract mpmc queue capacity exceeded (no verdict)");
  a_q[a_tail % A_MPMC_CAP] = n->value;
  a_tail = a_tail + 1;
  a_inflight = a_inflight - 1;                                     /* linearisation point = completion */
  vm_atomic_end();
}
static inline void* a_mpmc_trypop(hazard_pointer_thread_record_t* h, mpmc_fifo_t* f) {
  (void)h; (void)f;
  void* r = 0;
  vm_atomic_begin();
  if (a_head != a_tail) {
    r = a_q[a_head % A_MPMC_CAP];
    a_head = a_head + 1;
  }
  vm_atomic_end();
  return r;     /* empty is reported only when the queue is empty at this instant (pushes in flight are not yet visible) */
}
#define mpmc_fifo_push(h, f, n) a_mpmc_push(h, f, n)
#define mpmc_fifo_trypop(h, f) a_mpmc_trypop(h, f)
#endif
