/* model of libc qsort for arrays of 8-byte elements: insertion sort that calls the REAL comparison function
   (on copies of the two elements, so that the comparison function's accesses stay local) */
#ifndef QSORT_MODEL_H
#define QSORT_MODEL_H
#include <stddef.h>
#include <stdint.h>
void qsort(void* base, size_t n, size_t sz, int (*cmp)(const void*, const void*)) {
  (void)sz;
  void** a = (void**)base;
  for (size_t i = 1; i < n; i++) {
    for (size_t j = i; j > 0; j--) {
      void* pair[2] = {a[j - 1], a[j]};
      if (cmp(&pair[0], &pair[1]) <= 0) break;
      a[j] = pair[0]; a[j - 1] = pair[1];
    }
  }
}
#endif
