/* Contract kernel for E2 harnesses of blocking primitives (DESIGN.md 3.3).
 *
 * Included by a harness AFTER `#include "fiber_manager.c"` (the real file, so that its statics are reachable).
 * The real fiber_manager_wait_in_*, wake_from_*, set_and_wait, clear_or_wait and fiber_manager_do_maintenance are used
 * unchanged.  Two functions are replaced (translator spec "replace") by the contract that properties C01/C02
 * establish for them:
 *
 *   fiber_manager_yield(m)        -> k_yield(m)
 *        caller RUNNING            : a scheduling point (bounded by the spin/endgame protocol)
 *        caller WAITING/SAVING/DONE: the context is saved; the successor on that kernel thread runs the deferred
 *                                    actions (real fiber_manager_do_maintenance, executed here; a yield issued while they
 *                                    run is the successor's: a plain scheduling point); the fiber resumes only after a
 *                                    fiber_scheduler_schedule(f)
 *   fiber_scheduler_schedule(s,f) -> k_schedule(s, f)
 *        makes f runnable; asserts it was not already runnable and is not running (one wake-up, one run)
 *
 * Every fiber is a VM thread with a private manager (most concurrent case).
 */
#ifndef KERNEL_CONTRACT_H
#define KERNEL_CONTRACT_H
#include "vm.h"
#ifndef NF
#error define NF (number of fibers)
#endif
void vm_park(void);          /* this VM thread blocks for good (until the end of the run) */
void vm_set_kt(uint64_t kt); /* select the kernel-thread identity whose thread-locals are addressed (init only) */
uint64_t vm_is_parked(uint64_t t);

fiber_manager_t* k_mgr[NF + 1];
fiber_t* k_fiber[NF + 1];
uint64_t k_in_maint[NF + 1];              /* the deferred actions of fiber t's suspension are being run (by its successor) */
volatile uint64_t k_runnable[NF + 1];     /* ghost: a wake-up is pending (set by schedule, consumed at resumption) */
volatile uint64_t k_done[NF + 1];         /* ghost: the fiber finished (suspended in state DONE; its control block is reclaimed by the successor) */
volatile uint64_t k_suspended[NF + 1];    /* ghost: the fiber's context is saved and it is not running */

static void k_init(void) {
  for (int t = 1; t <= NF; t++) {
    fiber_manager_t* m = calloc(1, sizeof(*m));
    fiber_t* f = calloc(1, sizeof(*f));
    f->mpsc_fifo_node = calloc(1, sizeof(*f->mpsc_fifo_node));
    f->state = FIBER_STATE_RUNNING;
    f->id = 1;
    m->current_fiber = f;
    m->thread_fiber = f;
    m->id = t;
    k_mgr[t] = m;
    k_fiber[t] = f;
    vm_set_kt(t - 1);
    fiber_the_manager = m;
  }
  vm_set_kt(0);
  fiber_manager_state = FIBER_MANAGER_STATE_STARTED;
}

#ifdef K_MIGRATE
/* Kernel-thread MIGRATION (optional, scenarios that define K_MIGRATE): a fiber that yields or is suspended may be resumed by a
   different kernel thread, i.e. under a different fiber_manager.  Every fiber gets a spare manager; whenever it comes back from
   fiber_manager_yield the environment may have moved it there (fiber_manager_get() then returns the spare one, whose
   current_fiber is this fiber).  Code that keeps using a manager pointer fetched before the yield then acts on a kernel thread
   it is no longer running on; the contract assertion in k_schedule reports the case the property cares about: pushing a
   runnable fiber onto another thread's run queue (the per-thread run queue is owner-push only).  Each manager's scheduler
   field holds a token identifying the manager. */
fiber_manager_t* k_alt[NF + 1];
static void k_init_migrate(void) {
  for (int t = 1; t <= NF; t++) {
    fiber_manager_t* a = calloc(1, sizeof(*a));
    a->id = 100 + t;
    a->scheduler = (fiber_scheduler_t*)a;
    k_alt[t] = a;
    k_mgr[t]->scheduler = (fiber_scheduler_t*)k_mgr[t];
  }
}
static inline void k_maybe_migrate(uint64_t t) {
  if (vm_nondet() & 1) {
    fiber_manager_t* const cur = fiber_the_manager;
    fiber_manager_t* const alt = k_alt[t];
    alt->current_fiber = cur->current_fiber;
    alt->thread_fiber = cur->thread_fiber;
    k_alt[t] = cur;
    fiber_the_manager = alt;
  }
}
#endif

void k_schedule(fiber_scheduler_t* sched, fiber_t* f) {
#ifdef K_MIGRATE
  vm_assert((fiber_manager_t*)sched == fiber_the_manager, "contract (C02): a fiber was made runnable through the scheduler of a kernel thread the caller is not running on (stale manager pointer kept across a yield: a non-owner push onto that thread's run queue can lose the entry)");
#else
  (void)sched;
#endif
  for (int t = 1; t <= NF; t++) {
    if (k_fiber[t] == f) {
#ifdef K_CHECK_EARLY_WAKE   /* costs three more shared reads per wake-up site: enabled by the scenarios whose subject is the wake-up hand-shake itself */
      vm_assert(!k_done[t], "contract (C01): a finished fiber was scheduled");
      {
        /* read the state FIRST: SAVING -> ok; anything else means the deferred actions have run, i.e. the suspension began earlier */
        const fiber_state_t st_now = f->state;
        const uint64_t susp = k_suspended[t];
        vm_assert(st_now == FIBER_STATE_SAVING_STATE_TO_WAIT || susp,
                  "contract (C01): a fiber was made runnable before its suspension had begun and outside the SAVING protocol (it would be resumed while still running)");
      }
#endif
      uint64_t old = __atomic_exchange_n(&k_runnable[t], 1, __ATOMIC_SEQ_CST);
      vm_assert(old == 0, "contract (C02): a fiber was scheduled twice for one wake-up");
      return;
    }
  }
  vm_assert(0, "contract: schedule() of something that is not a fiber of this scenario");
}

void k_yield(fiber_manager_t* m) {
  const uint64_t t = vm_self();
  if (k_in_maint[t]) {              /* a yield issued by the successor while it runs the deferred actions */
    vm_spin();
    return;
  }
  fiber_t* const f = m->current_fiber;
  const fiber_state_t st = f->state;
  if (st == FIBER_STATE_RUNNING || st == FIBER_STATE_READY) {
    vm_spin();                      /* other fibers may run; the caller continues */
#ifdef K_MIGRATE
    k_maybe_migrate(t);
#endif
    return;
  }
  /* the caller suspends */
  vm_assert(f == k_fiber[t], "contract: a fiber suspends on a manager that is not running it");
  m->old_fiber = f;
  if (st == FIBER_STATE_DONE) k_done[t] = 1;
  k_suspended[t] = 1;
  k_in_maint[t] = 1;
  fiber_manager_do_maintenance();   /* deferred actions, run by the successor after the context was saved */
  k_in_maint[t] = 0;
  if (st == FIBER_STATE_DONE) { vm_park(); return; }   /* never runs again; its memory may be gone already */
  if (!k_runnable[t]) { vm_park(); return; }   /* single read: an execution in which the wake-up arrives later is another interleaving */
  k_runnable[t] = 0;
  k_suspended[t] = 0;
  vm_assert(f->state != FIBER_STATE_SAVING_STATE_TO_WAIT, "contract (C01): fiber resumed while still saving its state");
  f->state = FIBER_STATE_RUNNING;
#ifdef K_MIGRATE
  k_maybe_migrate(t);
#endif
}

/* replaces fiber_context_destroy (fiber_context.c is not part of contract-kernel scenarios): the stack, if the
   harness gave the fiber one, is released exactly once */
void k_context_destroy(fiber_context_t* c) {
  if (c && !c->is_thread) {
    free(c->ctx_stack);
  }
}

int k_context_init(fiber_context_t* c, size_t stack_size, fiber_run_function_t fn, void* param) {
  (void)fn; (void)param;
  c->ctx_stack = malloc(64);          /* a token stack object: released exactly once by k_context_destroy */
  c->ctx_stack_size = stack_size;
  c->is_thread = 0;
  return FIBER_SUCCESS;
}
int k_context_init_from_thread(fiber_context_t* c) {
  memset(c, 0, sizeof(*c));
  c->is_thread = 1;
  return FIBER_SUCCESS;
}

/* ---- abstract mutex: the contract that C03 establishes for fiber_mutex, for scenarios whose subject is a primitive built
   on top of it (replaces fiber_mutex_lock/trylock/unlock/unlock_internal through the translator spec).
   counter == 1: free, 0: held.  lock = atomic test-and-set; a fiber that finds it held parks (single read: the executions in
   which it looks later are other interleavings); k_blocked_forever() discards runs in which a parked locker's mutex is free. */
volatile uint64_t k_wait_mutex[NF + 1];
int a_mutex_lock(fiber_mutex_t* m) {
  int expected = 1;
  if (!atomic_compare_exchange_strong(&m->counter, &expected, 0)) {
    k_wait_mutex[vm_self()] = (uint64_t)m;
    vm_park();
    return FIBER_SUCCESS;
  }
  return FIBER_SUCCESS;
}
int a_mutex_trylock(fiber_mutex_t* m) {
  int expected = 1;
  return atomic_compare_exchange_strong(&m->counter, &expected, 0) ? FIBER_SUCCESS : FIBER_ERROR;
}
int a_mutex_unlock_internal(fiber_mutex_t* m) {
  int old = atomic_exchange(&m->counter, 1);
  vm_assert(old == 0, "contract (C03): unlock of a mutex that is not held");
  return 0;
}
int a_mutex_unlock(fiber_mutex_t* m) { a_mutex_unlock_internal(m); return FIBER_SUCCESS; }

/* to be called from vm_final: discards non-maximal executions (a parked fiber whose wake-up is pending could still run)
   and returns the number of fibers that are blocked for good */
static uint64_t k_blocked_forever(void) {
  uint64_t n = 0;
  for (int t = 1; t <= NF; t++) {
    if (vm_is_parked(t)) {
      vm_assume(!k_runnable[t]);
      uint64_t wm = k_wait_mutex[t];
      if (wm) vm_assume(((fiber_mutex_t*)wm)->counter != 1);   /* parked on an abstract mutex that is free: non-maximal run */
      n++;
    }
  }
  return n;
}
#endif
