/* intrinsics available to E2 harness programs (implemented by the fvm runtime, see e2/rt) */
#ifndef VM_H
#define VM_H
#include <stdint.h>
#ifdef __cplusplus
extern "C" {
#endif
void vm_assert(uint64_t cond, const char* msg); /* msg must be a string literal: it becomes the assertion description */
void vm_assume(uint64_t cond);
uint64_t vm_nondet(void);                       /* arbitrary 64-bit value */
void vm_progress(void);                         /* call after every completed API operation (resets the spin budget) */
uint64_t vm_self(void);                         /* thread / fiber index 1..N (0 = init) */
void vm_fence(void);
void vm_spin(void);                            /* await-type retry point: bounded by the endgame protocol */
#ifdef __cplusplus
}
#endif
#endif
