/* Full-runtime kernel for C01/C02 scenarios: the REAL fiber_manager_yield / switch_to / do_maintenance / scheduler /
 * deque run; only the context primitives are intrinsics.  A fiber is a VM thread, a kernel thread is an identity that
 * travels with the hand-over token.
 *   fiber_context_swap(from,to) -> r_swap: atomically { ASSERT `to` is saved, not running, alive ; `to` gets the CPU (and the
 *       caller's kernel-thread identity) ; `from` becomes saved } ; then `from` waits for its own token.
 * Included after fiber_manager.c / fiber.c / fiber_scheduler_wsd.c (real files, statics reachable). */
#ifndef KERNEL_RUNTIME_H
#define KERNEL_RUNTIME_H
#include "vm.h"
void vm_park(void);
void vm_set_kt(uint64_t kt);
uint64_t vm_get_kt(void);
uint64_t vm_is_parked(uint64_t t);
void vm_atomic_begin(void);
void vm_atomic_end(void);
#ifndef RNF
#error define RNF (number of fibers, VM threads 1..RNF)
#endif
fiber_t* r_fiber[RNF + 1];
volatile uint64_t r_saved[RNF + 1];     /* context saved, may be switched to */
volatile uint64_t r_running[RNF + 1];   /* executing on some kernel thread */
volatile uint64_t r_token[RNF + 1];     /* kernel thread id + 1 handed to the fiber by whoever switched to it */
volatile uint64_t r_alive[RNF + 1];
volatile uint64_t r_resumes[RNF + 1];   /* ghost: times the fiber was switched to */
volatile uint64_t r_pending[RNF + 1];   /* ghost (C02): wake-ups pending = schedule() calls not yet consumed by a switch-in */

static uint64_t r_index_of_ctx(fiber_context_t* c) {
  for (uint64_t i = 1; i <= RNF; i++) if (&r_fiber[i]->context == c) return i;
  return 0;
}
static void r_resume_here(uint64_t me) {   /* wait for the CPU; single read (see DESIGN.md 3.4) */
  uint64_t tok = r_token[me];
  if (!tok) { vm_park(); return; }
  r_token[me] = 0;
  vm_set_kt(tok - 1);
}
void r_swap(fiber_context_t* from, fiber_context_t* to) {
  const uint64_t fi = r_index_of_ctx(from), ti = r_index_of_ctx(to);
  vm_assert(fi && ti, "C01: context switch between contexts that are not fibers of this scenario");
  vm_assert(fi == vm_self(), "C01: a fiber's context is switched away by somebody else");
  vm_atomic_begin();
  vm_assert(r_alive[ti], "C01: switched to a fiber that has been destroyed");
  vm_assert(r_saved[ti] && !r_running[ti], "C01: a fiber was resumed before its suspension had completed (context not saved / still running on another kernel thread)");
  r_saved[ti] = 0; r_running[ti] = 1; r_token[ti] = vm_get_kt() + 1; r_resumes[ti] = r_resumes[ti] + 1;
  if (r_pending[ti]) r_pending[ti] = r_pending[ti] - 1;
  r_running[fi] = 0; r_saved[fi] = 1;
  vm_atomic_end();
  r_resume_here(fi);
}
int r_context_init(fiber_context_t* c, size_t stack_size, fiber_run_function_t fn, void* param) { (void)fn; (void)param; c->ctx_stack = 0; c->ctx_stack_size = stack_size; c->is_thread = 0; return FIBER_SUCCESS; }
int r_context_init_from_thread(fiber_context_t* c) { memset(c, 0, sizeof(*c)); c->is_thread = 1; return FIBER_SUCCESS; }
void r_context_destroy(fiber_context_t* c) {
  uint64_t i = r_index_of_ctx(c);
  if (i) {
    vm_assert(r_saved[i] && !r_running[i], "C01: a fiber's stack was reclaimed while the fiber was still running on it");
    vm_assert(r_alive[i], "C01: a fiber was destroyed twice");
    r_alive[i] = 0;
  }
}
static void r_register(uint64_t i, fiber_t* f, int running_on_kt) {
  r_fiber[i] = f; r_alive[i] = 1;
  if (running_on_kt >= 0) { r_running[i] = 1; r_saved[i] = 0; } else { r_running[i] = 0; r_saved[i] = 1; }
}
/* small arrays for all run queues (state constructed directly instead of the hard-coded 256-slot arrays) */
static void r_shrink_queues(int nthreads, int log) {
  for (int q = 0; q < 2 * nthreads; q++) {
    wsd_work_stealing_deque_t* d = fiber_scheduler_thread_queues[q];
    wsd_circular_array_destroy(d->underlying_array);
    d->underlying_array = wsd_circular_array_create(log);
  }
}
#endif
