"""Minimal parser for the textual LLVM-14 IR that clang -O1 emits for libfiber + harnesses.
Aborts loudly (IRError) on anything it does not understand: a construct that is skipped
silently would make a verdict meaningless."""
import re


class IRError(Exception):
    pass


# ---------------------------------------------------------------- types
# ('int', bits) ('ptr', T) ('named', name) ('lit', [T], packed) ('arr', n, T) ('void',) ('fn',) ('fp', bits)
class Types:
    def __init__(self):
        self.named = {}   # name -> ('lit', fields, packed) | ('opaque',)

    def parse(self, s, i=0):
        """parse a type starting at s[i]; returns (type, next index)"""
        i = skip_ws(s, i)
        if s.startswith('void', i) and not re.match(r'[\w.]', s[i + 4:i + 5] or ' '):
            t, i = ('void',), i + 4
        elif s.startswith('<{', i):
            j = match_close(s, i + 1, '{', '}')
            t = ('lit', self.parse_list(s[i + 2:j]), True)
            i = j + 1
            assert s[i] == '>', s[i:i + 10]
            i += 1
        elif s[i] == '{':
            j = match_close(s, i, '{', '}')
            t = ('lit', self.parse_list(s[i + 1:j]), False)
            i = j + 1
        elif s[i] == '[':
            j = match_close(s, i, '[', ']')
            m = re.match(r'\s*(\d+) x (.*)$', s[i + 1:j], re.S)
            if not m:
                raise IRError('array type? ' + s[i:j + 1])
            et, k = self.parse(m.group(2))
            t = ('arr', int(m.group(1)), et)
            i = j + 1
        elif s[i] == '<':
            raise IRError('vector type not supported: ' + s[i:i + 40])
        elif s[i] == '%':
            m = re.match(r'%("[^"]+"|[\w.$-]+)', s[i:])
            t = ('named', m.group(1))
            i += m.end()
        else:
            m = re.match(r'i(\d+)\b', s[i:])
            if m:
                t = ('int', int(m.group(1)))
                i += m.end()
            else:
                m = re.match(r'(half|float|double|x86_fp80|fp128)\b', s[i:])
                if m:
                    t = ('fp', {'half': 16, 'float': 32, 'double': 64, 'x86_fp80': 80, 'fp128': 128}[m.group(1)])
                    i += m.end()
                elif s.startswith('metadata', i):
                    t, i = ('metadata',), i + 8
                elif s.startswith('opaque', i):
                    t, i = ('opaque',), i + 6
                elif s.startswith('...', i):
                    t, i = ('vararg',), i + 3
                elif s.startswith('label', i):
                    t, i = ('label',), i + 5
                else:
                    raise IRError('type? ' + s[i:i + 60])
        # suffixes: function type "(...)" and pointers "*"
        while True:
            k = skip_ws(s, i)
            if k < len(s) and s[k] == '*':
                t = ('ptr', t)
                i = k + 1
            elif k < len(s) and s[k] == '(':
                j = match_close(s, k, '(', ')')
                t = ('fn',)
                i = j + 1
            elif s.startswith('addrspace', k):
                raise IRError('addrspace')
            else:
                break
        return t, i

    def parse_list(self, body):
        out = []
        for part in split_top(body):
            if part.strip():
                t, _ = self.parse(part)
                out.append(t)
        return out

    def resolve(self, t):
        while t[0] == 'named':
            if t[1] not in self.named:
                raise IRError('unknown named type %' + t[1])
            t = self.named[t[1]]
        return t

    def size_align(self, t):
        t = self.resolve(t)
        k = t[0]
        if k == 'ptr':
            return 8, 8
        if k == 'int':
            b = max(1, (t[1] + 7) // 8)
            s = 1
            while s < b:
                s *= 2
            return s, min(s, 16 if s > 8 else 8)
        if k == 'fp':
            return {16: (2, 2), 32: (4, 4), 64: (8, 8), 80: (16, 16), 128: (16, 16)}[t[1]]
        if k == 'arr':
            s, a = self.size_align(t[2])
            return s * t[1], a
        if k == 'lit':
            off, al = 0, 1
            for f in t[1]:
                s, a = self.size_align(f)
                if t[2]:
                    a = 1
                off = (off + a - 1) // a * a + s
                al = max(al, a)
            return (off + al - 1) // al * al, al
        if k == 'opaque':
            raise IRError('size of opaque type')
        if k == 'fn':
            return 8, 8
        raise IRError('size_align? %r' % (t,))

    def field(self, t, idx):
        """(offset, type) of struct field idx"""
        t = self.resolve(t)
        assert t[0] == 'lit', t
        off = 0
        for i, f in enumerate(t[1]):
            s, a = self.size_align(f)
            if t[2]:
                a = 1
            off = (off + a - 1) // a * a
            if i == idx:
                return off, f
            off += s
        raise IRError('field index %d out of range' % idx)

    def bits(self, t):
        t = self.resolve(t)
        if t[0] == 'ptr' or t[0] == 'fn':
            return 64
        if t[0] == 'int':
            return t[1]
        raise IRError('bits of %r' % (t,))


def tstr(t):
    k = t[0]
    if k == 'int':
        return 'i%d' % t[1]
    if k == 'ptr':
        return tstr(t[1]) + '*'
    if k == 'named':
        return '%' + t[1]
    if k == 'arr':
        return '[%d x %s]' % (t[1], tstr(t[2]))
    if k == 'lit':
        return ('<{%s}>' if t[2] else '{%s}') % ', '.join(tstr(f) for f in t[1])
    return k


def skip_ws(s, i):
    while i < len(s) and s[i] in ' \t\n':
        i += 1
    return i


def match_close(s, i, o, c):
    d = 0
    inq = False
    for j in range(i, len(s)):
        ch = s[j]
        if ch == '"':
            inq = not inq
        if inq:
            continue
        if ch == o:
            d += 1
        elif ch == c:
            d -= 1
            if d == 0:
                return j
    raise IRError('unbalanced %s in %s' % (o, s[i:i + 80]))


def split_top(s):
    out, depth, cur, inq = [], 0, '', False
    for ch in s:
        if ch == '"':
            inq = not inq
        if not inq:
            if ch in '{[(<':
                depth += 1
            elif ch in '}])>':
                depth -= 1
            if ch == ',' and depth == 0:
                out.append(cur.strip())
                cur = ''
                continue
        cur += ch
    if cur.strip():
        out.append(cur.strip())
    return out


PARAM_ATTRS = re.compile(
    r'^(noundef|nonnull|nocapture|readonly|readnone|signext|zeroext|inreg|noalias|writeonly|returned|immarg|nofree|'
    r'nest|swiftself|swifterror|noalias|byval\([^)]*\)|sret\([^)]*\)|elementtype\([^)]*\)|align \d+|dereferenceable\(\d+\)|'
    r'dereferenceable_or_null\(\d+\))\s+')


class Module:
    def __init__(self, text):
        self.T = Types()
        self.globals = {}     # name -> dict(type, init(text), tls, const)
        self.funcs = {}       # name -> Func
        self.decls = {}       # name -> (ret type, vararg)
        self.parse(text)

    # ------------------------------------------------------------ values
    def parse_tv(self, s, i=0):
        """parse 'type [attrs] value' -> (type, value-text, next index); value-text keeps constant expressions"""
        t, i = self.T.parse(s, i)
        i = skip_ws(s, i)
        while True:
            m = PARAM_ATTRS.match(s[i:])
            if not m:
                break
            i += m.end()
        v, i = self.parse_value(s, i)
        return t, v, i

    def parse_value(self, s, i):
        i = skip_ws(s, i)
        m = re.match(r'(getelementptr inbounds|getelementptr|bitcast|ptrtoint|inttoptr|addrspacecast|trunc|zext|sext|'
                     r'add|sub|mul|and|or|xor|shl|lshr|icmp \w+|select)\s*\(', s[i:])
        if m:
            j = match_close(s, i + m.end() - 1, '(', ')')
            return s[i:j + 1], j + 1
        m = re.match(r'(%"[^"]+"|%[\w.$-]+|@"[^"]+"|@[\w.$-]+|-?\d+|null|undef|poison|true|false|zeroinitializer)', s[i:])
        if m:
            return m.group(1), i + m.end()
        if s[i] in '{[<' or s.startswith('c"', i):
            # aggregate constant
            if s.startswith('c"', i):
                j = s.index('"', i + 2)
                return s[i:j + 1], j + 1
            o = s[i]
            if s.startswith('<{', i):
                j = match_close(s, i + 1, '{', '}') + 1
            else:
                j = match_close(s, i, o, {'{': '}', '[': ']', '<': '>'}[o])
            return s[i:j + 1], j + 1
        raise IRError('value? ' + s[i:i + 80])

    # ------------------------------------------------------------ module
    def parse(self, text):
        lines = text.split('\n')
        i = 0
        n = len(lines)
        while i < n:
            ln = lines[i]
            if ln.startswith('%') and ' = type ' in ln:
                name, body = ln.split(' = type ', 1)
                name = name[1:]
                body = body.strip()
                if body == 'opaque':
                    self.T.named[name] = ('opaque',)
                else:
                    t, _ = self.T.parse(body)
                    self.T.named[name] = t
            i += 1
        i = 0
        while i < n:
            ln = lines[i]
            if ln.startswith('@'):
                self.parse_global(ln)
            elif ln.startswith('declare '):
                m = re.search(r'@("[^"]+"|[\w.$-]+)\s*\(', ln)
                self.decls[m.group(1)] = ln
            elif ln.startswith('define '):
                j = i + 1
                while lines[j] != '}':
                    j += 1
                self.parse_func(ln, lines[i + 1:j])
                i = j
            i += 1

    def parse_global(self, ln):
        m = re.match(r'@("[^"]+"|[\w.$-]+) = (.*)$', ln)
        name, rest = m.group(1), m.group(2)
        if re.match(r'.*\balias\b', rest) and not re.search(r'\b(global|constant)\b', rest):
            raise IRError('alias not supported: ' + ln)
        m2 = re.match(r'((?:[\w_]+(?:\([^)]*\))? )*?)(global|constant) (.*)$', rest)
        if not m2:
            raise IRError('global? ' + ln)
        quals = m2.group(1)
        body = m2.group(3)
        body = re.sub(r'(, (align \d+|section "[^"]*"|comdat(\([^)]*\))?|![\w.]+ ![\w.]+))*\s*$', '', body)
        t, k = self.T.parse(body)
        init = body[k:].strip()
        self.globals[name] = dict(type=t, init=init or None, tls='thread_local' in quals, const=m2.group(2) == 'constant',
                                  external='external' in quals and not init)

    def parse_func(self, header, body):
        m = re.match(r'define (.*?)@("[^"]+"|[\w.$-]+)\s*\(', header)
        name = m.group(2)
        k = header.index('(', m.end() - 1)
        j = match_close(header, k, '(', ')')
        params = []
        for idx, p in enumerate(split_top(header[k + 1:j])):
            if p.strip() == '...':
                continue
            t, i2 = self.T.parse(p)
            rest = p[i2:].strip()
            while True:
                mm = PARAM_ATTRS.match(rest + ' ')
                if not mm:
                    break
                rest = rest[mm.end():].strip() if mm.end() <= len(rest) else ''
            pname = rest if rest.startswith('%') else '%' + str(idx)
            params.append((t, pname))
        # return type: last type in the prefix
        prefix = m.group(1)
        rt = self.ret_type(prefix)
        f = Func(name, params, rt)
        cur = None
        pend = None
        nparams = len(params)
        for ln in body:
            s = ln.rstrip()
            if not s.strip() or s.lstrip().startswith(';'):
                continue
            if pend is not None:
                pend += ' ' + s.strip()
                if s.strip().startswith(']'):
                    cur.insts.append(self.clean(pend))
                    pend = None
                continue
            mm = re.match(r'^("[^"]+"|[\w.$-]+):', s)
            if mm:
                cur = Block(mm.group(1))
                f.blocks.append(cur)
                continue
            if cur is None:
                cur = Block(str(self.first_block_label(params)))
                f.blocks.append(cur)
            st = s.strip()
            if st.startswith('switch ') and not st.rstrip().endswith(']'):
                pend = st
                continue
            cur.insts.append(self.clean(st))
        self.funcs[name] = f

    @staticmethod
    def first_block_label(params):
        # unnamed entry block takes the next unnamed-value number
        n = 0
        for t, p in params:
            if re.fullmatch(r'%\d+', p):
                n = max(n, int(p[1:]) + 1)
        return n

    def ret_type(self, prefix):
        # strip linkage/attrs words until a type parses
        toks = prefix.strip()
        # try from each word boundary from the right-most possible start
        words = toks.split(' ')
        for st in range(len(words)):
            cand = ' '.join(words[st:])
            try:
                t, k = self.T.parse(cand)
                if cand[k:].strip() == '':
                    return t
            except (IRError, AssertionError, IndexError):
                continue
        raise IRError('return type? ' + prefix)

    @staticmethod
    def clean(s):
        # drop metadata attachments and attribute group refs at the end
        prev = None
        while prev != s:
            prev = s
            s = re.sub(r',\s*![\w.]+ ![\w.]+\s*$', '', s)
            s = re.sub(r'\s+#\d+\s*$', '', s)
        return s


class Func:
    def __init__(self, name, params, ret):
        self.name = name
        self.params = params
        self.ret = ret
        self.blocks = []


class Block:
    def __init__(self, label):
        self.label = label
        self.insts = []
