"""E2 pipeline: real sources + harness --clang -O1--> LLVM IR --ir2cell--> cell-memory C --> cbmc threads"""
import json, os, sys, hashlib
sys.path.insert(0, os.path.join(os.path.dirname(os.path.abspath(__file__)), '..', 'lib'))
from vlib import *

E2 = os.path.join(VERIF, 'e2')
CLANG = ['clang-14', '-O1', '-fno-vectorize', '-fno-slp-vectorize', '-fno-unroll-loops', '-fno-builtin',
         '-Wno-everything', '-S', '-emit-llvm'] + REPO_DEFS + REPO_INC + ['-I' + os.path.join(E2, 'include')]


ENV_STUBS = {'fiber_poll_events', 'fiber_poll_events_blocking', 'dlsym', 'pthread_self', 'pthread_equal', 'usleep'}   # e2/rt/*_post.h


def build(name, harness, srcs, spec, outdir, defines=()):
    """returns (path of generated CBMC C file, info dict)"""
    os.makedirs(outdir, exist_ok=True)
    lls = []
    for s in [harness] + [os.path.join(REPO, 'src', x) for x in srcs]:
        out = os.path.join(outdir, name + '.' + os.path.basename(s) + '.ll')
        sh(CLANG + ['-D' + d for d in defines] + [s, '-o', out], what='clang -emit-llvm ' + s)
        lls.append(out)
    mod = os.path.join(outdir, name + '.linked.ll')
    sh(['llvm-link-14', '-S'] + lls + ['-o', mod], what='llvm-link')
    specp = os.path.join(outdir, name + '.spec.json')
    json.dump(spec, open(specp, 'w'))
    tr = ['python3', os.path.join(E2, 'ir2cell.py'), mod, '--spec', specp]
    nat = os.path.join(outdir, name + '.native.c')
    sh(tr + ['--mode', 'native', '--out', nat], what='ir2cell (native)')
    exe = os.path.join(outdir, name + '.native')
    sh(['gcc', '-O0', '-w', nat, '-o', exe], what='gcc (native pre-run)')
    log = os.path.join(outdir, name + '.allocs.json')
    rc, out, _, _ = run_cmd([exe], 60, 4, env={'VM_ALLOC_LOG': log})
    if rc != 0:
        raise BuildError('native pre-run of vm_init failed (rc=%s): %s' % (rc, out[-2000:]))
    gen = os.path.join(outdir, name + '.cbmc.c')
    sh(tr + ['--mode', 'cbmc', '--objects', log, '--out', gen], what='ir2cell (cbmc)')
    info = json.load(open(gen + '.info.json'))
    info['externals'] = [e for e in info['externals'] if e not in ENV_STUBS]
    if info['externals']:
        raise BuildError('harness %s calls external functions that have no model: %s' % (name, info['externals']))
    return gen, info


def jobs(name, gen, info, mm='sc', unwind=4, timeout=300, required=True, mem_gb=8, meta=None, extra=(), witness=True, solver=None, unwindset=None):
    meta = dict(meta or {})
    meta.update({'engine': 'E2 fvm', 'memory_model': mm, 'unwind': unwind, 'cells': info['cells'],
                 'functions': [f for f in info['functions'] if not f.startswith('vm_')]})
    base = ['cbmc', gen, '--mm', mm, '--unwind', str(unwind), '--unwinding-assertions', '--trace',
            '--no-pointer-check', '--no-bounds-check', '--no-div-by-zero-check', '--no-signed-overflow-check',
            '--no-undefined-shift-check', '--no-pointer-primitive-check', '--no-malloc-may-fail', '--verbosity', '8'] + list(extra)
    if unwindset:
        base += ['--unwindset', ','.join('%s:%d' % kv for kv in unwindset.items())]
        meta['unwindset'] = unwindset
    if solver:
        base += solver
    out = [Job(name, base, 'hold', timeout, mem_gb, required, meta)]
    if witness:
        out.append(Job(name + '#witness', base + ['-DWITNESS'], 'witness', timeout, mem_gb, required, meta, witness_of=name))
    return out


def config(pid, name, harness, threads, unwind, mm='sc', srcs=(), defines=(), spec=None, timeout=600, required=True,
           mem_gb=12, bounds='', solver=None, extra_meta=None, unwindset=None):
    """build one harness configuration and return its hold + witness jobs"""
    sp = dict(spec or {})
    sp['threads'] = threads
    outdir = os.path.join(BUILD, pid, name)
    gen, info = build(name, os.path.join(E2, 'harness', harness), list(srcs), sp, outdir, defines=list(defines))
    tops = [t for t in info['top_sites'] if not t.startswith('vm_init')]
    meta = {'bounds': bounds, 'harness': harness, 'defines': list(defines), 'threads': threads,
            'spin_bound': sp.get('spin', 2), 'cell_classes': info.get('cell_classes'),
            'assertions_in_harness': info['assertions']}
    if extra_meta:
        meta.update(extra_meta)
    return jobs(name + '.' + mm, gen, info, mm=mm, unwind=unwind, timeout=timeout, required=required, mem_gb=mem_gb, meta=meta,
                solver=solver, unwindset=unwindset)


KERNEL_SRCS = ['fiber.c', 'fiber_spinlock.c', 'hazard_pointer.c']
KERNEL_REPLACE = {'fiber_manager_yield': 'f_k_yield', 'fiber_scheduler_schedule': 'f_k_schedule',
                  'fiber_context_destroy': 'f_k_context_destroy', 'fiber_context_init': 'f_k_context_init',
                  'fiber_context_init_from_thread': 'f_k_context_init_from_thread'}
KERNEL_ROOTS = ['k_yield', 'k_schedule', 'k_context_destroy', 'k_context_init', 'k_context_init_from_thread']


def kspec(nf, spin=1, **kw):
    """translator spec for a contract-kernel scenario with nf fibers"""
    s = {'fibers': True, 'kthreads': nf, 'replace': dict(KERNEL_REPLACE), 'roots': list(KERNEL_ROOTS), 'spin': spin,
         # a fiber's private manager: statistics and deferred-action slots are touched by that fiber only
         'excl': [['(k_init|vm_init)#calloc0', None, list(range(1, nf + 1))]] + [['@k_in_maint', [t], [t]] for t in range(1, nf + 1)],
         'site_types': {'(k_init|vm_init)#calloc0': '%struct.fiber_manager', '(k_init|vm_init)#calloc1': '%struct.fiber',
                        '(k_init|vm_init)#calloc2': '%struct.mpsc_fifo_node', 'fiber_mutex_init#calloc0': '%struct.mpsc_fifo_node',
                        'mpsc_fifo_init#calloc0': '%struct.mpsc_fifo_node'}}
    s['no_free'] = True
    s.update(kw)
    return s


ABSTRACT_MUTEX = {'fiber_mutex_lock': 'f_a_mutex_lock', 'fiber_mutex_trylock': 'f_a_mutex_trylock', 'fiber_mutex_unlock': 'f_a_mutex_unlock',
                  'fiber_mutex_unlock_internal': 'f_a_mutex_unlock_internal'}


def kspec_amutex(nf, spin=1, **kw):
    """contract kernel + abstract mutex (the guarantee side of C03) for primitives built on fiber_mutex"""
    s = kspec(nf, spin, **kw)
    s['replace'].update(ABSTRACT_MUTEX)
    s['roots'] += ['a_mutex_lock', 'a_mutex_trylock', 'a_mutex_unlock', 'a_mutex_unlock_internal']
    return s


RUNTIME_REPLACE = {'fiber_context_swap': 'f_r_swap', 'fiber_context_init': 'f_r_context_init',
                   'fiber_context_init_from_thread': 'f_r_context_init_from_thread', 'fiber_context_destroy': 'f_r_context_destroy'}
RUNTIME_ROOTS = ['r_swap', 'r_context_init', 'r_context_init_from_thread', 'r_context_destroy']
RUNTIME_SRCS = ['work_stealing_deque.c', 'fiber_mutex.c', 'fiber_spinlock.c', 'hazard_pointer.c']


def rspec(kthreads, spin=1, **kw):
    """translator spec for a full-runtime scenario (real yield / scheduler / deque; context primitives are intrinsics)"""
    s = {'fibers': True, 'kthreads': kthreads, 'replace': dict(RUNTIME_REPLACE), 'roots': list(RUNTIME_ROOTS), 'spin': spin,
         'site_types': {'fiber_manager_create#calloc0': '%struct.fiber_manager', 'fiber_create_from_thread#calloc0': '%struct.fiber',
                        'fiber_create_from_thread#calloc1': '%struct.mpsc_fifo_node', 'fiber_create_no_sched#calloc0': '%struct.fiber',
                        'fiber_create_no_sched#calloc1': '%struct.mpsc_fifo_node', 'mpsc_fifo_init#calloc0': '%struct.mpsc_fifo_node',
                        'fiber_scheduler_init#calloc0': '%struct.fiber_scheduler_wsd', 'wsd_work_stealing_deque_create#malloc0': '%struct.wsd_work_stealing_deque',
                        'wsd_circular_array_create#malloc0': '%struct.wsd_circular_array'}}
    s.update(kw)
    return s
