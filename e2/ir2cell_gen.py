"""code generation half of ir2cell (see ir2cell.py)"""
import json, os, re, sys
from irparse import *

M64 = (1 << 64) - 1
HERE = os.path.dirname(os.path.abspath(__file__))


def cname(s):
    return re.sub(r'\W', '_', s.strip('%@"'))


RMW_OPS = {'xchg': 0, 'add': 1, 'sub': 2, 'and': 3, 'or': 4, 'xor': 5}
KERNEL_INTRINSICS = None   # filled from spec


class FuncGen:
    def __init__(self, tr, fname):
        self.tr, self.fname = tr, fname
        self.fn = tr.m.funcs[fname]
        self.decls = set()
        self.code = []
        self.phis = []
        self.locals = []

    def v(self, ty, s):
        return self.tr.val(ty, s)

    def dest(self, name):
        d = 'v_' + cname(name)
        self.decls.add(d)
        return d

    def run(self):
        tr, fn = self.tr, self.fn
        params = ['W v_' + cname(p) for t, p in fn.params]
        # phis
        for b in fn.blocks:
            for ins in b.insts:
                m = re.match(r'(%[\w.$-]+) = phi (.*?) (\[.*)$', ins)
                if m:
                    t, _ = tr.T.parse(m.group(2))
                    inc = re.findall(r'\[ (.*?), %([\w.$-]+) \]', m.group(3))
                    self.phis.append((b.label, m.group(1), t, inc))
        for b in fn.blocks:
            self.code.append('L_%s: ;' % cname(b.label))
            for ins in b.insts:
                try:
                    self.inst(b.label, ins)
                except IRError:
                    raise
                except Exception as e:
                    raise IRError('cannot translate in @%s: %s  [%s: %s]' % (self.fname, ins, type(e).__name__, e))
        body = '\n  '.join(self.code)
        decl = ('W ' + ', '.join(sorted(self.decls)) + ';') if self.decls else ''
        decl += ' ' + ' '.join(self.locals)
        proto = 'W f_%s(%s)' % (cname(self.fname), ', '.join(params) or 'void')
        return proto + ';', '%s {\n  %s\n  %s\n  return 0;\n}\n' % (proto, decl, body)

    def jump(self, frm, to):
        mv = []
        for blk, dname, ty, inc in self.phis:
            if blk == to:
                for val, pred in inc:
                    if pred == frm:
                        mv.append((self.dest(dname), self.v(ty, val)))
        s = ''
        if len(mv) == 1:
            s = ' %s = %s;' % mv[0]
        elif mv:
            for a, b in mv:
                self.decls.add('t_' + a)
            s = ''.join(' t_%s = %s;' % (a, b) for a, b in mv) + ''.join(' %s = t_%s;' % (a, a) for a, b in mv)
        return '{%s goto L_%s; }' % (s, cname(to))

    def emit(self, s):
        self.code.append(s)

    # ------------------------------------------------------------------
    def inst(self, blk, ins):
        tr, T = self.tr, self.tr.T
        m = re.match(r'(%[\w.$-]+|%"[^"]+") = (.*)$', ins)
        res = None
        ln = ins
        if m:
            res, ln = m.group(1), m.group(2)
        op = ln.split()[0]
        if op == 'phi':
            return
        if op == 'br':
            m = re.match(r'br i1 (.*?), label %([\w.$-]+), label %([\w.$-]+)', ln)
            if m:
                self.emit('if (%s) %s else %s' % (self.v(('int', 1), m.group(1)), self.jump(blk, m.group(2)), self.jump(blk, m.group(3))))
            else:
                m = re.match(r'br label %([\w.$-]+)', ln)
                self.emit(self.jump(blk, m.group(1)))
            return
        if op == 'switch':
            m = re.match(r'switch (.*?), label %([\w.$-]+) \[(.*)\]', ln, re.S)
            t, v, _ = tr.m.parse_tv(m.group(1))
            cases = re.findall(r'(i\d+) (-?\d+), label %([\w.$-]+)', m.group(3))
            s = 'switch (%s) {' % self.v(t, v)
            for ct, cv, cl in cases:
                s += ' case %s: %s' % (self.v(T.parse(ct)[0], cv), self.jump(blk, cl))
            s += ' default: %s }' % self.jump(blk, m.group(2))
            self.emit(s)
            return
        if op == 'ret':
            self.on_return()
            if ln.strip() == 'ret void':
                self.emit('return 0;')
            else:
                t, v, _ = tr.m.parse_tv(ln[4:])
                self.emit('return %s;' % self.v(t, v))
            return
        if op == 'unreachable':
            self.emit('__CPROVER_assume(0); return 0;' if tr.mode == 'cbmc' else 'vm_unreachable(); return 0;')
            return
        if op == 'load':
            body = ln[5:]
            atomic = body.startswith('atomic ')
            body = re.sub(r'^(atomic )?(volatile )?', '', body)
            body = re.sub(r'( syncscope\("[^"]*"\))?( (seq_cst|acquire|release|monotonic|unordered|acq_rel))?, align \d+$', '', body)
            t, k = T.parse(body)
            rest = body[k:].lstrip(', ')
            pt, pv, _ = tr.m.parse_tv(rest)
            sz = T.size_align(t)[0]
            if sz > 8:
                raise IRError('load wider than 8 bytes')
            sid = tr.site_set(self.fname, pt, pv, 'r')
            if isinstance(sid, str):
                self.emit('%s = LDP(pa_%s, %s - %dUL, %d, %d);' % (self.dest(res), sid[1:], self.v(pt, pv), (0xD0000 + int(sid[1:])) << 20, sz, self.psize(sid)))
            else:
                self.emit('%s = LD(%d, %s, %d);' % (self.dest(res), sid, self.v(pt, pv), sz))
            if T.resolve(t)[0] == 'int' and T.bits(t) < sz * 8:
                self.emit('%s = %s;' % (self.dest(res), tr.mask(self.dest(res), T.bits(t))))
            return
        if op == 'store':
            body = ln[6:]
            body = re.sub(r'^(atomic )?(volatile )?', '', body)
            sc = bool(re.search(r' seq_cst, align', body))
            body = re.sub(r'( syncscope\("[^"]*"\))?( (seq_cst|acquire|release|monotonic|unordered|acq_rel))?, align \d+$', '', body)
            vt, vv, k = tr.m.parse_tv(body)
            rest = body[k:].lstrip(', ')
            pt, pv, _ = tr.m.parse_tv(rest)
            sz = T.size_align(vt)[0]
            if sz > 8:
                raise IRError('store wider than 8 bytes')
            sid = tr.site_set(self.fname, pt, pv, 'w')
            if isinstance(sid, str):
                self.emit('STP(pa_%s, %s - %dUL, %s, %d, %d);' % (sid[1:], self.v(pt, pv), (0xD0000 + int(sid[1:])) << 20, self.v(vt, vv), sz, self.psize(sid)))
            else:
                self.emit('ST(%d, %s, %s, %d);%s' % (sid, self.v(pt, pv), self.v(vt, vv), sz, ' VM_FENCE();' if sc else ''))
            return
        if op == 'atomicrmw':
            m = re.match(r'atomicrmw (?:volatile )?(\w+) (.*)$', ln)
            if m.group(1) not in RMW_OPS:
                raise IRError('atomicrmw ' + m.group(1))
            body = re.sub(r'( syncscope\("[^"]*"\))? (seq_cst|acquire|release|monotonic|acq_rel), align \d+$', '', m.group(2))
            pt, pv, k = tr.m.parse_tv(body)
            vt, vv, _ = tr.m.parse_tv(body[k:].lstrip(', '))
            sz = T.size_align(vt)[0]
            self.emit('%s = RMW(%d, %d, %s, %s, %d);' % (self.dest(res), tr.site_set(self.fname, pt, pv), RMW_OPS[m.group(1)],
                                                         self.v(pt, pv), self.v(vt, vv), sz))
            return
        if op == 'cmpxchg':
            m = re.match(r'cmpxchg (weak )?(?:volatile )?(.*)$', ln)
            body = re.sub(r'( syncscope\("[^"]*"\))? \w+ \w+, align \d+$', '', m.group(2))
            pt, pv, k = tr.m.parse_tv(body)
            et, ev, k2 = tr.m.parse_tv(body[k:].lstrip(', '))
            rest = body[k:].lstrip(', ')[k2:].lstrip(', ')
            nt, nv, _ = tr.m.parse_tv(rest)
            sz = T.size_align(et)[0]
            d = self.dest(res)
            self.decls.add(d + '_ok')
            self.emit('%s = CAS(%d, %s, %s, %s, %d, %d); %s_ok = vm_cas_ok;' % (d, tr.site_set(self.fname, pt, pv), self.v(pt, pv),
                                                                    self.v(et, ev), self.v(nt, nv), sz, 1 if m.group(1) else 0, d))
            return
        if op == 'extractvalue':
            m = re.match(r'extractvalue \{ \w+\*?, i1 \} (%[\w.$-]+), (\d)', ln)
            if not m:
                raise IRError('extractvalue form: ' + ln)
            b = 'v_' + cname(m.group(1))
            self.emit('%s = %s;' % (self.dest(res), b if m.group(2) == '0' else b + '_ok'))
            return
        if op == 'getelementptr':
            body = re.sub(r'^getelementptr (inbounds )?', '', ln)
            args = split_top(body)
            bty, _ = T.parse(args[0])
            pt, pv, _ = tr.m.parse_tv(args[1])
            idxs = []
            for a in args[2:]:
                it, iv, _ = tr.m.parse_tv(a)
                idxs.append((it, iv))
            self.emit('%s = %s;' % (self.dest(res), tr.gep(bty, self.v(pt, pv), idxs)[0]))
            return
        if op in ('bitcast', 'ptrtoint', 'inttoptr', 'zext', 'trunc', 'sext', 'freeze'):
            if op == 'freeze':
                t, v, _ = tr.m.parse_tv(ln[7:])
                self.emit('%s = %s;' % (self.dest(res), self.v(t, v)))
                return
            m = re.match(r'\w+ (.*) to (.*)$', ln)
            t, v, _ = tr.m.parse_tv(m.group(1))
            t2, _ = T.parse(m.group(2))
            e = self.v(t, v)
            if op == 'sext':
                e = tr.mask('(W)' + tr.sext(e, T.bits(t)), T.bits(t2))
            elif op == 'trunc':
                e = tr.mask(e, T.bits(t2))
            elif op == 'ptrtoint':
                e = tr.mask(e, T.bits(t2))
            self.emit('%s = %s;' % (self.dest(res), e))
            return
        if op in ('add', 'sub', 'mul', 'and', 'or', 'xor', 'shl', 'lshr', 'ashr', 'udiv', 'urem', 'sdiv', 'srem'):
            body = re.sub(r'^\w+ ((nuw|nsw|exact) )*', '', ln)
            t, a, k = tr.m.parse_tv(body)
            b = body[k:].lstrip(', ')
            bits = T.bits(t)
            A, B = self.v(t, a), self.v(t, b)
            if op in ('sdiv', 'srem'):
                e = '(W)(%s %s %s)' % (tr.sext(A, bits), '/' if op == 'sdiv' else '%', tr.sext(B, bits))
            elif op == 'ashr':
                e = '(W)(%s >> %s)' % (tr.sext(A, bits), B)
            else:
                c = {'add': '+', 'sub': '-', 'mul': '*', 'and': '&', 'or': '|', 'xor': '^', 'shl': '<<', 'lshr': '>>',
                     'udiv': '/', 'urem': '%'}[op]
                e = '(%s %s %s)' % (A, c, B)
            self.emit('%s = %s;' % (self.dest(res), tr.mask(e, bits)))
            return
        if op == 'icmp':
            m = re.match(r'icmp (\w+) (.*)$', ln)
            pred = m.group(1)
            t, a, k = tr.m.parse_tv(m.group(2))
            b = m.group(2)[k:].lstrip(', ')
            bits = T.bits(t)
            A, B = self.v(t, a), self.v(t, b)
            if pred[0] == 's':
                A, B = tr.sext(A, bits), tr.sext(B, bits)
            c = {'eq': '==', 'ne': '!=', 'ult': '<', 'ule': '<=', 'ugt': '>', 'uge': '>=', 'slt': '<', 'sle': '<=',
                 'sgt': '>', 'sge': '>='}[pred]
            self.emit('%s = (%s %s %s);' % (self.dest(res), A, c, B))
            return
        if op == 'select':
            m = re.match(r'select i1 (.*?), (.*)$', ln)
            parts = split_top(m.group(2))
            t1, v1, _ = tr.m.parse_tv(parts[0])
            t2, v2, _ = tr.m.parse_tv(parts[1])
            self.emit('%s = %s ? %s : %s;' % (self.dest(res), self.v(('int', 1), m.group(1)), self.v(t1, v1), self.v(t2, v2)))
            return
        if op == 'alloca':
            s = tr.site_by_key[(self.fname, res)]
            if s.get('private') and tr.mode == 'cbmc':
                n = (s['size'] + 7) // 8
                self.locals.append('W pa_%d[%d];' % (s['id'], n))
                self.emit('%s = %dUL;' % (self.dest(res), (0xD0000 + s['id']) << 20))
                self.emit(' '.join('pa_%d[%d] = nondet_W();' % (s['id'], i) for i in range(n)))
                return
            self.emit('%s = VM_ALLOCA(%d);' % (self.dest(res), s['id']))
            self.allocas = getattr(self, 'allocas', []) + [s['id']]
            return
        if op == 'fence':
            self.emit('VM_FENCE();' if 'seq_cst' in ln else ';')
            return
        if op in ('call', 'tail', 'notail', 'musttail'):
            self.call(res, ln)
            return
        raise IRError('instruction not supported in @%s: %s' % (self.fname, ins))

    def psize(self, sid):
        return (self.tr.sites[int(sid[1:])]['size'] + 7) // 8

    def on_return(self):
        for sid in getattr(self, 'allocas', []):
            self.emit('VM_ALLOCA_END(%d);' % sid)

    # ------------------------------------------------------------------ calls
    def call(self, res, ln):
        tr, T = self.tr, self.tr.T
        body = re.sub(r'^(tail |notail |musttail )?call ', '', ln)
        body = re.sub(r'^((fast|nnan|ninf|nsz|arcp|contract|afn|reassoc|fastcc|ccc|coldcc|noundef|nonnull|signext|zeroext|noalias|'
                      r'dereferenceable\(\d+\)|dereferenceable_or_null\(\d+\)|align \d+) )*', '', body)
        rt, k = T.parse(body)
        rest = body[k:].lstrip()
        if rest.startswith('asm'):
            return self.asm(res, rest)
        # optional function type "(i8*, ...)" is consumed by the type parser as part of rt ('fn'); callee follows
        if rest.startswith('bitcast ('):
            # call through a function-pointer cast of a known function (K&R prototypes): bitcast (T ()* @f to T (...)*)(args)
            j0 = match_close(rest, rest.index('('), '(', ')')
            mm = re.search(r'(@"[^"]+"|@[\w.$-]+)', rest[:j0])
            if not mm:
                raise IRError('call form: ' + ln)
            rest = mm.group(1) + rest[j0 + 1:]
        m = re.match(r'(@"[^"]+"|@[\w.$-]+|%[\w.$-]+)\s*\(', rest)
        if not m:
            raise IRError('call form: ' + ln)
        callee = m.group(1)
        kk = rest.index('(', m.end() - 1)
        j = match_close(rest, kk, '(', ')')
        args = []
        for a in split_top(rest[kk + 1:j]):
            t, v, _ = tr.m.parse_tv(a)
            args.append((t, v))
        cargs = [self.v(t, v) for t, v in args if t[0] != 'metadata']
        d = (self.dest(res) + ' = ') if res else ''
        post = ' if (vm_dead) return 0;' if tr.fiber_mode else ''
        if callee.startswith('%'):
            self.emit('%svm_icall%d(%s);%s' % (d, len(cargs), ', '.join([self.v(('ptr', ('int', 8)), callee)] + cargs), post))
            tr.icall_arities.add(len(cargs))
            return
        name = callee[1:].strip('"')
        if any(name.startswith(p) for p in ('llvm.lifetime', 'llvm.prefetch', 'llvm.dbg.', 'llvm.assume', 'llvm.experimental.noalias', 'llvm.donothing')):
            return
        if name.startswith('llvm.expect'):
            self.emit('%s%s;' % (d, cargs[0]))
            return
        if name.startswith('llvm.memset') or name == 'memset':
            self.memset(args)
            if res:
                self.emit('%s = %s;' % (self.dest(res), cargs[0]))
            return
        if name.startswith('llvm.memcpy') or name.startswith('llvm.memmove') or name in ('memcpy', 'memmove'):
            self.memcpy(args)
            if res:
                self.emit('%s = %s;' % (self.dest(res), cargs[0]))
            return
        if name.startswith('llvm.ctpop.'):
            self.emit('%svm_popcount(%s);' % (d, cargs[0]))
            return
        m2 = re.match(r'llvm\.(umin|umax|smin|smax)\.i(\d+)', name)
        if m2:
            bits = int(m2.group(2))
            a, b = cargs[0], cargs[1]
            if m2.group(1)[0] == 's':
                A, B = tr.sext(a, bits), tr.sext(b, bits)
            else:
                A, B = a, b
            cmpop = '<' if m2.group(1).endswith('min') else '>'
            self.emit('%s(%s %s %s) ? %s : %s;' % (d, A, cmpop, B, a, b))
            return
        if name.startswith('llvm.'):
            raise IRError('intrinsic not supported: ' + name)
        if name in ('malloc', 'calloc', 'memalign', 'aligned_alloc'):
            s = tr.site_by_key[(self.fname, res)] if res else None
            if s is None:
                raise IRError('allocation result unused')
            # memalign/aligned_alloc(alignment, size): an uninitialised allocation like malloc (VM objects are 2^20-aligned)
            size = cargs[0] if name == 'malloc' else cargs[1] if name in ('memalign', 'aligned_alloc') else '(%s * %s)' % (cargs[0], cargs[1])
            self.emit('%sVM_MALLOC(%d, %s, %d);' % (d, s['id'], size, 1 if name == 'calloc' else 0))
            return
        if name == 'free' and tr.spec.get('no_free') and tr.mode == 'cbmc' and self.fname != 'vm_init':
            self.emit('VM_ASSERT(%s == 0UL, "encoding: free() reached in a scenario declared free-less (no verdict)");' % cargs[0])
            return
        if name == 'free':
            self.emit('VM_FREE(%d, %s);' % (tr.site_set(self.fname, args[0][0], args[0][1], 'f') if tr.mode != 'native' else 0, cargs[0]))
            return
        if name == '__errno_location':
            self.emit('%s(%dUL + vm_kt * 8UL);' % (d, tr.errno_obj.base))
            return
        if name in ('abort', 'exit', '__assert_fail', '_exit'):
            self.emit('vm_abort(); return 0;')
            return
        if name == 'vm_assert' or name == 'vm_assert_msg':
            msg = tr.str_text(args[1][1]) if len(args) > 1 else None
            msg = msg or 'harness assertion'
            tr.assert_msgs.append(msg)
            self.emit('VM_ASSERT(%s, "%s");' % (cargs[0], msg.replace('"', "'")))
            return
        if name.startswith('vm_'):
            self.emit('%s%s(%s);%s' % (d, name, ', '.join(cargs), post if name in tr.parking else ''))
            return
        if name in tr.m.funcs and name not in tr.spec.get('replace', {}):
            self.emit('%sf_%s(%s);%s' % (d, cname(name), ', '.join(cargs), post))
            return
        rep = tr.spec.get('replace', {}).get(name)
        if rep:
            self.emit('%s%s(%s);%s' % (d, rep, ', '.join(cargs), post))
            return
        tr.externals.add(name)
        self.emit('%sext_%s(%s);%s' % (d, cname(name), ', '.join(cargs), post))

    def memset(self, args):
        tr = self.tr
        (dt, dv), (vt, vv), (lt, lv) = args[0], args[1], args[2]
        if not re.fullmatch(r'\d+', lv.strip()) or not re.fullmatch(r'-?\d+', vv.strip()):
            raise IRError('memset with non-constant length/value')
        n, b = int(lv), int(vv) & 0xff
        base = self.v(dt, dv)
        off = 0
        while off < n:
            sid = tr.site_set(self.fname, dt, dv, 'w', off - off % 8)
            sz = 8 if n - off >= 8 else 4 if n - off >= 4 else 2 if n - off >= 2 else 1
            pat = int.from_bytes(bytes([b]) * sz, 'little')
            if isinstance(sid, str):
                self.emit('STP(pa_%s, %s + %dUL - %dUL, %dUL, %d, %d);' % (sid[1:], base, off, (0xD0000 + int(sid[1:])) << 20, pat, sz, self.psize(sid)))
            else:
                self.emit('ST(%d, %s + %dUL, %dUL, %d);' % (sid, base, off, pat, sz))
            off += sz

    def memcpy(self, args):
        tr = self.tr
        (dt, dv), (st, sv), (lt, lv) = args[0], args[1], args[2]
        if not re.fullmatch(r'\d+', lv.strip()):
            raise IRError('memcpy with non-constant length')
        n = int(lv)
        off = 0
        while off < n:
            ds, ss = tr.site_set(self.fname, dt, dv, 'w', off - off % 8), tr.site_set(self.fname, st, sv, 'r', off - off % 8)
            sz = 8 if n - off >= 8 else 4 if n - off >= 4 else 2 if n - off >= 2 else 1
            if isinstance(ss, str):
                src = 'LDP(pa_%s, %s + %dUL - %dUL, %d, %d)' % (ss[1:], self.v(st, sv), off, (0xD0000 + int(ss[1:])) << 20, sz, self.psize(ss))
            else:
                src = 'LD(%d, %s + %dUL, %d)' % (ss, self.v(st, sv), off, sz)
            if isinstance(ds, str):
                self.emit('STP(pa_%s, %s + %dUL - %dUL, %s, %d, %d);' % (ds[1:], self.v(dt, dv), off, (0xD0000 + int(ds[1:])) << 20, src, sz, self.psize(ds)))
            else:
                self.emit('ST(%d, %s + %dUL, %s, %d);' % (ds, self.v(dt, dv), off, src, sz))
            off += sz

    def asm(self, res, rest):
        tr = self.tr
        m = re.match(r'asm (sideeffect )?(alignstack )?(inteldialect )?"((?:[^"\\]|\\.)*)", "([^"]*)"\s*\((.*)\)\s*$', rest, re.S)
        if not m:
            raise IRError('asm form: ' + rest)
        tmpl, cons, argtxt = m.group(4), m.group(5), m.group(6)
        tmpl_n = re.sub(r'\\0A|\\09|\s+', ' ', tmpl).strip()
        args = []
        for a in split_top(argtxt):
            t, v, _ = tr.m.parse_tv(a)
            args.append((t, v))
        if tmpl_n == '':
            return
        if tmpl_n == 'pause':
            self.emit('vm_spin();%s' % (' if (vm_dead) return 0;' if tr.fiber_mode or True else ''))
            return
        if re.fullmatch(r'lock; add[lq] \$\$0,0\(%[er]sp\)', tmpl_n):
            self.emit('VM_FENCE();')
            return
        if tmpl_n.startswith('lock cmpxchg16b $1') and 'setz $0' in tmpl_n:
            # operands: outputs "=q"(result) "+m"(*location) ; inputs d=orig.high a=orig.low c=new.high b=new.low
            cl = cons.split(',')
            outs = [c for c in cl if c.startswith('=')]
            ins = [c for c in cl if not c.startswith('=') and not c.startswith('~')]
            # memory operand pointer(s) come first among args for "=*m", then inputs in order
            ai = 0
            memptr = None
            if any(c in ('=*m', '=*qm', '+*m') for c in outs):
                memptr = args[ai]
                ai += 1
            regs = {}
            for c in ins:
                a = args[ai]
                ai += 1
                mm = re.fullmatch(r'\{(\w+)\}', c)
                if mm:
                    regs[mm.group(1)] = a
                elif c in ('*m', '0', '1') and memptr is None:
                    memptr = a
            for r in ('dx', 'ax', 'cx', 'bx'):
                if r not in regs:
                    raise IRError('cmpxchg16b operand for %s not found in "%s"' % (r, cons))
            sid = tr.site_set(self.fname, memptr[0], memptr[1])
            self.emit('%s = CAS2(%d, %s, %s, %s, %s, %s);' % (
                self.dest(res), sid, self.v(*memptr), self.v(*regs['ax']), self.v(*regs['dx']), self.v(*regs['bx']), self.v(*regs['cx'])))
            return
        raise IRError('inline asm not modelled: "%s"' % tmpl)


# ======================================================================= whole file
def const_cells(tr, ty, text, base=0, out=None):
    """flatten a constant initializer into {byte offset: (size, value)}"""
    out = {} if out is None else out
    T = tr.T
    text = (text or 'zeroinitializer').strip()
    if text in ('zeroinitializer', 'null', 'undef', 'poison'):
        return out
    r = T.resolve(ty)
    if r[0] in ('int', 'ptr'):
        size = T.size_align(ty)[0]
        if re.fullmatch(r'-?\d+', text):
            out[base] = (size, int(text) & ((1 << (size * 8)) - 1))
        elif text in ('true', 'false'):
            out[base] = (size, 1 if text == 'true' else 0)
        else:
            e = tr.val(ty, text)
            out[base] = (size, e)
        return out
    if r[0] == 'lit':
        inner = text.strip()
        if inner.startswith('<{'):
            inner = inner[2:-2]
        else:
            inner = inner[1:-1]
        parts = split_top(inner)
        for i, p in enumerate(parts):
            fo, ft = T.field(ty, i)
            t, k = T.parse(p)
            const_cells(tr, ft, p[k:], base + fo, out)
        return out
    if r[0] == 'arr':
        if text.startswith('c"'):
            return out
        parts = split_top(text.strip()[1:-1])
        es = T.size_align(r[2])[0]
        for i, p in enumerate(parts):
            t, k = T.parse(p)
            const_cells(tr, r[2], p[k:], base + i * es, out)
        return out
    raise IRError('initializer for %r' % (ty,))


def generate(Translator, ll, mode, outp, spec, init_objects):
    mod = Module(open(ll).read())
    tr = Translator(mod, mode, spec, init_objects)
    tr.icall_arities = set()
    tr.externals = set()
    tr.assert_msgs = []
    tr.parking = set(spec.get('parking', [])) | {'vm_spin', 'vm_park'}
    roots = ['vm_init', 'vm_setup', 'vm_final'] + ['vm_thread_%d' % t for t in range(1, tr.nthreads + 1)] + spec.get('roots', [])
    if 'vm_init' not in mod.funcs:
        raise IRError('harness lacks vm_init')
    funcs = tr.reachable([r for r in roots if r in mod.funcs])
    # indirectly callable functions referenced only through globals are included by reachable()
    funcs = [f for f in funcs if f not in spec.get('replace', {})]
    tr.collect_puns(funcs)
    tr.setup_globals(funcs)
    tr.scan_sites(funcs)
    tr.build_callgraph(funcs)
    tr.setup_dynamic_objects(funcs)
    tr.M = None
    tr.build_store_map(funcs)
    protos, bodies = [], []
    for f in funcs:
        p, b = FuncGen(tr, f).run()
        protos.append(p)
        bodies.append(b)
    if mode == 'cbmc':
        from ir2cell import classify_cells
        classify_cells(tr, funcs)
    out = []
    out.append('/* generated by ir2cell from %s (mode %s) -- do not edit */' % (os.path.basename(ll), mode))
    out.append('#define VM_NTHREADS %d' % tr.nthreads)
    out.append('#define VM_NKT %d' % spec.get('kthreads', 1))
    out.append('#define VM_SPIN_BOUND %d' % spec.get('spin', 2))
    out.append('#define VM_NOBJ_STATIC %d' % len(tr.objs))
    out.append('#define VM_NSITES %d' % max(1, len(tr.sites)))
    out.append(open(os.path.join(HERE, 'rt', 'vm_%s_pre.h' % mode)).read())
    if mode == 'cbmc':
        out += gen_memory_cbmc(tr)
    else:
        out += gen_memory_native(tr)
    out.append(open(os.path.join(HERE, 'rt', 'vm_%s_post.h' % mode)).read())
    kern = spec.get('kernel')
    if kern:
        out.append(open(os.path.join(HERE, 'rt', kern)).read())
    out += protos
    # indirect call dispatchers
    for n in sorted(tr.icall_arities):
        ps = ', '.join('W a%d' % i for i in range(n))
        cs = []
        for f, fid in tr.fn_ids.items():
            if len(mod.funcs[f].params) == n and f in tr.addr_taken:
                cs.append('case %dUL: return f_%s(%s);' % (fid, cname(f), ', '.join('a%d' % i for i in range(n))))
        out.append('static W vm_icall%d(W fp%s%s){ switch(fp){ %s default: VM_ASSERT(0, "indirect call to unknown function"); return 0; } }'
                   % (n, ', ' if n else '', ps, ' '.join(cs)))
    out += bodies
    out += gen_main(tr, mod)
    open(outp, 'w').write('\n'.join(out) + '\n')
    info = {
        'functions': funcs, 'objects': [(o.name, o.size) for o in tr.objs], 'cells': sum(o.ncells for o in tr.objs),
        'sets': len(tr.set_keys), 'top_sites': sorted(set(tr.top_sites)), 'externals': sorted(tr.externals),
        'assertions': sorted(set(tr.assert_msgs)),
        'sites': [s['key'] for s in tr.sites],
        'set_sizes': [len(tr.cells_for_key(k)) for k in tr.set_keys] if mode == 'cbmc' else [],
        'cell_classes': getattr(tr, 'class_stats', {}),
    }
    json.dump(info, open(outp + '.info.json', 'w'), indent=1)


def cell_init(tr, o, c):
    snap = getattr(o, 'snap', None)
    if snap is None or c >= len(snap):
        return None
    return snap[c]


def gen_memory_cbmc(tr):
    out = []
    cls = tr.cell_class
    tr.shadow_in = {t: [] for t in range(1, tr.nthreads + 1)}
    tr.shadow_out = {t: [] for t in range(1, tr.nthreads + 1)}
    tr.nondet_init = []
    stats = {'ro_const': 0, 'ro_sym': 0, 'excl': 0, 'shared': 0}
    arms_ld, arms_st = {}, {}
    for o in tr.objs:
        decl = []
        for c in range(o.ncells):
            cell = (o.oid, c)
            k = cls.get(cell, 'shared')
            init = cell_init(tr, o, c)
            sym = init is None or cell in tr.setup_written
            m = o.cell(c)
            addr = o.base + 8 * c
            live = ('VM_LIVE(lv_%d); ' % o.oid) if o.dies else ''
            if init is not None:
                decl.append('%s = %dUL' % (m, init))
            else:
                decl.append(m)
                if hasattr(o, 'snap') or o.kind in ('heap', 'alloca'):
                    tr.nondet_init.append('%s = nondet_W();' % m)
            if k == 'ro' and not sym:
                stats['ro_const'] += 1
                arms_ld[cell] = 'case %dUL: %sreturn %dUL;' % (addr, live, init)
                arms_st[cell] = 'case %dUL: VM_ASSERT(0, "encoding: store to a cell classified read-only (no verdict)"); return;' % addr
            elif k == 'ro':
                stats['ro_sym'] += 1
                sh = 's%d_%d' % (o.oid, c)
                out.append('__CPROVER_thread_local W %s;' % sh)
                for t in tr.shadow_in:
                    tr.shadow_in[t].append('%s = %s;' % (sh, m))
                arms_ld[cell] = 'case %dUL: %sreturn vm_tid ? %s : %s;' % (addr, live, sh, m)
                arms_st[cell] = 'case %dUL: if (vm_tid) VM_ASSERT(0, "encoding: store to a cell classified read-only (no verdict)"); %s = v; return;' % (addr, m)
            elif isinstance(k, tuple):
                stats['excl'] += 1
                t = k[1]
                sh = 's%d_%d' % (o.oid, c)
                out.append('__CPROVER_thread_local W %s;' % sh)
                tr.shadow_in[t].append('%s = %s;' % (sh, m if sym else '%dUL' % init))
                tr.shadow_out[t].append('%s = %s;' % (m, sh))
                if cell in tr.guarded:
                    # declared exclusivity: other threads never get to touch the shared copy (no event), they trip an assertion
                    g = 'VM_ASSERT(0, "encoding: cell declared exclusive to one thread is accessed by another (no verdict)");'
                    arms_ld[cell] = 'case %dUL: %sif (vm_tid == %d) return %s; if (vm_tid == 0) return %s; %s return 0;' % (addr, live, t, sh, m, g)
                    arms_st[cell] = 'case %dUL: %sif (vm_tid == %d) { %s = v; return; } if (vm_tid == 0) { %s = v; return; } %s return;' % (addr, live, t, sh, m, g)
                else:
                    arms_ld[cell] = 'case %dUL: %sreturn vm_tid == %d ? %s : %s;' % (addr, live, t, sh, m)
                    arms_st[cell] = 'case %dUL: %sif (vm_tid == %d) %s = v; else %s = v; return;' % (addr, live, t, sh, m)
            else:
                stats['shared'] += 1
                arms_ld[cell] = 'case %dUL: %sreturn %s;' % (addr, live, m)
                arms_st[cell] = 'case %dUL: %s%s = v; return;' % (addr, live, m)
        out.append('/* obj %d %s size %d */ W %s;' % (o.oid, o.name, o.size, ', '.join(decl)))
        if o.dies:
            lv0 = getattr(o, 'init_live', 0) if hasattr(o, 'snap') else 0
            out.append('_Bool lv_%d = %d;' % (o.oid, 1 if lv0 else 0))
    tr.class_stats = stats
    conds = ' || '.join('((a >> 20) == %dUL && (a & 0xfffffUL) < %dUL)' % (o.oid + 1, o.size) for o in tr.objs if not getattr(o, 'dead', False)) or '0'
    out.append('static _Bool vm_inrange(W a){ return %s; }' % conds)
    for k, key in enumerate(tr.set_keys):
        cells = tr.cells_for_key(key)
        ld = ' '.join(arms_ld[(o.oid, c)] for o, c in cells)
        st = ' '.join(arms_st[(o.oid, c)] for o, c in cells)
        desc = 'TOP' if key is None else ' '.join(sorted('%s+%s' % (a, b) for a, b in key))[:150]
        desc = '[set %d: %s]' % (k, desc.replace('"', '').replace('\\', ''))
        inn = ' '.join('case %dUL:' % (o.base + 8 * c) for o, c in cells)
        out.append('static _Bool in_%d(W a){ switch(a){ %s return 1; default: return 0; } }' % (k, inn) if cells else 'static _Bool in_%d(W a){ return 0; }' % k)
        out.append('static W cl_%d(W a){ switch(a){ %s default: VM_BADADDR(a, "%s"); return 0; } }' % (k, ld, desc))
        out.append('static void cs_%d(W a, W v){ switch(a){ %s default: VM_BADADDR(a, "%s"); return; } }' % (k, st, desc))
        objs = []
        for o, c in cells:
            if c == 0 and o.dies and o.kind == 'heap' and o not in objs:
                objs.append(o)
        fr = ' '.join('case %dUL: VM_ASSERT(lv_%d, "memory safety: double free or free of unallocated object"); lv_%d = 0; return;'
                      % (o.base, o.oid, o.oid) for o in objs)
        out.append('static void fr_%d(W a){ switch(a){ case 0UL: return; %s default: if (vm_inrange(a) && (a & 0xfffffUL) == 0) VM_ASSERT(0, "encoding: free() target outside candidate set (no verdict)"); vm_badfree(a); return; } }' % (k, fr))
    out.append('#define SETS(X) ' + ' '.join('X(%d)' % k for k in range(len(tr.set_keys))))
    for s in tr.sites:
        if s['kind'] == 'heap':
            body = 'static W vm_malloc_%d(W size, int zero){ ' % s['id']
            for tid, objs in s.get('pool', {}).items():
                body += 'if (vm_tid == %d) { switch (vm_cnt_%d++) { %s default: break; } } ' % (
                    tid, s['id'], ' '.join('case %d: VM_ASSERT(size <= %dUL, "encoding: pool object too small"); %s if (zero) { %s } return %dUL;'
                                           % (i, o.size, ('lv_%d = 1;' % o.oid) if o.dies else '', ' '.join('cs_any(%dUL, 0);' % (o.base + 8 * c) for c in range(o.ncells)), o.base) for i, o in enumerate(objs)))
            body += 'VM_ASSERT(0, "encoding: allocation pool exhausted (declare a pool for site %s)"); __CPROVER_assume(0); return 0; }' % s['key']
            out.append('__CPROVER_thread_local int vm_cnt_%d;' % s['id'])
            out.append('static void cs_any(W a, W v);')
            out.append(body)
        elif not s.get('private'):
            objs = s.get('pool', {})
            out.append('static W vm_alloca_%d(void){ switch (vm_tid) { %s default: VM_ASSERT(0, "encoding: alloca site %s reached by unexpected thread"); return 0; } }'
                       % (s['id'], ' '.join('case %d: %s return %dUL;' % (t, ('lv_%d = 1;' % o[0].oid) if o[0].dies else '', o[0].base) for t, o in objs.items()), s['key']))
            out.append('static void vm_alloca_end_%d(void){ switch (vm_tid) { %s default: return; } }'
                       % (s['id'], ' '.join('case %d: %s return;' % (t, ('lv_%d = 0;' % o[0].oid) if o[0].dies else '') for t, o in objs.items())))
    # generic store used for zeroing pool objects (pool cells are always class shared)
    allst = ' '.join(arms_st[(o.oid, c)] for o in tr.objs if o.kind == 'heap' and not hasattr(o, 'snap') for c in range(o.ncells))
    out.append('static void cs_any(W a, W v){ switch(a){ %s default: return; } }' % allst)
    out.append('#define VM_MALLOC(site, size, zero) vm_malloc_##site(size, zero)')
    out.append('#define VM_ALLOCA(site) vm_alloca_##site()')
    out.append('#define VM_ALLOCA_END(site) vm_alloca_end_##site()')
    for t in tr.shadow_in:
        out.append('static void vm_shadow_in_%d(void){ %s }' % (t, ' '.join(tr.shadow_in[t])))
        out.append('static void vm_shadow_out_%d(void){ %s }' % (t, ' '.join(tr.shadow_out[t])))
    return out


def gen_memory_native(tr):
    out = []
    out.append('static const unsigned long vm_static_size[] = { %s };' % ', '.join(str(o.size) for o in tr.objs) if tr.objs else 'static const unsigned long vm_static_size[] = {0};')
    out.append('static const char* vm_site_name[] = { %s };' % (', '.join('"%s"' % s['key'] for s in tr.sites) or '""'))
    out.append('static const unsigned long vm_site_size[] = { %s };' % (', '.join(str(s.get('size', 0)) for s in tr.sites) or '0'))
    return out


def gen_main(tr, mod):
    out = []
    T = tr.T
    init = []
    for o in tr.objs:
        if o.kind in ('global', 'tls') and o.init:
            reps = tr.spec.get('kthreads', 1) if o.kind == 'tls' else 1
            for rep in range(reps):
                cells = {}
                for off, (size, val) in const_cells(tr, o.ty, o.init).items():
                    off += rep * getattr(o, 'tls_stride', 0)
                    cells.setdefault(off // 8, []).append((off % 8, size, val))
                for c, parts in cells.items():
                    e = ' | '.join('((W)(%s) << %d)' % (v if isinstance(v, str) else '%dUL' % v, sh * 8) for sh, size, v in parts)
                    init.append('VM_INIT_CELL(%d, %d, %s);' % (o.oid, c, e))
    if tr.mode == 'cbmc':
        for t in range(1, tr.nthreads + 1):
            out.append('void thr_%d(void){ vm_thread_begin(%d); vm_shadow_in_%d(); f_vm_thread_%d(); vm_shadow_out_%d(); vm_thread_end(%d); }' % (t, t, t, t, t, t))
        m = ['int main(void){', '  vm_tid = 0; vm_kt = 0;', '  ' + ' '.join(tr.nondet_init)]
        if 'vm_setup' in mod.funcs:
            m.append('  f_vm_setup();')
        m.append('  vm_start();')
        for t in range(1, tr.nthreads + 1):
            m.append('  __CPROVER_ASYNC_%d: thr_%d();' % (t, t))
        m.append('  vm_monitor();')
        if 'vm_final' in mod.funcs:
            m.append('  f_vm_final();')
        m.append('#ifdef WITNESS')
        m.append('  __CPROVER_assert(0, "witness: final state reachable with all threads finished");')
        m.append('#endif')
        m.append('  return 0; }')
        out += m
    else:
        out.append('void vm_static_init(void){ %s }' % '\n  '.join(init))
        out.append('int main(int argc, char** argv){ vm_native_setup(); vm_static_init(); f_vm_init(); vm_dump_allocs(); %s return vm_native_run(argc, argv); }' % '')
        out.append('void (*vm_thread_fn[VM_NTHREADS + 1])(void) = { 0 %s };' % ''.join(', (void(*)(void))f_vm_thread_%d' % t for t in range(1, tr.nthreads + 1)))
        out.append('void vm_call_final(void){ %s }' % ('f_vm_final();' if 'vm_final' in mod.funcs else ''))
    return out
