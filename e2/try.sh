#!/bin/bash
# usage: try.sh <harness-name> <propdir> <threads> <unwind> [mm] [extra defines...]  (developer helper)
cd /verif && python3 - "$@" <<'PY'
import sys; sys.path.insert(0,'e2'); sys.path.insert(0,'lib')
import fvm, json
name, pdir, thr = sys.argv[1], sys.argv[2], int(sys.argv[3])
spec = json.loads(sys.argv[6]) if len(sys.argv) > 6 else {}
spec.setdefault('threads', thr)
srcs = spec.pop('srcs', [])
gen, info = fvm.build(name, 'e2/harness/%s.c' % name, srcs, spec, 'build/' + pdir, defines=spec.pop('defines', []))
print('cells', info['cells'], 'sets', info['set_sizes'], 'top', info['top_sites'])
PY
[ $? -ne 0 ] && exit 1
cd /verif/build/$2
F="$UWS --unwind $4 --unwinding-assertions --no-pointer-check --no-bounds-check --no-div-by-zero-check --no-signed-overflow-check --no-undefined-shift-check --no-pointer-primitive-check"
MM=${5:-sc}
( /usr/bin/time -f "hold: %es %MKB" timeout 600 cbmc $1.cbmc.c --mm $MM $F 2>&1 | grep -E "FAILURE|VERIF|variables|time -f|hold:" ) &
( /usr/bin/time -f "witness: %es %MKB" timeout 600 cbmc $1.cbmc.c -DWITNESS --mm $MM $F 2>&1 | grep -E "VERIF|witness" ) &
wait
