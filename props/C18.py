from vlib import *
INFO = dict(
 functions=['fiber_spinlock_lock', 'fiber_spinlock_trylock', 'fiber_spinlock_unlock'],
 stubs=['fiber_manager_get() returns a dummy manager (only spin_count statistics is touched)'],
 bounds='E1: one operation from an arbitrary 2x32-bit lock word (all 2^64 values incl. wrap-around)',
 outside='more than the stated number of contenders (E2 part)',
 assumptions=[])

def plan(tier, ctx):
    src = [VERIF + '/e1/C18/spin_e1.c']
    jobs = []
    for h in ('h_trylock', 'h_lock_free', 'h_unlock'):
        jobs += pair('e1.' + h, src, h, unwind=2, timeout=120, meta={'engine': 'E1 cbmc-src', 'bounds': 'all 2^64 lock words'})
    # lock on a held lock must never return: no path reaches the assert within the unwinding (no unwinding assertion here)
    a = cbmc_argv(src, 'h_lock_held_spins', unwind=4, base=False, extra=['--drop-unused-functions', '--trace', '--no-malloc-may-fail', '--no-unwinding-assertions'])
    jobs.append(Job('e1.h_lock_held_spins', a, 'hold', 120, meta={'engine': 'E1 cbmc-src', 'bounds': '3 spin iterations, arbitrary word with ticket!=users'}))
    return jobs
