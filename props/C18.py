from vlib import *
INFO = dict(
 functions=['fiber_spinlock_lock', 'fiber_spinlock_trylock', 'fiber_spinlock_unlock'],
 stubs=['fiber_manager_get() returns a dummy manager (only spin_count statistics is touched)'],
 bounds='E1: one operation from an arbitrary 2x32-bit lock word (all 2^64 values incl. wrap-around)',
 outside='more than the stated number of contenders (E2 part)',
 assumptions=[])

def plan(tier, ctx):
    src = [VERIF + '/e1/C18/spin_e1.c']
    jobs = []
    for h in ('h_trylock', 'h_lock_free', 'h_unlock'):
        jobs += pair('e1.' + h, src, h, unwind=2, timeout=120, meta={'engine': 'E1 cbmc-src', 'bounds': 'all 2^64 lock words'})
    # lock on a held lock must never return: no path reaches the assert within the unwinding (no unwinding assertion here)
    a = cbmc_argv(src, 'h_lock_held_spins', unwind=4, base=False, extra=['--drop-unused-functions', '--trace', '--no-malloc-may-fail', '--no-unwinding-assertions'])
    jobs.append(Job('e1.h_lock_held_spins', a, 'hold', 120, meta={'engine': 'E1 cbmc-src', 'bounds': '3 spin iterations, arbitrary word with ticket!=users'}))
    return jobs


import sys
sys.path.insert(0, VERIF + '/e2')
import fvm
_e1_plan = plan
INFO['functions'] += ['(E2) fiber_spinlock_lock/trylock/unlock under contention']
INFO['bounds'] += ' | E2: 2-3 contenders (lock,lock[,lock|trylock]), initial ticket in {0, 2^32-2, 2^32-1} (wrap during the run), spin bound 1, SC and TSO'
INFO['assumptions'] += ['x86-TSO mapping of atomics; 32-bit stores into the 64-bit lock word are modelled as atomic read-modify-write of the containing cell (stronger than TSO for that store)']


def plan(tier, ctx):
    S = {'spin': 1}
    src = ['fiber_spinlock.c']
    j = _e1_plan(tier, ctx)
    j += fvm.config('C18', 'spin_2', 'spin.c', 2, 4, 'sc', srcs=src, spec=S, bounds='2 lockers')
    j += fvm.config('C18', 'spin_2', 'spin.c', 2, 4, 'tso', srcs=src, spec=S, bounds='2 lockers, x86-TSO')
    j += fvm.config('C18', 'spin_2_try', 'spin.c', 3, 4, 'sc', srcs=src, defines=['T3_TRY'], spec=S, bounds='2 lockers + 1 trylock', timeout=900)
    if tier == 'thorough':
        j += fvm.config('C18', 'spin_3', 'spin.c', 3, 4, 'sc', srcs=src, defines=['T3_LOCK'], spec=S, bounds='3 lockers', timeout=1800, required=False)
        j += fvm.config('C18', 'spin_2_try', 'spin.c', 3, 4, 'tso', srcs=src, defines=['T3_TRY'], spec=S, bounds='2 lockers + trylock, TSO', timeout=1800, required=False)
    return j
