from vlib import *
import sys
sys.path.insert(0, VERIF + '/e2')
import fvm

INFO = dict(
 functions=['fiber_mutex_init', 'fiber_mutex_lock', 'fiber_mutex_trylock', 'fiber_mutex_unlock', 'fiber_mutex_unlock_internal',
            'fiber_manager_wait_in_mpsc_queue', 'fiber_manager_wake_from_mpsc_queue', 'fiber_manager_do_maintenance',
            'mpsc_fifo_push', 'mpsc_fifo_trypop', 'fiber_yield'],
 stubs=['E1 counter step (e1/C03/mutex_e1.c): every atomic operation of fiber_mutex.c on mutex->counter preceded by interference (macro redirect of the stdatomic generics): further announcements, and - while the operation does not hold the mutex - any state 1-n; weak CAS may fail spuriously; wait/wake record their arguments', 'contract kernel (e2/include/kernel_contract.h): fiber_manager_yield and fiber_scheduler_schedule are replaced by the contract '
        'that C01/C02 establish for them (suspend = context saved, deferred actions run by the successor, resume only after schedule(); '
        'schedule asserts one wake-up per run); every fiber has a private manager'],
 assumptions=['assume-guarantee: the runtime contract of C01/C02 holds for yield/schedule', 'x86-TSO mapping of atomics; -O1 IR of clang-14'],
 bounds='2-3 fibers, each lock (or trylock) / critical section / unlock, 1-2 rounds; spin bound 1; all interleavings (SC), 2 fibers also TSO',
 outside='more fibers / rounds; mutex destruction')


def plan(tier, ctx):
    src = ['fiber_mutex.c'] + fvm.KERNEL_SRCS
    j = []
    for h in ('h_representation', 'h_lock', 'h_trylock', 'h_unlock_internal', 'h_unlock'):
        j += pair('e1.mutex.' + h, [VERIF + '/e1/C03/mutex_e1.c'], h, unwind=4, timeout=300,
                  meta={'engine': 'E1 cbmc-src', 'bounds': 'one operation from any number of contenders < 2^20, arbitrary interference before each atomic step (any state while not holding, announcements only while holding), spurious weak-CAS failure'})
    j += fvm.config('C03', 'mutex_lock_try', 'mutex.c', 2, 4, 'sc', srcs=src, defines=['NF=2', 'T2_TRY'], spec=fvm.kspec(2), bounds='1 locker + 1 trylock', timeout=1800)
    if tier == 'thorough':
        # 9-12 min each: beyond the 15-minute budget of an every-change run, so the quick tier keeps the E1 counter step and the locker+trylock scenario
        j += fvm.config('C03', 'mutex_2', 'mutex.c', 2, 4, 'sc', srcs=src, defines=['NF=2'], spec=fvm.kspec(2), bounds='2 fibers lock/unlock', timeout=2400)
        j += fvm.config('C03', 'mutex_2', 'mutex.c', 2, 4, 'tso', srcs=src, defines=['NF=2'], spec=fvm.kspec(2), bounds='2 fibers, TSO', timeout=3000)
    if tier == 'thorough':
        j += fvm.config('C03', 'mutex_3try', 'mutex.c', 3, 4, 'sc', srcs=src, defines=['NF=3', 'T3_TRY'], spec=fvm.kspec(3), bounds='2 lockers + 1 trylock', timeout=3000, required=False)
        j += fvm.config('C03', 'mutex_3', 'mutex.c', 3, 4, 'sc', srcs=src, defines=['NF=3'], spec=fvm.kspec(3), bounds='3 fibers', timeout=1800, required=False)
        j += fvm.config('C03', 'mutex_2x2', 'mutex.c', 2, 5, 'sc', srcs=src, defines=['NF=2', 'ROUNDS=2'], spec=fvm.kspec(2), bounds='2 fibers x 2 rounds', timeout=1800, required=False)
    return j
