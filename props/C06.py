from vlib import *

INFO = dict(
 functions=['fiber_semaphore_init', 'fiber_semaphore_wait', 'fiber_semaphore_trywait', 'fiber_semaphore_post', 'fiber_semaphore_post_internal',
            'fiber_semaphore_getvalue'],
 stubs=['every atomic operation of fiber_semaphore.c on semaphore->counter -> the same operation preceded by arbitrary interference '
        '(macro redirect of the <stdatomic.h> generics, library untouched): other fibers may have replaced the counter by any value in '
        '(-2^30, 2^30); a weak compare-exchange may fail spuriously',
        'fiber_manager_wait_in_mpmc_queue: records the queue and returns (resumption is the waking post\'s step)',
        'fiber_manager_wake_from_mpmc_queue(manager, fifo, count): records the queue; returns 0 or 1 for count == 0 (0 = the announced waiter is '
        'not enqueued yet) and 1..count otherwise',
        'fiber_yield, fiber_manager_get, fiber_manager_get_mpmc_node, fiber_manager_get_hazard_record: trivial'],
 assumptions=['rely/guarantee: the wait queue hands every fiber pushed by fiber_manager_wait_in_mpmc_queue to exactly one '
              'fiber_manager_wake_from_mpmc_queue (that is property C13 - the real mpmc_fifo over hazard pointers - which this framework could '
              'NOT decide; it is assumed here, not proved)',
              'counter values stay inside (-2^30, 2^30)'],
 bounds='one operation from an arbitrary counter value, arbitrary interference before each of its atomic steps, at most MAX_OPS (quick 4, '
        'thorough 7) atomic steps per operation (bounds the retries of trywait/post under interference)',
 outside='the mpmc wait queue and hazard pointers (C13, not decided): a fiber lost or duplicated by the queue is not visible here; the '
         'concurrent whole-semaphore scenarios (e2/harness/sem.c) had no verdict and are not part of the claim; liveness of the post retry '
         'loop while an announced waiter never enqueues; more than MAX_OPS retries; fiber_semaphore_destroy')


def plan(tier, ctx):
    src = [VERIF + '/e1/C06/sem_e1.c']
    mo = 4 if tier == 'quick' else 7
    jobs = []
    for h in ('h_wait', 'h_trywait', 'h_post_internal', 'h_post'):
        jobs += pair('e1.sem.' + h, src, h, unwind=mo + 2, timeout=600, defines=['MAX_OPS=%d' % mo],
                     meta={'engine': 'E1 cbmc-src', 'bounds': 'arbitrary counter in (-2^30, 2^30), arbitrary interference, <= %d atomic steps' % mo})
    return jobs
