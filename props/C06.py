from vlib import *
import sys
sys.path.insert(0, VERIF + '/e2')
import fvm

INFO = dict(
 functions=['fiber_semaphore_init', 'fiber_semaphore_wait', 'fiber_semaphore_trywait', 'fiber_semaphore_post', 'fiber_semaphore_post_internal',
            'fiber_semaphore_getvalue', 'fiber_manager_wait_in_mpmc_queue', 'fiber_manager_wake_from_mpmc_queue', 'fiber_manager_get_mpmc_node',
            'fiber_manager_get_hazard_record', 'mpmc_fifo_push', 'mpmc_fifo_trypop', 'hazard_pointer_using', 'hazard_pointer_free',
            'lockfree_ring_buffer_trypop', 'fiber_manager_do_maintenance'],
 stubs=['contract kernel (see C03)', 'the node pool fiber_free_mpmc_nodes is pre-created with 2 slots (instead of the lazily created 1024-slot ring)'],
 assumptions=['assume-guarantee: the runtime contract of C01/C02 holds for yield/schedule', 'x86-TSO mapping of atomics; -O1 IR of clang-14'],
 bounds='initial value symbolic in {0,1}; 1 poster + 1-2 waiters (the second optionally trywait); spin bound 1; all interleavings (SC)',
 outside='more posters/waiters, larger initial values, hazard-pointer scans (retire threshold is not reached within the bound)')


def _spec(nf):
    s = fvm.kspec(nf)
    s['site_types'].update({'hazard_pointer_thread_record_create_and_push#calloc0': '%struct.hazard_pointer_thread_record',
                            'fiber_manager_\\w+#malloc\\d+': '%struct.mpmc_fifo_node', 'vm_init#malloc\\d+': '%struct.mpmc_fifo_node'})
    s['excl'] += [['create_and_push#calloc0', [3, 4, 5, 6], list(range(1, nf + 1))]]
    s['pools'] = [['fiber_manager_\\w+#malloc\\d+', t, 1, 48] for t in range(1, nf + 1)]
    return s


def _aspec(nf):
    s = _spec(nf)
    return s


def plan(tier, ctx):
    src = ['fiber_semaphore.c', 'fiber_mutex.c'] + fvm.KERNEL_SRCS
    j = []
    A = ['ABSTRACT_QUEUE']
    j += fvm.config('C06', 'semA_1w1p', 'sem.c', 2, 4, 'sc', srcs=src, defines=A + ['NWAIT=1', 'NPOST=1', 'V0MAX=1', 'TRYLAST=0'], spec=_aspec(2), bounds='abstract wait queue; 1 waiter, 1 poster, v0 in {0,1}', timeout=1800)
    j += fvm.config('C06', 'semA_try1p', 'sem.c', 3, 4, 'sc', srcs=src, defines=A + ['NWAIT=2', 'NPOST=1', 'V0MAX=0', 'TRYLAST=1'], spec=_aspec(3), bounds='abstract wait queue; 1 waiter + 1 trywait, 1 poster, v0 = 0', timeout=1800)
    j += fvm.config('C06', 'semA_2w1p', 'sem.c', 3, 4, 'sc', srcs=src, defines=A + ['NWAIT=2', 'NPOST=1', 'V0MAX=1', 'TRYLAST=0'], spec=_aspec(3), bounds='abstract wait queue; 2 waiters, 1 poster, v0 in {0,1}', timeout=2400, required=False)
    if tier == 'thorough':
        j += fvm.config('C06', 'semA_1w2p', 'sem.c', 3, 4, 'sc', srcs=src, defines=A + ['NWAIT=1', 'NPOST=2', 'V0MAX=1', 'TRYLAST=0'], spec=_aspec(3), bounds='abstract wait queue; 1 waiter, 2 posters', timeout=3000, required=False)
        j += fvm.config('C06', 'semA_2w2p', 'sem.c', 4, 4, 'sc', srcs=src, defines=A + ['NWAIT=2', 'NPOST=2', 'V0MAX=1', 'TRYLAST=0'], spec=_aspec(4), bounds='abstract wait queue; 2 waiters, 2 posters', timeout=3600, required=False, mem_gb=24)
    return j
    j += fvm.config('C06', 'sem_1w1p', 'sem.c', 2, 4, 'sc', srcs=src, defines=['NWAIT=1', 'NPOST=1', 'V0MAX=1', 'TRYLAST=0'], spec=_spec(2), bounds='1 waiter, 1 poster, v0 in {0,1}', timeout=1800)
    j += fvm.config('C06', 'sem_try1p', 'sem.c', 3, 4, 'sc', srcs=src, defines=['NWAIT=2', 'NPOST=1', 'V0MAX=0', 'TRYLAST=1'], spec=_spec(3), bounds='1 waiter + 1 trywait, 1 poster, v0 = 0', timeout=1800, required=False)
    if tier == 'thorough':
        j += fvm.config('C06', 'sem_2w1p', 'sem.c', 3, 4, 'sc', srcs=src, defines=['NWAIT=2', 'NPOST=1', 'V0MAX=1', 'TRYLAST=0'], spec=_spec(3), bounds='2 waiters, 1 poster, v0 in {0,1}', timeout=3600, required=False, mem_gb=24)
    return j
