from vlib import *
import sys
sys.path.insert(0, VERIF + '/e2')
import fvm

INFO = dict(
 functions=['fiber_join', 'fiber_tryjoin', 'fiber_detach', 'fiber_mark_completed', 'fiber_join_routine', 'fiber_destroy',
            'fiber_manager_set_and_wait', 'fiber_manager_clear_or_wait', 'fiber_manager_do_maintenance'],
 stubs=['contract kernel (see C03); fiber_context_destroy replaced by a model that frees the stack object once',
        'the target fiber is created directly in state RUNNING on its own manager (creation is not part of the scenario)'],
 assumptions=['assume-guarantee: the runtime contract of C01/C02 holds for yield/schedule', 'x86-TSO mapping of atomics; -O1 IR of clang-14'],
 bounds='target fiber + ONE other fiber acting on it: join, join with a NULL result pointer, 2 x tryjoin, or detach followed by join; spin bound 1; all interleavings (SC) of the actor with the fiber\'s completion and both context switches',
 outside='two fibers acting on the same fiber concurrently (join+join, join+tryjoin, join/tryjoin+detach): libfiber follows pthreads, where that is undefined - once one actor has succeeded the control block is reclaimed and the other actor\'s accesses cannot be made safe by the library (DESIGN.md section 9); joining maintenance/thread fibers')

J, Y, D, N = 1, 2, 3, 4


def _spec(nf):
    s = fvm.kspec(nf)
    s['no_free'] = False
    return s


def plan(tier, ctx):
    src = ['fiber_mutex.c', 'fiber_spinlock.c', 'hazard_pointer.c']
    j = []
    def cfg(name, acts, **kw):
        nf = 1 + len(acts)
        d = ['NF=%d' % nf] + ['A%d=%d' % (i + 2, a) for i, a in enumerate(acts)] + list(kw.pop('defines', []))
        return fvm.config('C04', name, 'join.c', nf, 4, 'sc', srcs=src, defines=d, spec=_spec(nf), bounds='target + ' + name, timeout=kw.pop('timeout', 1200), **kw)
    j += cfg('join', [J])
    j += cfg('detach', [D])
    if tier == 'thorough':
        j += cfg('join_noresult', [N], timeout=1500, required=False)
        # the join scenario with kernel-thread migration (K_MIGRATE in kernel_contract.h): whenever a fiber comes back from a yield it may be
        # running under another manager; no verdict inside 20 min so far (stretch)
        j += cfg('join_migrate', [J], defines=['K_MIGRATE'], timeout=1500, required=False)
        j += cfg('tryjoin', [Y], timeout=1500, required=False)
        # two CONCURRENT actors on one fiber (join+join, join+tryjoin, join+detach, tryjoin+detach) are not registered: see DESIGN.md section 9
    return j
