from vlib import *

INFO = dict(
 functions=['mpmc_fifo_init', 'mpmc_fifo_push', 'mpmc_fifo_trypop', 'hazard_pointer_using', 'hazard_pointer_done_using', 'hazard_pointer_free'],
 stubs=['environment points (macro redirects placed between the library headers, library untouched): after every atomic_load_explicit, '
        'before and after every compare-exchange of mpmc_fifo.h, before every hazard_pointer_using, at its store_load_barrier() and after '
        'every hazard_pointer_done_using; at each point the environment may pop (retiring the old dummy, optionally reclaiming it at once), '
        'push a free or recycled node (link written at once or later), complete another pusher\'s link, or reclaim a retired node and '
        'overwrite its fields with arbitrary values',
        'compare-exchange: performed as written on the queue word; a weak one may fail spuriously (SPUR_BUDGET)',
        'hazard_pointer_scan: empty (the retire threshold is not reached within one operation)'],
 assumptions=['hazard-pointer contract (property C14): a retired node is NOT reclaimed while a hazard pointer published by the operation before '
              'the node\'s retirement still covers it; every other retired node may be reclaimed and reused at any time',
              'reading a reclaimed node returns arbitrary data but does not fault (libfiber recycles nodes through pools, memory is never unmapped)',
              'the pre-state is the real mpmc_fifo_init followed by up to PRE_ENV arbitrary environment actions (reachable states only)'],
 bounds='one trypop / one push; 3 environment nodes (+ the pushed one); per job: ENV_BUDGET environment actions during the operation (1-3, '
        'each possibly compound), ENV_PER_POINT per environment point (1-2), PRE_ENV before it (1-2), SPUR_BUDGET spurious CAS failures (0-1); '
        'retry loop unwound ENV_BUDGET+SPUR_BUDGET+2 times with unwinding assertions',
 outside='rely/guarantee step, not a linearizability proof of whole histories: the global FIFO order follows from each pop taking the true '
         'successor of the current head and each push appending to the current tail, argued in DESIGN.md section 4; more environment actions per '
         'operation than the budget (deeper ABA chains), more than 3 other nodes; the scan itself (C14); the joint E2 scenario '
         '(e2/harness/mpmc.c) had no verdict and is not part of the claim; mpmc_fifo_destroy')

SRC = VERIF + '/e1/C13/mpmc_e1.c'


def cfg(name, np, env, pre, spur, per_point, tier_timeout, required=True):
    jobs = []
    for h, loop in (('h_trypop', 'mpmc_fifo_trypop.0'), ('h_push', 'mpmc_fifo_push.0')):
        defs = ['NP=%d' % np, 'ENV_BUDGET=%d' % env, 'PRE_ENV=%d' % pre, 'SPUR_BUDGET=%d' % spur, 'ENV_PER_POINT=%d' % per_point]
        jobs += pair('e1.mpmc.%s.%s' % (h[2:], name), [SRC], h, unwind=7, unwindset={loop: env + spur + 2}, timeout=tier_timeout, defines=defs,
                     required=required, mem_gb=12,
                     meta={'engine': 'E1 cbmc-src', 'bounds': '%d env nodes, %d env actions during the operation (%d per point), %d before, %d spurious CAS failures'
                           % (np, env, per_point, pre, spur)})
    return jobs


def plan(tier, ctx):
    j = []
    j += cfg('e2', 3, 2, 2, 0, 1, 1200)
    j += cfg('e1s1', 3, 1, 2, 1, 1, 900)
    if tier == 'thorough':
        j += cfg('e2x2', 3, 2, 1, 0, 2, 1800)
        # stretch jobs: proved in 12-15 min each on an idle machine before the recycle action was added; a timeout is reported as NO-VERDICT
        j += cfg('e3', 3, 3, 2, 0, 1, 5400, required=False)
        j += cfg('e3x2', 3, 3, 1, 0, 2, 5400, required=False)          # reaches the head ABA (pop, reclaim, reuse, pop) between validation and CAS
        j += cfg('e2s1', 3, 2, 2, 1, 1, 3600, required=False)
    return j
