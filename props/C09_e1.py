from vlib import *
# Sequential (E1, CBMC on the real source) part of C09; merged into props/C09.py by the owner.
INFO = dict(
 functions=['fiber_sleep', 'fiber_event_wake_sleepers', 'waiter_insert', 'waiter_remove_less_than',
            'sleep (fiber_io.c shim)', 'usleep (fiber_io.c shim)', 'nanosleep (fiber_io.c shim)',
            'fiber_spinlock_lock', 'fiber_spinlock_unlock', 'fiber_manager_schedule (inline)'],
 stubs=['fiber_manager_get() returns one dummy manager whose current_fiber is a dummy fiber_t (never NULL)',
        'fiber_manager_yield(): performs the deferred spinlock unlock exactly as fiber_manager_do_maintenance does, then '
        'runs the timer scenario (calls the REAL fiber_event_wake_sleepers) while the sleeper frame is alive, then returns',
        'fiber_scheduler_schedule(): records which fiber was handed over, its state and whether sleep_spinlock was held; '
        'in h_wake_node_lifetime it may also "run the woken fiber on another thread": the sleeper node is overwritten and freed',
        'fiber_do_real_sleep(): asserted unreachable (event system initialised: event_fd >= 0)',
        'timerfd / epoll are not modelled: the number of expirations passed to fiber_event_wake_sleepers is a nondet value',
        'h_wake_node_lifetime registers sleepers the way fiber_sleep does (zeroed node, wake_time, waiter_insert, waiter) '
        'but in malloc storage instead of the fiber_sleep frame, so that the end of the frame can be modelled by free()'],
 assumptions=['timer_trigger_count < 2^62 at the call (5 ms ticks since init: 7e8 years)',
              'sleep_spinlock free on entry (ticket == users, arbitrary 32-bit value), sleeper tree empty on entry',
              'time model: the k-th expiration after the call fires at phase + (k-1)*5 ms, phase arbitrary in (0, 5 ms] at 1 ns '
              'granularity; timer_trigger_count never runs ahead of the expirations that really fired',
              'hold variants: seconds*1000 + useconds/1000 + 1 <= UINT32_MAX (the complement is the known 32-bit wrap, checked '
              'by the *_all_durations jobs); no expirations pending unread at the call (complement: *_pending_ticks job)',
              'nanosleep: tv_sec >= 0 and 0 <= tv_nsec <= 999999999 (documented precondition)',
              'waiter_insert is given a zero-initialised node (as fiber_sleep does)'],
 bounds='arithmetic: ALL uint32 seconds/useconds (fitting 32-bit ms), all ttc < 2^62, any number of elapsed ticks < 2^62 in two '
        'batches, all tick phases; tree: <= 4 nodes, arbitrary 64-bit keys incl. equal keys, arbitrary thresholds; '
        'wake-once: <= 3 sleepers of 1..8 ticks registered through the real fiber_sleep, batches of <= 16 ticks',
 outside='more than 4 sleepers in the tree / 3 in the wake scenario; concurrency of wakers and sleepers (E2 part); the '
         'fiber_do_real_sleep fall-back used before fiber_event_init; Solaris branch; the epoll/timerfd plumbing')

E1 = VERIF + '/e1/C09/sleep_e1.c'
LIBSRC = ['fiber_context.c', 'fiber_manager.c', 'fiber_mutex.c', 'fiber_semaphore.c', 'fiber_spinlock.c', 'fiber_cond.c',
          'fiber.c', 'fiber_barrier.c', 'fiber_io.c', 'fiber_rwlock.c', 'hazard_pointer.c', 'work_stealing_deque.c',
          'work_queue.c', 'fiber_scheduler_wsd.c', 'fiber_event_native.c']


def native(prog, with_lib=True):
    """replay hook: build replays/C09/<prog>.c against the REAL sources of the tree under check and run it"""
    def hook(r, rp):
        src = os.path.join(VERIF, 'replays', 'C09', prog + '.c')
        exe = os.path.join(BUILD, 'C09_native_' + prog)
        argv = ['gcc', '-O1', '-g', '-w'] + REPO_DEFS + REPO_INC + [src]
        if with_lib:
            argv += [os.path.join(REPO, 'src', f) for f in LIBSRC] + ['-lpthread']
        argv += ['-ldl', '-o', exe]
        rc, out, _, _ = run_cmd(argv, 120, 8)
        txt = '$ ' + ' '.join(argv) + '\n' + out
        if rc != 0:
            return txt + '[native build failed rc=%s]\n' % rc
        rc, out, _, _ = run_cmd([exe], 60, 8)
        return txt + '$ ' + exe + '\n' + out + '[exit status %s; 1 = defect reproduced natively, 0 = not reproduced]\n' % rc
    return hook
IO = VERIF + '/e1/C09/io_shims.c'
def M(b, replay=None):
    m = {'engine': 'E1 cbmc-src', 'bounds': b}
    if replay:
        m['replay'] = replay
    return m


def plan(tier, ctx):
    thorough = tier == 'thorough'
    jobs = []
    # 1. arithmetic ---------------------------------------------------------------------------
    jobs += pair('e1.sleep_never_early', [E1], 'h_sleep_never_early', unwind=5, timeout=240,
                 meta=M('all uint32 (seconds,useconds) with 32-bit-fitting ms, all ttc, all n, all phases'))
    jobs += pair('e1.shim_sleep', [E1, IO], 'h_shim_sleep', unwind=5, timeout=120, meta=M('all seconds <= 4294967'))
    jobs += pair('e1.shim_usleep', [E1, IO], 'h_shim_usleep', unwind=5, timeout=120, meta=M('all 2^32 useconds values'))
    jobs += pair('e1.shim_nanosleep', [E1, IO], 'h_shim_nanosleep', unwind=5, timeout=120,
                 meta=M('all valid timespec with tv_sec <= 4294967'))
    # suspected / confirmed defects, one job each (own assertion text)
    jobs += pair('e1.sleep_all_durations', [E1], 'h_sleep_never_early_all_durations', unwind=5, timeout=240,
                 meta=M('ALL uint32 (seconds,useconds)', native('sleep_wrap_early')))
    jobs += pair('e1.sleep_pending_ticks', [E1], 'h_sleep_never_early_pending_ticks', unwind=5, timeout=240,
                 meta=M('<= 1000 expirations pending unread at the call', native('sleep_pending_ticks_early')))
    if thorough:
        jobs += pair('e1.shim_sleep_all_durations', [E1, IO], 'h_shim_sleep', unwind=5, timeout=120,
                     defines=['ALL_DURATIONS'], meta=M('ALL unsigned int seconds', native('sleep_wrap_early')))
        jobs += pair('e1.shim_nanosleep_all_durations', [E1, IO], 'h_shim_nanosleep', unwind=5, timeout=120,
                     defines=['ALL_DURATIONS'], meta=M('all valid timespec with tv_sec <= UINT32_MAX', native('sleep_wrap_early')))
        jobs += pair('e1.shim_nanosleep_tvsec_truncated', [E1, IO], 'h_shim_nanosleep', unwind=5, timeout=120,
                     defines=['TVSEC_UNBOUNDED'], meta=M('all valid timespec with tv_sec >= 2^32', native('nanosleep_tvsec_truncated')))
    # 2. tree ---------------------------------------------------------------------------------
    def tree(name, fn, tn, to):
        return pair(name, [E1], fn, unwind=tn + 2, timeout=to, defines=['TN=%d' % tn],
                    unwindset={'waiter_insert.0': tn, 'waiter_remove_less_than.0': tn + 1},
                    meta=M('%d nodes, arbitrary keys and thresholds; loop bounds = node count (unwinding assertions on)' % tn))
    jobs += tree('e1.tree_3', 'h_tree', 3, 120)
    jobs += tree('e1.tree_interleaved_3', 'h_tree_interleaved', 3, 240)
    if thorough:
        jobs += tree('e1.tree_4', 'h_tree', 4, 400)
        jobs += tree('e1.tree_interleaved_4', 'h_tree_interleaved', 4, 900)
    # 3. wake exactly once --------------------------------------------------------------------
    jobs += pair('e1.wake_once_2', [E1], 'h_wake_once', unwind=4, timeout=240, defines=['MAXF=2', 'W_BETWEEN'],
                 meta=M('2 sleepers (1..8 ticks each) via real fiber_sleep, batch <= 8 between registrations, 2 batches <= 16 after'))
    if thorough:
        jobs += pair('e1.wake_once_3', [E1], 'h_wake_once', unwind=4, timeout=600, defines=['MAXF=3'],
                     unwindset={'fiber_event_wake_sleepers.0': 3, 'fiber_event_wake_sleepers.1': 4,
                                'waiter_remove_less_than.0': 4, 'waiter_insert.0': 3},
                     meta=M('3 sleepers (1..8 ticks each) via real fiber_sleep, 2 batches <= 16 ticks'))
    jobs += pair('e1.wake_node_lifetime', [E1], 'h_wake_node_lifetime', unwind=5, timeout=240,
                 meta=M('<= 3 sleepers with deadlines 1..4 ticks, one batch <= 8 ticks; woken fiber may run immediately',
                        native('wake_reads_dead_node', with_lib=False)))
    return jobs
