from vlib import *
import sys
sys.path.insert(0, VERIF + '/e2')
import fvm

INFO = dict(
 functions=['lockfree_ring_buffer_create', 'lockfree_ring_buffer_trypush', 'lockfree_ring_buffer_trypop'],
 stubs=['calloc: the buffer is created by running the real create function natively and loading the memory image'],
 assumptions=['x86-TSO mapping of C11 atomics; -O1 IR of clang-14; weak CAS does not fail spuriously (x86)',
              'ghost operation counters are sequentially consistent atomics of the harness'],
 bounds='capacity 2 (and 4 thorough); {2 pushers x 1..2 trypush + 1 popper x 2..3 trypop | 1 pusher x 2 + 2 poppers x 1..2}; '
        'initial indices symbolic in {0,1} or in [2^64-3, 2^64-1] (wrap-around); all interleavings (SC), TSO for the small configuration',
 outside='more operations/threads, larger capacities, the blocking push/pop wrappers')


def plan(tier, ctx):
    S = {'spin': 1}
    j = []
    j += fvm.config('C16', 'ring_2p1c', 'ring.c', 3, 4, 'sc', defines=['CFG_2P1C', 'NPUSH=1', 'NPOP=2'], spec=S, bounds='cap 2, 2 pushers x 1, 1 popper x 2')
    j += fvm.config('C16', 'ring_1p2c', 'ring.c', 3, 4, 'sc', defines=['NPUSH=2', 'NPOP=1'], spec=S, bounds='cap 2, 1 pusher x 2, 2 poppers x 1')
    j += fvm.config('C16', 'ring_2p1c_wrap', 'ring.c', 3, 4, 'sc', defines=['CFG_2P1C', 'NPUSH=1', 'NPOP=2', 'WRAP'], spec=S, bounds='cap 2, indices wrap through 2^64')
    j += fvm.config('C16', 'ring_2p1c', 'ring.c', 3, 4, 'tso', defines=['CFG_2P1C', 'NPUSH=1', 'NPOP=2'], spec=S, bounds='cap 2, x86-TSO')
    j += fvm.config('C16', 'ring_mix_3pops', 'ring.c', 3, 4, 'sc', defines=['CFG_MIX', 'NPUSH=2', 'NPOP=1'], spec=S, bounds='cap 2, one thread pushes 2 and pops 1, two more poppers x 1', timeout=1500)
    j += fvm.config('C16', 'ring_2p1c_lap', 'ring.c', 3, 4, 'sc', defines=['CFG_2P1C', 'NPUSH=1', 'NPUSH2=2', 'NPOP=1'], spec=S, bounds='cap 2, pusher A x 1 (may stall between claim and write), pusher B x 2 (laps it), popper x 1', timeout=900)
    if tier == 'thorough':
        j += fvm.config('C16', 'ring_2p1c_2x3', 'ring.c', 3, 5, 'sc', defines=['CFG_2P1C', 'NPUSH=2', 'NPOP=3'], spec=S, bounds='cap 2, 2 pushers x 2, 1 popper x 3', timeout=1800, required=False)
        j += fvm.config('C16', 'ring_1p2c_3x2', 'ring.c', 3, 5, 'sc', defines=['NPUSH=3', 'NPOP=2'], spec=S, bounds='cap 2, 1 pusher x 3, 2 poppers x 2', timeout=1800, required=False)
        j += fvm.config('C16', 'ring_1p2c_wrap', 'ring.c', 3, 4, 'sc', defines=['NPUSH=2', 'NPOP=1', 'WRAP'], spec=S, bounds='cap 2, wrap-around, 2 poppers')
        j += fvm.config('C16', 'ring_cap4', 'ring.c', 3, 6, 'sc', defines=['CFG_2P1C', 'NPUSH=2', 'NPOP=2', 'LOG=2'], spec=S, bounds='cap 4, 2 pushers x 2, 1 popper x 2', timeout=1800, required=False)
        j += fvm.config('C16', 'ring_1p2c', 'ring.c', 3, 4, 'tso', defines=['NPUSH=2', 'NPOP=1'], spec=S, bounds='cap 2, 1 pusher, 2 poppers, x86-TSO', timeout=900)
    return j
