from vlib import *
import sys
sys.path.insert(0, VERIF + '/e2')
import fvm

INFO = dict(
 functions=['(E2) hazard_pointer_scan', 'hazard_pointer_compare', 'binary_search', 'hazard_pointer_free', 'hazard_pointer_thread_record_create_and_push'],
 stubs=['qsort: insertion sort calling the real comparison function (e2/include/qsort_model.h)'],
 assumptions=['x86-TSO mapping of atomics; -O1 IR of clang-14'],
 bounds='E2 on integer addresses: 2 records x 2 slots holding arbitrary 64-bit values, 2 retired nodes, one scan (sequential, all address patterns); '
        'scan of one record racing with the registration of a third record (all interleavings, SC)',
 outside='the publish/validate side of the protocol inside mpmc_fifo (C13)')


def plan(tier, ctx):
    src = ['hazard_pointer.c']
    st = {'hazard_pointer_thread_record_create_and_push#calloc0': '%struct.hazard_pointer_thread_record', 'hazard_pointer_scan#malloc0': '%struct.hazard_node*'}
    j = []
    j += fvm.config('C14', 'hp_scan_patterns', 'hp.c', 1, 8, 'sc', srcs=src, defines=['MODE=1'], spec={'spin': 1, 'site_types': st}, bounds='sequential scan, arbitrary 64-bit slot contents', timeout=900)
    if tier == 'thorough':
        j += fvm.config('C14', 'hp_scan_vs_register_k1', 'hp.c', 2, 6, 'sc', srcs=src, defines=['MODE=2', 'KSLOTS=1'],
                        spec={'spin': 1, 'site_types': st, 'pools': [['create_and_push#calloc0', 2, 1, 80]]}, bounds='scan racing with a registration, 1 hazard slot per record', timeout=3600, required=False)
        j += fvm.config('C14', 'hp_scan_vs_register', 'hp.c', 2, 8, 'sc', srcs=src, defines=['MODE=2'],
                    spec={'spin': 1, 'site_types': st, 'pools': [['create_and_push#calloc0', 2, 1, 80]]}, bounds='scan racing with a registration', timeout=3600, required=False)
    return j
