from vlib import *
# Sequential (E1, CBMC on the real source) part of C14; merged into props/C14.py by the owner.
INFO = dict(
 functions=['hazard_pointer_scan', 'binary_search (static)', 'hazard_pointer_compare (static inline)',
            'hazard_pointer_thread_record_create_and_push', 'hazard_pointer_free (inline)', 'hazard_pointer_using (inline)'],
 stubs=['qsort(): cbmc 6.11 has no qsort body; stub = insertion sort over <= N*K pointer-sized elements that calls the '
        'comparison function it is given (the REAL hazard_pointer_compare)',
        'calloc(): thread records come from typed static storage of exactly header + K slots, zeroed (CBMC\'s untyped byte-array '
        'calloc makes every pointer read from a record point anywhere and the formula explodes); size is asserted',
        'malloc()/free(): CBMC models (exact object sizes, cbmc 6 default pointer/bounds checks active inside the real code)',
        'atomic_compare_exchange_weak_explicit on the list head -> verif_publish_cas (macro redirect): same compare-exchange, asserts the exact retire_threshold of the record being published, may fail once spuriously in h_publish',
        'gc callback: records which node it was handed and whether gc_data matches',
        'hp_free_e1.c only: hazard_pointer_scan replaced by a spy recording its argument and the record state at the call'],
 assumptions=['all sorted/searched addresses lie in one array object (CBMC orders pointers of different objects by offset only): '
              'retired nodes are elements 1..RMAX of the pool, a hazard slot is NULL or ANY byte address inside the pool',
              'record invariant: retired list NULL-terminated, pairwise distinct nodes (a node is retired once), retired_count == '
              'length < retire_threshold, gc_function set',
              'records are registered one after the other (concurrent registration is the E2 part)',
              'bounded-garbage harness: no slot holds the address of the observed unprotected node X (it stays unprotected)'],
 bounds='N <= 3 records, K <= 2 slots, <= 4 retired nodes; scan: symbolic retire count/order up to the sizes listed per job, '
        '"fixed" jobs = 4 retired nodes in ascending/descending address order with fully symbolic slot addresses; '
        'free step / bounded garbage with the real scan: configurations with retire_threshold <= 4; threshold test of '
        'hazard_pointer_free alone: all size_t counts and thresholds; binary_search: all sorted arrays of 0..6 elements',
 outside='more than 3 records / 2 slots / 4 retired nodes per scan; interleavings of publish/validate/retire/scan and concurrent '
         'registration (E2 part); hazard_pointer_thread_record_destroy*; free step with the real scan for retire_threshold >= 6')

E1 = VERIF + '/e1/C14/hp_e1.c'
FR = VERIF + '/e1/C14/hp_free_e1.c'


def M(b):
    return {'engine': 'E1 cbmc-src', 'bounds': b}


def hp(name, fn, n, k, me=0, rmax=4, extra=(), timeout=300, note=''):
    defs = ['CFG_N=%d' % n, 'CFG_K=%d' % k, 'CFG_ME=%d' % me, 'RMAX=%d' % rmax] + list(extra)
    unwind = max(rmax + 3, n * k + 2)
    return pair(name, [E1], fn, unwind=unwind, unwindset={'binary_search.0': 4}, timeout=timeout, defines=defs,
                meta=M('N=%d K=%d acting record #%d, pool of %d nodes %s' % (n, k, me, rmax, note)))


def plan(tier, ctx):
    thorough = tier == 'thorough'
    jobs = []
    cfgs = [(n, k) for n in (1, 2, 3) for k in (1, 2)]
    # 3. binary_search alone; threshold logic of hazard_pointer_free alone
    jobs += pair('e1.binary_search', [E1], 'h_binary_search', unwind=8, timeout=120,
                 meta=M('all sorted pointer arrays of 0..6 elements (duplicates allowed), any needle'))
    jobs += pair('e1.free_calls_scan', [FR], 'h_free_calls_scan', unwind=2, timeout=60,
                 meta=M('all size_t retired_count < retire_threshold'))
    # 2. thresholds after N sequential registrations
    for n, k in cfgs:
        jobs += hp('e1.threshold_N%dK%d' % (n, k), 'h_threshold', n, k, timeout=60)
        jobs += hp('e1.publish_N%dK%d' % (n, k), 'h_publish', n, k, timeout=120, note='(registration: exact threshold at the publication CAS, one spurious weak-CAS failure)')
    # 1. scan
    if not thorough:
        for n, k in cfgs:
            me = 1 if (n, k) == (3, 2) else 0
            jobs += hp('e1.scan_N%dK%d_me%d_sym2' % (n, k, me), 'h_scan', n, k, me, rmax=2, timeout=240,
                       note='(<= 2 retired, symbolic count and order)')
    else:
        for n, k in cfgs:
            for me in range(n):
                if n * k <= 3:
                    jobs += hp('e1.scan_N%dK%d_me%d_sym4' % (n, k, me), 'h_scan', n, k, me, rmax=4, timeout=400,
                               note='(<= 4 retired, symbolic count and order)')
                elif (n, k) == (2, 2):
                    jobs += hp('e1.scan_N2K2_me%d_sym3' % me, 'h_scan', n, k, me, rmax=3, timeout=600,
                               note='(<= 3 retired, symbolic count and order)')
                    jobs += hp('e1.scan_N2K2_me%d_fixed4' % me, 'h_scan', n, k, me, rmax=4, extra=['CFG_CNT=4'], timeout=600,
                               note='(4 retired, ascending order)')
                    jobs += hp('e1.scan_N2K2_me%d_fixed4desc' % me, 'h_scan', n, k, me, rmax=4, extra=['CFG_CNT=4', 'CFG_DESC'],
                               timeout=600, note='(4 retired, descending order)')
                else:
                    jobs += hp('e1.scan_N3K2_me%d_sym2' % me, 'h_scan', n, k, me, rmax=2, timeout=600,
                               note='(<= 2 retired, symbolic count and order)')
                    jobs += hp('e1.scan_N3K2_me%d_fixed4' % me, 'h_scan', n, k, me, rmax=4, extra=['CFG_CNT=4'], timeout=900,
                               note='(4 retired, ascending order)')
                    jobs += hp('e1.scan_N3K2_me%d_fixed4desc' % me, 'h_scan', n, k, me, rmax=4,
                               extra=['CFG_CNT=4', 'CFG_DESC'], timeout=900, note='(4 retired, descending order)')
        # scratch list left over from an earlier scan with fewer records (re-allocation path) / same records (reuse path)
        for n, k in ((1, 2), (2, 2), (3, 1)):
            jobs += hp('e1.scan_prescan_N%dK%d' % (n, k), 'h_scan', n, k, 0, rmax=2, extra=['PRESCAN'], timeout=400,
                       note='(oldest record scanned once while alone, then <= 2 retired)')
    # 2b. one retirement from any invariant state, real free + real scan (retire_threshold <= 4)
    for n, k in ((1, 1), (1, 2), (2, 1)):
        for me in range(n):
            jobs += hp('e1.free_step_N%dK%d_me%d' % (n, k, me), 'h_free_step', n, k, me, rmax=2 * n * k, timeout=300,
                       note='(any c < retire_threshold retired before)')
    # 2c. bounded garbage over retire_threshold-1 further retirements
    jobs += hp('e1.bounded_garbage_N1K1', 'h_bounded_garbage', 1, 1, 0, rmax=3, timeout=300, note='(retire_threshold 2)')
    if thorough:
        jobs += hp('e1.bounded_garbage_N1K2', 'h_bounded_garbage', 1, 2, 0, rmax=7, timeout=900, note='(retire_threshold 4)')
        for me in range(2):
            jobs += hp('e1.bounded_garbage_N2K1_me%d' % me, 'h_bounded_garbage', 2, 1, me, rmax=7, timeout=900,
                       note='(retire_threshold 4)')
    return jobs
