from vlib import *
import sys
sys.path.insert(0, VERIF + '/e2')
import fvm

INFO = dict(
 functions=['wsd_work_stealing_deque_push_bottom', 'wsd_work_stealing_deque_pop_bottom', 'wsd_work_stealing_deque_steal',
            'wsd_circular_array_create', 'wsd_circular_array_grow', 'wsd_circular_array_get', 'wsd_circular_array_put'],
 stubs=['the deque object is built by the harness with a 2-slot array (wsd_circular_array_create(1)) instead of the hard-coded '
        '256-slot array of wsd_work_stealing_deque_create, so that the growth boundary is reachable within the bound',
        'malloc during the run (array growth): per-thread object pool; nothing is ever freed by the deque'],
 assumptions=['x86-TSO mapping of C11 atomics; -O1 IR of clang-14; weak CAS does not fail spuriously (x86)'],
 bounds='one owner running a fixed program of <=3 push/pop operations, 1-2 thieves with <=2 steals each, initial length 1-2, '
        'array of 2 slots growing to 4; all interleavings under SC and under x86-TSO (store buffering)',
 outside='more than 2 thieves, longer owner programs, arrays larger than 8 slots; the whole-runtime part of C02 (ghost pending-wake '
         'counter in the scheduler scenarios) is checked by the C01 scenarios')


def plan(tier, ctx):
    S = {'spin': 1}
    G = dict(S, pools=[['^wsd_.*#malloc', 1, 1, 64]])
    src = ['work_stealing_deque.c']
    j = []
    for mm in ('sc', 'tso'):
        j += fvm.config('C02', 'pop2', 'deque.c', 2, 5, mm, srcs=src, defines=['PROG_POP2'], spec=S, bounds='2 elements; owner pop,pop; thief steal,steal')
        j += fvm.config('C02', 'grow_push_pop', 'deque.c', 2, 5, mm, srcs=src, defines=['PROG_PUSH_POP', 'INIT=1'], spec=G,
                        bounds='1 element; owner push (array grows 2->4), pop, pop; thief steal,steal')
    j += fvm.config('C02', 'pop2_2thieves', 'deque.c', 3, 5, 'sc', srcs=src, defines=['PROG_POP2', 'THIEF2', 'NSTEAL=1'], spec=S,
                    bounds='2 elements; owner pop,pop; two thieves one steal each')
    if tier == 'thorough':
        G2 = dict(S, pools=[['^wsd_.*#malloc', 1, 2, 128]])
        j += fvm.config('C02', 'grow2_push3', 'deque.c', 2, 6, 'sc', srcs=src, defines=['PROG_PUSH3', 'INIT=2', 'NSTEAL=1'], spec=G2,
                        bounds='2 elements in a 2-slot array; owner push,push,push (array grows 2->4->8: two generations retired); thief one steal', timeout=1500, required=False)
        j += fvm.config('C02', 'pop2_2thieves', 'deque.c', 3, 5, 'tso', srcs=src, defines=['PROG_POP2', 'THIEF2', 'NSTEAL=1'], spec=S,
                        bounds='2 elements; two thieves; x86-TSO', timeout=1200)
        for mm in ('sc', 'tso'):
            j += fvm.config('C02', 'pop_push_pop', 'deque.c', 2, 5, mm, srcs=src, defines=['INIT=1'], spec=G,
                            bounds='1 element; owner pop, push, pop; thief steal,steal', timeout=1200)
            j += fvm.config('C02', 'grow_push2_pop', 'deque.c', 2, 5, mm, srcs=src, defines=['PROG_PUSH2_POP', 'INIT=1'], spec=G,
                            bounds='1 element; owner push (grow), push, pop; thief steal,steal', timeout=1200)
            j += fvm.config('C02', 'pop2_offset', 'deque.c', 2, 5, mm, srcs=src, defines=['PROG_POP2', 'OFFSET'], spec=S,
                            bounds='as pop2 with top/bottom shifted by a symbolic common offset in {0,-4,-8,2^62}', timeout=1200)
        j += fvm.config('C02', 'pop2_3steals_2thieves', 'deque.c', 3, 5, 'sc', srcs=src, defines=['PROG_POP2', 'THIEF2', 'NSTEAL=2'], spec=S,
                        bounds='2 elements; two thieves two steals each', timeout=1800, required=False)
    return j
