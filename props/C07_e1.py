from vlib import *
INFO = dict(
 functions=['fiber_rwlock_init', 'fiber_rwlock_rdlock', 'fiber_rwlock_wrlock', 'fiber_rwlock_tryrdlock',
            'fiber_rwlock_trywrlock', 'fiber_rwlock_rdunlock', 'fiber_rwlock_wrunlock',
            'mpsc_fifo_init (h_init only)', 'fiber_rwlock_state_t bit-field layout'],
 stubs=['__sync_bool_compare_and_swap on the lock word -> verif_cas (macro in the harness, library untouched): '
        'nondeterministically FAILS after replacing the word by any word satisfying INV/BOUND/HOLD (interference by other '
        'threads between read and CAS; at most MAX_FAIL times per operation) or SUCCEEDS (requires *p==expected) and records '
        '(old,new) as the linearization step',
        'fiber_manager_wait_in_mpsc_queue(manager, fifo): records queue and that the counting CAS already happened; returns '
        '(the later resumption by a waker is the waker\'s hand-off step, accounted there)',
        'fiber_manager_wake_from_mpsc_queue(manager, fifo, count): records queue and count, returns count',
        'fiber_manager_get(): returns a dummy manager'],
 assumptions=['INV on the initial word and on every interfered word: I1 write_locked => reader_count==0; '
              'I2 waiting_readers+waiting_writers>0 => write_locked || reader_count>0 (both re-proved for every word the real code installs); '
              'variant jobs *.inv3 add I3 waiting_readers>0 => write_locked || waiting_writers>0 (also re-proved)',
              'BOUND: reader_count, waiting_readers, waiting_writers <= 2^21-2 (the +1 of an acquire does not overflow the 21-bit field)',
              'HOLD: documented unlock precondition - during rdunlock the caller holds a read lock (reader_count>=1, !write_locked on '
              'every word it can observe); during wrunlock the caller holds the write lock (write_locked, reader_count==0)',
              'ghost induction hypothesis: #read holders == reader_count, #write holders == write_locked, #counted waiters == '
              'waiting_* on the word the linearization CAS starts from'],
 bounds='E1: one operation from an arbitrary 64-bit INV word; up to MAX_FAIL (quick 2, thorough 6) interfered CAS retries, each '
        'restarting from an arbitrary INV word; all counter values up to 2^21-2',
 outside='counter overflow (>= 2^21-1 holders/waiters of one kind); the queue mechanics of wait/wake (enqueue-after-count race is '
         'the concurrent harness); fairness/starvation; unlock without holding the lock (undocumented use); memory ordering')


V8 = ['--verbosity', '8']   # makes cbmc print its solver statistics (recorded as solver_s in the evidence)


def plan(tier, ctx):
    src = [VERIF + '/e1/C07/rwlock_e1.c']
    mf = 2 if tier == 'quick' else 6
    uw = mf + 2
    jobs = []
    ops = ('h_rdlock', 'h_wrlock', 'h_tryrdlock', 'h_trywrlock', 'h_rdunlock', 'h_wrunlock')
    for h in ops:
        jobs += pair('e1.' + h, src, h, unwind=uw, timeout=120, defines=['MAX_FAIL=%d' % mf], extra=V8,
                     meta={'engine': 'E1 cbmc-src', 'bounds': 'arbitrary INV word (I1,I2), %d interfered retries' % mf})
    # same step under the stronger invariant I1&I2&I3 (I3 is re-proved on the new word)
    for h in ops:
        jobs += pair('e1.' + h + '.inv3', src, h, unwind=uw, timeout=120, defines=['MAX_FAIL=%d' % mf, 'INV3=1'], extra=V8,
                     meta={'engine': 'E1 cbmc-src', 'bounds': 'arbitrary INV word (I1,I2,I3), %d interfered retries' % mf})
    for h in ('h_init', 'h_layout'):
        jobs += pair('e1.' + h, src, h, unwind=2, timeout=120, extra=V8,
                     meta={'engine': 'E1 cbmc-src', 'bounds': 'all 2^64 words / all field values' if h == 'h_layout' else 'induction base'})
    # vacuity guard per branch (a witness-kind job: every `witness: path reachable` assertion of the six operation
    # harnesses must be hit; an unreachable branch is reported as BROKEN-CHECK, see all_paths.py)
    argv = ['python3', VERIF + '/e1/C07/all_paths.py', src[0], str(uw), str(mf), '--'] + REPO_DEFS + REPO_INC
    jobs.append(Job('e1.all_paths#witness', argv, 'witness', 300, kind='cmd',
                    meta={'engine': 'E1 cbmc-src', 'bounds': 'per-branch reachability witnesses of the 6 operation harnesses'}))
    return jobs
