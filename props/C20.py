from vlib import *
import sys
sys.path.insert(0, VERIF + '/e2')
import fvm

INFO = dict(
 functions=['mpmc_lifo_init', 'mpmc_lifo_push', 'mpmc_lifo_pop', 'dist_fifo_init', 'dist_fifo_push', 'dist_fifo_trypop',
            'mpmc_stack_init', 'mpmc_stack_push', 'mpmc_stack_lifo_flush', 'mpmc_stack_fifo_flush', 'mpmc_stack_reverse',
            'compare_and_swap2 (inline asm lock cmpxchg16b interpreted from the IR: operand registers taken from the constraint string)',
            'fiber_multi_signal_wait', 'fiber_multi_signal_raise'],
 stubs=['E1 multi-signal step (e1/C20/msig_e1.c): every atomic access of fiber_signal.h to the (counter, head) pair and compare_and_swap2 (performed as the specified 16-byte compare-exchange) is preceded by arbitrary environment transitions (counter += d >= 1, head = NULL / RAISED / any waiter list of other fibers); fiber_manager_yield / fiber_scheduler_schedule record', 'lock cmpxchg16b; setz: atomic 2-cell compare-and-swap, operands bound through the asm constraint letters'],
 assumptions=['x86-TSO mapping of atomics; -O1 IR of clang-14'],
 bounds='multi-signal E1 step: one wait/raise from an arbitrary pair, <= 2 (thorough 4) environment transitions at any atomic access; lifo: 2 nodes A->B, thread 1 pop,pop,push(A) (node reuse), thread 2 pop (+ thread 3 pop,push); dist_fifo: pusher x 2 (optionally '
        're-using a node a popper just returned), 2 poppers x 2; mpmc_stack: 2 pushers x {1,2}, flusher lifo_flush + fifo_flush; all interleavings',
 outside='more nodes/threads; raise_strict')


def plan(tier, ctx):
    S = {'spin': 1}
    j = []
    j += fvm.config('C20', 'lifo_aba', 'lifo.c', 2, 4, 'sc', spec=S, bounds='A->B; T1 pop,pop,push A; T2 pop')
    j += fvm.config('C20', 'distfifo', 'distfifo.c', 3, 4, 'sc', spec=S, bounds='pusher x2, 2 poppers x2')
    j += fvm.config('C20', 'distfifo_reuse', 'distfifo.c', 3, 4, 'sc', defines=['REUSE'], spec=S, bounds='as distfifo, last push re-uses a just-popped node')
    j += fvm.config('C20', 'mstack_2x1', 'mstack.c', 3, 6, 'sc', defines=['NPUSH=1'], spec=S, bounds='2 pushers x1, flusher')
    j += _msig(tier)
    if tier == 'thorough':
        j += fvm.config('C20', 'lifo_aba3', 'lifo.c', 3, 4, 'sc', defines=['T3'], spec=S, bounds='A->B; three threads', timeout=2400, required=False)
        j += fvm.config('C20', 'lifo_aba', 'lifo.c', 2, 4, 'tso', spec=S, bounds='A->B; x86-TSO', timeout=900)
        j += fvm.config('C20', 'distfifo_reuse', 'distfifo.c', 3, 4, 'tso', defines=['REUSE'], spec=S, bounds='x86-TSO', timeout=1200)
        j += fvm.config('C20', 'mstack_2x2', 'mstack.c', 3, 6, 'sc', defines=['NPUSH=2'], spec=S, bounds='2 pushers x2, flusher', timeout=1800, required=False)
    return j


def _msig(tier):
    try:
        from props import C20_msig
    except ImportError:
        return []
    return C20_msig.plan(tier)
