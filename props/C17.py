from vlib import *
import sys, os
sys.path.insert(0, VERIF + '/e2')
import fvm

INFO = dict(
 functions=['work_queue_init', 'work_queue_push', 'work_queue_get_work', 'mpsc_fifo_push', 'mpsc_fifo_trypop'],
 stubs=['E1 step (e1/C17/wq_e1.c): mpsc_fifo_trypop / mpsc_fifo_push / __sync_add_and_fetch / __sync_sub_and_fetch of work_queue.c redirected (macros, library untouched) to an abstract fifo (linked L, pending P) with an environment step before every shared access: any number of other pushers count (in_count, P += d1) and complete links (P -= d2, L += d2); trypop returns an item iff L > 0 and (P == 0 or nondeterministically)',
        'cpu_relax() in the worker retry loop is an await point bounded by the endgame protocol (spin bound)'],
 assumptions=['x86-TSO mapping of atomics; -O1 IR of clang-14',
              'symmetry: executions in which the second thread (not the first) is told START_WORKING while racing are the mirror image '
              'of the ones explored; the sequential hand-over case is covered by the HANDOVER configuration'],
 bounds='E1: one get_work/push from any state with in_count == out_count + L + P (each < 2^40), any number of concurrent pushers, <= 2 (thorough 3) polls; E2: worker thread pushes 1 item and drains; 1 or 2 further threads push 1 item each concurrently; await loop: 0 free spins '
        '(then the worker waits for the pushers to finish); all interleavings under SC, small configuration also under TSO',
 outside='E2: more items / pushers; E1: the mpsc fifo itself (C15), out_count accessed by a stale worker through plain accesses after the role release; queue destruction')


def plan(tier, ctx):
    S = {'spin': 0}
    src = ['work_queue.c']
    uw = {'f_vm_thread_1.0': 3, 'f_vm_thread_2.0': 3, 'f_work_queue_get_work.0': 3}
    j = []
    # E1: one real get_work / push from any state satisfying the counter invariant, any number of concurrent pushers.
    # Back end: cvc5 with --solve-bv-as-int=sum (shim in tools/cvc5int): the counter sums are adder equalities that stall SAT.
    mp = 2 if tier == 'quick' else 3
    e1 = []
    for h in ('h_get_work', 'h_push', 'h_init'):
        e1 += pair('e1.wq.' + h, [VERIF + '/e1/C17/wq_e1.c'], h, unwind=mp + 2, timeout=900, defines=['MAX_POLL=%d' % mp], extra=['--cvc5', '--slice-formula'],
                   meta={'engine': 'E1 cbmc-src (SMT back end cvc5, bit-vectors solved as integers mod 2^64)', 'bounds': 'one operation from any state with in_count == out_count + linked + pending (< 2^40 each), any number of concurrent pushers before every shared access, <= %d polls of the fifo' % mp})
    for x in e1:
        x.env = dict(os.environ, PATH=VERIF + '/tools/cvc5int:' + os.environ.get('PATH', ''))
    j += e1
    j += fvm.config('C17', 'wq_1pusher', 'wq.c', 2, 3, 'sc', srcs=src, spec=S, unwindset=uw, bounds='worker + 1 pusher')
    j += fvm.config('C17', 'wq_handover', 'wq.c', 2, 3, 'sc', srcs=src, defines=['HANDOVER'], spec=S, unwindset=uw,
                    bounds='worker + 1 thread that may become the second worker after the first finished')
    j += fvm.config('C17', 'wq_1pusher', 'wq.c', 2, 3, 'tso', srcs=src, spec=S, unwindset=uw, bounds='worker + 1 pusher, x86-TSO', timeout=900)
    uwg = {'f_vm_thread_1.0': 4, 'f_vm_thread_2.0': 4, 'f_vm_thread_3.0': 4, 'f_worker.0': 4, 'f_work_queue_get_work.0': 3}
    if tier == 'thorough':
        j += fvm.config('C17', 'wq_window_3', 'wq_window.c', 3, 4, 'sc', srcs=src, spec=S, unwindset={'f_work_queue_get_work.0': 3}, bounds='3 threads: worker, possible second worker, pusher; fixed call sequences (the role-release window: worker still inside get_work when the next worker starts)', timeout=3000, mem_gb=24)
        j += fvm.config('C17', 'wq_general_2', 'wq_general.c', 2, 4, 'sc', srcs=src, defines=['NT=2'], spec=S, unwindset=uwg, bounds='2 threads push one item each; either may become the worker', timeout=3600)
        j += fvm.config('C17', 'wq_general_3', 'wq_general.c', 3, 4, 'sc', srcs=src, defines=['NT=3'], spec=S, unwindset=uwg, bounds='3 threads push one item each; any may become the worker', timeout=3600, required=False, mem_gb=24)
        uw2 = dict(uw); uw2['f_vm_thread_1.0'] = 4
        j += fvm.config('C17', 'wq_2pushers', 'wq.c', 3, 4, 'sc', srcs=src, defines=['NPUSHERS=2'], spec=S, unwindset=uw2,
                        bounds='worker + 2 pushers', timeout=1800, required=False)
        j += fvm.config('C17', 'wq_handover', 'wq.c', 2, 3, 'tso', srcs=src, defines=['HANDOVER'], spec=S, unwindset=uw,
                        bounds='hand-over, x86-TSO', timeout=1800, required=False)
    return j
