from vlib import *

INFO = dict(
 functions=['fiber_context_swap (x86-64 inline asm, interpreted from the IR of the real fiber_context.c by e3/x86sym.py)',
            'fiber_context_init', 'fiber_context_init_from_thread', 'fiber_context_destroy', 'fiber_context_alloc_stack',
            'fiber_free_stack', 'fiber_round_to_page_size', 'fiber_create_no_sched', 'fiber_create_from_thread', 'fiber_destroy'],
 stubs=['E1 mmap strategy: mmap() = ghost-recording stub returning a fresh object of exactly `len` bytes or MAP_FAILED (harness choice)',
        'E1 mmap strategy: munmap() = ghost-recording stub (address, length, call count), returns 0',
        'E1 mmap strategy: mprotect() = ghost-recording stub, fails iff the harness says so',
        'E1 mmap strategy: sysconf() answers the page size C19_PAGE (4096; 65536 in a thorough variant)',
        'E1 malloc strategy: CBMC built-in malloc/calloc/free (never failing: --no-malloc-may-fail); malloc block is 16-byte aligned',
        'E3: registers other than the two asm operand registers are arbitrary at asm entry; memory a fiber does not own is havoced between swaps'],
 assumptions=['E3: stack pointers and context structs are 8-byte aligned (ABI/malloc/E1 give 16); proved: then every access of the swap code is aligned',
              'E3: privacy of stacks: a suspended context\'s frame (and the 2 words above it the restore half reads) and the context structs do not '
              'overlap the stack area another fiber is pushing onto; context structs are heap objects outside all stacks; address ranges do not wrap',
              'E3: a suspended context\'s saved sp points at a frame written by the save half (resume slot == address of the resume label) -- '
              'established by invariant.established_for_from',
              'E3 fresh context: frame layout of e1/C19/fresh_layout.h, proved on the real fiber_context_init by the E1 harnesses h_init_layout_*',
              'E1: requested stack size within [FIBER_MIN_STACK_SIZE, C19_MAX_SIZE]; run_function != NULL; fiber state DONE before fiber_destroy (API preconditions)'],
 bounds='E3: all 2^64 values of every register / stack word / address (one swap, A->B->A, A->B->C->A, fresh entry). '
        'E1: every stack size in [1024, 1 MiB] quick / [1024, 1 GiB] thorough, all run_function/param values, malloc and mmap strategies',
 outside='i386 and ucontext back ends; split-stack strategy (__splitstack_* is libgcc; the pinned build uses it); x87/SSE/MXCSR state and flags; '
         'caller-saved registers (callers must assume them clobbered by the call); compilers other than the clang-14 -O1 IR for operand set-up '
         '(pinned gcc build inspected by objdump only); stack sizes below FIBER_MIN_STACK_SIZE; real kernel behaviour of mmap/mprotect')

E3 = VERIF + '/e3/x86sym.py'
MMAP_DEFS = ['NDEBUG', 'FIBER_FAST_SWITCHING', 'FIBER_STACK_MMAP', '_GNU_SOURCE']
REPO_I = [os.path.join(REPO, 'include'), os.path.join(REPO, 'src')]


def plan(tier, ctx):
    jobs = []
    # ------------------------------------------------------------------ E3 (z3): the asm of fiber_context_swap
    b3 = os.path.join(ctx['build'], 'e3')
    # unsupported instruction/operand/constraint forms must surface as "the check is broken", not as a verdict
    sh(['python3-vt', E3, '--build', os.path.join(ctx['build'], 'e3_parse'), '--parse-only'], timeout=180,
       what='x86sym: regenerate + parse the inline asm of fiber_context_swap from the current tree')
    for sc, b in (('roundtrip', 'A->B->A, B suspended'), ('invariant', 'one swap, from/to/bystander: inductive frame invariant'),
                  ('chain', 'A->B->C->A'), ('fresh', 'switch into a context freshly set up by fiber_context_init')):
        m3 = {'engine': 'E3 x86sym (z3)', 'bounds': 'all register/stack-word/address values; ' + b}
        jobs.append(Job('e3.' + sc, ['python3-vt', E3, '--build', b3 + '_' + sc, '--scenario', sc], 'hold', 400, kind='cmd', meta=m3))
        jobs.append(Job('e3.' + sc + '#witness', ['python3-vt', E3, '--build', b3 + '_' + sc + '_w', '--scenario', sc, '--witness'],
                        'witness', 200, kind='cmd', meta=m3, witness_of='e3.' + sc))

    # ------------------------------------------------------------------ E1 (cbmc on the real source)
    ctxs = [VERIF + '/e1/C19/ctx_e1.c']
    life = [VERIF + '/e1/C19/life_e1.c']
    big = 1 << 30 if tier == 'thorough' else 1 << 20
    mx = 'C19_MAX_SIZE=%d' % big
    m1 = lambda b: {'engine': 'E1 cbmc-src', 'bounds': b}
    sz = 'stack size in [1024, %d], any run_function/param' % big

    def wpair(name, src, fn, **kw):
        """hold job + witness twin; the twin checks ONLY the witness assertion of the same harness (same assumptions, same
        code, -DWITNESS) with --property/--slice-formula, which spares it the byte-level array encoding of the 9 frame stores"""
        hold, wit = pair(name, src, fn, **kw)
        show = [a for a in wit.argv if a.startswith('-D') or a.startswith('-I') or a.endswith('.c') or a == 'cbmc']
        outp = sh(show + ['--function', fn, '--drop-unused-functions', '--show-properties'], timeout=120,
                  what='list properties of ' + fn)
        m = re.search(r'^Property (\S+):\n  file \S+ line \d+ function ' + re.escape(fn) + r'\n  witness:', outp, re.M)
        if not m:
            raise BuildError('witness assertion of %s not found in --show-properties output' % fn)
        wit.argv += ['--property', m.group(1)] + ([] if '--slice-formula' in wit.argv else ['--slice-formula'])
        return [hold, wit]

    def mmap_pair(name, src, fn, defines=(), **kw):
        return wpair(name, src, fn, defines=MMAP_DEFS + list(defines), includes=REPO_I, repo_defs=False, **kw)

    # malloc strategy
    jobs += wpair('e1.init_layout_malloc', ctxs, 'h_init_layout_malloc', unwind=2, timeout=400, defines=[mx], meta=m1(sz))
    jobs += wpair('e1.init_rejects', ctxs, 'h_init_rejects', unwind=2, timeout=300, extra=['--slice-formula'], meta=m1('size 0 or NULL function'))
    jobs += wpair('e1.create_destroy_malloc', life, 'h_create_destroy', unwind=2, timeout=400, defines=[mx],
                 extra=['--memory-leak-check'], meta=m1(sz + '; leak + double-free instrumentation'))
    jobs += wpair('e1.thread_fiber_destroy', life, 'h_thread_fiber_destroy', unwind=2, timeout=200,
                 extra=['--memory-leak-check'], meta=m1('thread fiber'))
    jobs += wpair('e1.destroy_null', life, 'h_destroy_null', unwind=2, timeout=100, extra=['--memory-leak-check'], meta=m1('NULL'))
    # mmap strategy
    jobs += mmap_pair('e1.init_layout_mmap', ctxs, 'h_init_layout_mmap', unwind=2, timeout=400, defines=[mx], meta=m1(sz + '; page 4096'))
    jobs += mmap_pair('e1.init_mmap_failures', ctxs, 'h_init_mmap_failures', unwind=2, timeout=400, defines=[mx], extra=['--slice-formula'],
                      meta=m1(sz + '; mmap and/or mprotect fail'))
    rb = 30 if tier == 'thorough' else 24      # 64-bit division by the page unit is what costs here
    jobs += mmap_pair('e1.mmap_round_covers_request', ctxs, 'h_mmap_round_covers_request', unwind=2, timeout=400,
                      defines=['C19_MAX_SIZE=%d' % (1 << rb)], meta=m1('size in [1, 2^%d]; page 4096' % rb))
    jobs += mmap_pair('e1.mmap_usable_ge_requested', ctxs, 'h_mmap_usable_ge_requested', unwind=2, timeout=400,
                      defines=['C19_MAX_SIZE=%d' % (1 << rb)], meta=m1('size in [1024, 2^%d]; page 4096' % rb))
    jobs += mmap_pair('e1.create_destroy_mmap', life, 'h_create_destroy', unwind=2, timeout=400, defines=[mx],
                      extra=['--memory-leak-check'], meta=m1(sz + '; page 4096; ghost mmap/munmap counters + leak check of the heap blocks'))
    jobs += mmap_pair('e1.create_fails_stack_unmapped', life, 'h_create_fails_stack_unmapped', unwind=2, timeout=400, defines=[mx],
                      extra=['--slice-formula'],
                      meta=m1(sz + '; mmap and/or mprotect fail'))
    if tier == 'thorough':
        jobs += wpair('e1.init_small_ok_malloc', ctxs, 'h_init_small_ok_malloc', unwind=2, timeout=600,
                     meta=m1('undocumented sizes in [88, 1024)'))
        for pg in (16384, 65536):
            d = [mx, 'C19_PAGE=%dL' % pg]
            jobs += mmap_pair('e1.init_layout_mmap.page%d' % pg, ctxs, 'h_init_layout_mmap', unwind=2, timeout=900, defines=d,
                              meta=m1(sz + '; page %d' % pg))
            jobs += mmap_pair('e1.mmap_round_covers_request.page%d' % pg, ctxs, 'h_mmap_round_covers_request', unwind=2, timeout=200,
                              defines=['C19_MAX_SIZE=%d' % (1 << 24), 'C19_PAGE=%dL' % pg], meta=m1('size in [1, 2^24]; page %d' % pg))
    return jobs
