from vlib import *
import sys
sys.path.insert(0, VERIF + '/e2')
import fvm

INFO = dict(
 functions=['fiber_manager_yield', 'fiber_manager_switch_to', 'fiber_manager_do_maintenance', 'fiber_manager_set_and_wait',
            'fiber_manager_wait_in_mpsc_queue', 'fiber_manager_wait_in_mpsc_queue_and_unlock', 'fiber_manager_wait_in_mpmc_queue',
            'fiber_manager_wake_from_mpsc_queue', 'fiber_scheduler_next', 'fiber_scheduler_schedule', 'wsd_work_stealing_deque_push_bottom',
            'wsd_work_stealing_deque_pop_bottom', 'fiber_mark_completed', 'fiber_destroy', 'fiber_signal_wait', 'fiber_mutex_lock',
            'fiber_mutex_unlock_internal', 'fiber_spinlock_lock', 'fiber_spinlock_unlock', 'mpsc_fifo_push', 'mpmc_fifo_push', 'fiber_wait_for_event (E1, shared with C08)'],
 stubs=['e1.ev_wait_handoff: the environment of e1/C08/ev_e1.c (epoll model, fiber_manager_yield stub asserting that the fd spinlock is handed to the maintenance step)',
        'fiber_context_swap(from,to) on ONE kernel thread: "from is now saved, execution continues as to" plus the checks of what must '
        'not have been published at that moment; fiber_context_init/destroy: ghost alive/saved flags instead of a stack',
        '8-slot run-queue arrays instead of the hard-coded 256-slot ones; 2-slot mpmc node pool'],
 assumptions=['compositional argument (DESIGN.md 4/C01): on any number of kernel threads a suspended fiber can only be resumed through a '
              'publication (run queue, wait queue, wake-up location, lock release); each mechanism is shown to publish only after the '
              'switch - except the mpsc wait queues, whose early publication is guarded by state SAVING: the scheduler never hands out '
              'a SAVING fiber (MODE 11) and no waker changes SAVING (MODE 12); the successor flips SAVING to WAITING only after the switch'],
 bounds='one suspension step per mechanism (8 mechanisms) from the real initial runtime state with 2 further ready fibers; scheduler_next for every '
        'mix of {READY, WAITING, SAVING} over 2 queued fibers; wake for state in {WAITING, SAVING}',
 outside='the two-kernel-thread scenario with the real scheduler loops on both threads did not reach a verdict within 15 minutes (symbolic '
         'execution of the real yield/load_balance code from 3 VM threads) and is not claimed; libev back end, split stacks')


def plan(tier, ctx):
    src = ['work_stealing_deque.c', 'fiber_mutex.c', 'fiber_spinlock.c', 'hazard_pointer.c']
    spec = {'spin': 1, 'replace': {'fiber_context_swap': 'f_s_swap', 'fiber_context_init': 'f_s_context_init',
                                   'fiber_context_init_from_thread': 'f_s_context_init_from_thread', 'fiber_context_destroy': 'f_s_context_destroy'},
            'roots': ['s_swap', 's_context_init', 's_context_init_from_thread', 's_context_destroy'],
            'pools': [['fiber_manager_.*#malloc', 1, 1, 48]]}
    names = {1: 'yield', 2: 'set_and_wait', 3: 'mpsc_wait', 4: 'mpsc_wait_unlock', 5: 'mpmc_wait', 6: 'spinlock_wait', 7: 'done_fiber', 8: 'signal_wait',
             11: 'next_skips_saving', 12: 'wake_keeps_saving'}
    j = []
    for mode, nm in names.items():
        j += fvm.config('C01', 'step_' + nm, 'c01_step.c', 1, 6, 'sc', srcs=src, defines=['MODE=%d' % mode], spec=dict(spec),
                        bounds='one kernel thread, mechanism: ' + nm, timeout=900)
    # the fd wait of fiber_event_native.c is a 9th user of the deferred hand-off (spinlock_to_unlock): the caller must leave the unlock of the
    # descriptor's spinlock to the maintenance step that runs AFTER its context was saved (an early unlock lets a poller on another
    # kernel thread resume the fiber from a stale context while it is still running).  Harness shared with C08 (e1/C08/ev_e1.c).
    ev_uw = {'fiber_poll_events_internal.0': 3, 'fiber_spinlock_lock.0': 2, 'fiber_event_wake_waiters.0': 4}
    j += pair('e1.ev_wait_handoff', [VERIF + '/e1/C08/ev_e1.c'], 'h_ev_wait_resume', unwind=5, unwindset=ev_uw, timeout=280,
              defines=['C08_MAXFD=4', 'C08_EV_FD=2', 'C08_EV_WAITERS=3'],
              meta={'engine': 'E1 cbmc-src', 'bounds': 'fiber_wait_for_event on descriptor 2 of 4, <=3 waiters, <=2 events, any masks'})
    return j
