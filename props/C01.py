from vlib import *
import sys
sys.path.insert(0, VERIF + '/e2')
import fvm

INFO = dict(
 functions=['fiber_manager_yield', 'fiber_manager_switch_to', 'fiber_manager_do_maintenance', 'fiber_manager_set_and_wait',
            'fiber_manager_wait_in_mpsc_queue', 'fiber_manager_wait_in_mpsc_queue_and_unlock', 'fiber_manager_wait_in_mpmc_queue',
            'fiber_manager_wake_from_mpsc_queue', 'fiber_scheduler_next', 'fiber_scheduler_schedule', 'wsd_work_stealing_deque_push_bottom',
            'wsd_work_stealing_deque_pop_bottom', 'fiber_mark_completed', 'fiber_destroy', 'fiber_signal_wait', 'fiber_mutex_lock',
            'fiber_mutex_unlock_internal', 'fiber_spinlock_lock', 'fiber_spinlock_unlock', 'mpsc_fifo_push', 'mpmc_fifo_push'],
 stubs=['fiber_context_swap(from,to) on ONE kernel thread: "from is now saved, execution continues as to" plus the checks of what must '
        'not have been published at that moment; fiber_context_init/destroy: ghost alive/saved flags instead of a stack',
        '8-slot run-queue arrays instead of the hard-coded 256-slot ones; 2-slot mpmc node pool'],
 assumptions=['compositional argument (DESIGN.md 4/C01): on any number of kernel threads a suspended fiber can only be resumed through a '
              'publication (run queue, wait queue, wake-up location, lock release); each mechanism is shown to publish only after the '
              'switch - except the mpsc wait queues, whose early publication is guarded by state SAVING: the scheduler never hands out '
              'a SAVING fiber (MODE 11) and no waker changes SAVING (MODE 12); the successor flips SAVING to WAITING only after the switch'],
 bounds='one suspension step per mechanism (8 mechanisms) from the real initial runtime state with 2 further ready fibers; scheduler_next for every '
        'mix of {READY, WAITING, SAVING} over 2 queued fibers; wake for state in {WAITING, SAVING}',
 outside='the two-kernel-thread scenario with the real scheduler loops on both threads did not reach a verdict within 15 minutes (symbolic '
         'execution of the real yield/load_balance code from 3 VM threads) and is not claimed; libev back end, split stacks')


def plan(tier, ctx):
    src = ['work_stealing_deque.c', 'fiber_mutex.c', 'fiber_spinlock.c', 'hazard_pointer.c']
    spec = {'spin': 1, 'replace': {'fiber_context_swap': 'f_s_swap', 'fiber_context_init': 'f_s_context_init',
                                   'fiber_context_init_from_thread': 'f_s_context_init_from_thread', 'fiber_context_destroy': 'f_s_context_destroy'},
            'roots': ['s_swap', 's_context_init', 's_context_init_from_thread', 's_context_destroy'],
            'pools': [['fiber_manager_.*#malloc', 1, 1, 48]]}
    names = {1: 'yield', 2: 'set_and_wait', 3: 'mpsc_wait', 4: 'mpsc_wait_unlock', 5: 'mpmc_wait', 6: 'spinlock_wait', 7: 'done_fiber', 8: 'signal_wait',
             11: 'next_skips_saving', 12: 'wake_keeps_saving'}
    j = []
    for mode, nm in names.items():
        j += fvm.config('C01', 'step_' + nm, 'c01_step.c', 1, 6, 'sc', srcs=src, defines=['MODE=%d' % mode], spec=dict(spec),
                        bounds='one kernel thread, mechanism: ' + nm, timeout=900)
    return j
