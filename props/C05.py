from vlib import *
import sys
sys.path.insert(0, VERIF + '/e2')
import fvm

INFO = dict(
 functions=['fiber_cond_init', 'fiber_cond_wait', 'fiber_cond_signal', 'fiber_cond_broadcast', 'fiber_mutex_lock', 'fiber_mutex_unlock',
            'fiber_mutex_unlock_internal', 'fiber_manager_wait_in_mpsc_queue_and_unlock', 'fiber_manager_wake_from_mpsc_queue',
            'fiber_manager_do_maintenance'],
 stubs=['contract kernel (see C03)', 'E1 accounting step (e1/C05/cond_e1.c): every atomic operation of fiber_cond.c on waiter_count is preceded by an arbitrary number of announcements by other fibers (macro redirect of the stdatomic generics; the operation itself unchanged); fiber_mutex_lock/unlock record the holder; fiber_manager_wake_from_mpsc_queue and fiber_manager_wait_in_mpsc_queue_and_unlock record their arguments', 'abstract mutex: fiber_mutex_lock/trylock/unlock/unlock_internal are replaced by the contract that C03 establishes for them (atomic test-and-set, a blocked locker parks); fiber_cond.c itself and the atomic unlock-and-wait path through fiber_manager_wait_in_mpsc_queue_and_unlock / do_maintenance are the real code'],
 assumptions=['assume-guarantee: the runtime contract of C01/C02 holds for yield/schedule', 'x86-TSO mapping of atomics; -O1 IR of clang-14'],
 bounds='E1: one signal/broadcast/wait from any count of announced waiters < 2^28 with arbitrary concurrent announcements; E2: 1-2 waiters, one signaller issuing 1-2 signals or one broadcast, with the mutex held or (predicate mode) after releasing it; counting mode (no predicate loop) and predicate mode; spin bound 1; all interleavings (SC)',
 outside='more waiters/signals, re-waiting more than once, several condition variables on one mutex')


def plan(tier, ctx):
    src = ['fiber_cond.c', 'fiber_mutex.c'] + fvm.KERNEL_SRCS
    j = []
    for h in ('h_signal', 'h_broadcast', 'h_wait'):
        j += pair('e1.cond.' + h, [VERIF + '/e1/C05/cond_e1.c'], h, unwind=3, timeout=300,
                  meta={'engine': 'E1 cbmc-src', 'bounds': 'one operation; any count of announced waiters 0..2^28; arbitrary concurrent announcements before each atomic step'})
    j += fvm.config('C05', 'cond_1w_signal', 'cond.c', 2, 4, 'sc', srcs=src, defines=['NW=1', 'NSIG=1'], spec=fvm.kspec_amutex(2), bounds='1 waiter, 1 signal (counting)', timeout=1200)
    j += fvm.config('C05', 'cond_1w_pred', 'cond.c', 2, 4, 'sc', srcs=src, defines=['NW=1', 'NSIG=1', 'PREDICATE'], spec=fvm.kspec_amutex(2), bounds='1 waiter with predicate loop, 1 signal', timeout=1200)
    j += fvm.config('C05', 'cond_1w_bcast', 'cond.c', 2, 4, 'sc', srcs=src, defines=['NW=1', 'NSIG=1', 'BROADCAST'], spec=fvm.kspec_amutex(2), bounds='1 waiter, 1 broadcast', timeout=1200)
    j += fvm.config('C05', 'cond_1w_pred_outside', 'cond.c', 2, 4, 'sc', srcs=src, defines=['NW=1', 'NSIG=1', 'PREDICATE', 'SIGNAL_OUTSIDE'], spec=fvm.kspec_amutex(2), bounds='1 waiter with predicate loop; predicate set under the mutex, signal sent after unlocking', timeout=1200)
    if tier == 'thorough':
        j += fvm.config('C05', 'cond_1w_pred_outside2', 'cond.c', 2, 4, 'sc', srcs=src, defines=['NW=1', 'NSIG=2', 'PREDICATE', 'SIGNAL_OUTSIDE'], spec=fvm.kspec_amutex(2, spin=0), bounds='as before, preceded by one blind signal without the mutex; spin bound 0', timeout=1500, required=False)
        j += fvm.config('C05', 'cond_2w_bcast', 'cond.c', 3, 4, 'sc', srcs=src, defines=['NW=2', 'NSIG=1', 'BROADCAST'], spec=fvm.kspec_amutex(3), bounds='2 waiters, 1 broadcast', timeout=1500, required=False, mem_gb=24)
        j += fvm.config('C05', 'cond_2w_signal', 'cond.c', 3, 4, 'sc', srcs=src, defines=['NW=2', 'NSIG=1'], spec=fvm.kspec_amutex(3), bounds='2 waiters, 1 signal', timeout=1500, required=False, mem_gb=24)
        j += fvm.config('C05', 'cond_1w_2sig', 'cond.c', 2, 5, 'sc', srcs=src, defines=['NW=1', 'NSIG=2'], spec=fvm.kspec_amutex(2), bounds='1 waiter, 2 signals', timeout=1500, required=False, mem_gb=24)
    return j
