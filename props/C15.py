from vlib import *
import sys
sys.path.insert(0, VERIF + '/e2')
import fvm

INFO = dict(
 functions=['mpsc_fifo_init', 'mpsc_fifo_push', 'mpsc_fifo_trypop', 'spsc_fifo_init', 'spsc_fifo_push', 'spsc_fifo_trypop',
            'mpscr_fifo_create', 'mpscr_fifo_push', 'mpscr_fifo_trypop'],
 stubs=['malloc/calloc: objects of the init phase are created by running the real init code natively and loading the '
        'resulting memory image; free(): liveness ghost'],
 assumptions=['x86-TSO mapping of C11 atomics (loads/stores plain, seq_cst store + fence, RMW atomic); -O1 IR of clang-14',
              'weak CAS does not fail spuriously (x86 cmpxchg)'],
 bounds='mpsc: 2 producers x {1,2} pushes + 1 consumer popping until all items arrived, at most spin_bound empty results '
        'before the consumer is descheduled until the producers are done; spsc: 1 producer x {2,3}; mpscr: 2 producers x 1; '
        'all interleavings (SC) and all store-buffer reorderings (TSO configurations)',
 outside='more producers / items than stated; memory models weaker than x86-TSO; queue destruction')


def plan(tier, ctx):
    j = []
    S = {'spin': 1}
    j += fvm.config('C15', 'mpsc_2x1', 'mpsc.c', 3, 6, 'sc', defines=['NPUSH=1'], spec=S, bounds='2 producers x 1 push, 1 consumer')
    j += fvm.config('C15', 'spsc_2', 'spsc.c', 2, 6, 'sc', defines=['NPUSH=2'], spec=S, bounds='1 producer x 2 pushes, 1 consumer')
    j += fvm.config('C15', 'spsc_2', 'spsc.c', 2, 6, 'tso', defines=['NPUSH=2'], spec=S, bounds='1 producer x 2 pushes, 1 consumer, x86-TSO')
    j += fvm.config('C15', 'mpscr_2x1', 'mpscr.c', 3, 6, 'sc', defines=['NPUSH=1'], spec=S, bounds='2 producers x 1 push, 1 consumer', timeout=900)
    j += fvm.config('C15', 'mpscr_3x1_ctr', 'mpscr.c', 4, 7, 'sc', defines=['NPUSH=1', 'NPROD=3', 'COUNTER_NEAR_2_32'], spec=S, bounds='3 producers x 1 push, read counter starts at a symbolic value around 2^32', timeout=1800, required=False)
    if tier == 'thorough':
        j += fvm.config('C15', 'mpsc_2x2', 'mpsc.c', 3, 8, 'sc', defines=['NPUSH=2'], spec=S, bounds='2 producers x 2 pushes, 1 consumer', timeout=900)
        j += fvm.config('C15', 'mpsc_2x1', 'mpsc.c', 3, 6, 'tso', defines=['NPUSH=1'], spec=S, bounds='2 producers x 1 push, x86-TSO', timeout=1200, mem_gb=16)
        j += fvm.config('C15', 'spsc_3', 'spsc.c', 2, 8, 'sc', defines=['NPUSH=3'], spec=S, bounds='1 producer x 3 pushes', timeout=900)
        j += fvm.config('C15', 'spsc_3', 'spsc.c', 2, 8, 'tso', defines=['NPUSH=3'], spec=S, bounds='1 producer x 3 pushes, x86-TSO', timeout=1800, mem_gb=16, required=False)
    return j
