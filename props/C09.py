from vlib import *
from props import C09_e1

INFO = dict(C09_e1.INFO)


def plan(tier, ctx):
    jobs = list(C09_e1.plan(tier, ctx))
    try:
        from props import C09_e2
    except ImportError:
        return jobs
    for k in ('functions', 'stubs', 'assumptions'):
        INFO[k] = list(dict.fromkeys(list(INFO.get(k, [])) + list(C09_e2.INFO.get(k, []))))
    INFO['bounds'] = str(C09_e1.INFO.get('bounds', '')) + ' | E2: ' + str(C09_e2.INFO.get('bounds', ''))
    INFO['outside'] = str(C09_e1.INFO.get('outside', '')) + ' | E2: ' + str(C09_e2.INFO.get('outside', ''))
    return jobs + list(C09_e2.plan(tier, ctx))
