from vlib import *

SHIMS = ['read', 'readv', 'recv', 'recvfrom', 'recvmsg', 'write', 'writev', 'send', 'sendto', 'sendmsg',
         'accept', 'connect']
LOOPING = [s for s in SHIMS if s not in ('accept', 'connect')]   # shims with a retry loop (<name>.0)

INFO = dict(
 functions=[
  'fiber_io.c: read readv recv recvfrom recvmsg write writev send sendto sendmsg accept connect socket socketpair '
  'pipe fcntl ioctl close should_block setup_socket fiber_io_lock_thread fiber_io_unlock_thread',
  'fiber_event_native.c: fiber_wait_for_event fiber_fd_closed fiber_event_wake_waiters fiber_poll_events_internal '
  '(fd branch; timer branch with an empty sleeper tree)',
  'fiber_spinlock.c: fiber_spinlock_lock fiber_spinlock_unlock (ev_e1.c only)',
  'fiber_manager.h: fiber_manager_schedule'],
 stubs=[
  'fibershim_read/readv/recv/recvfrom/recvmsg/write/writev/send/sendto/sendmsg/accept/connect: ghost kernel answer for a '
  'non-blocking descriptor: EBADF for an invalid fd; EAGAIN (==EWOULDBLOCK) at most C08_EAGAIN_ROUNDS times per call and only '
  'if the descriptor is really O_NONBLOCK; EINPROGRESS once (connect); any other errno; success 0..min(len,0x7ffff000) bytes '
  '(Linux MAX_RW_COUNT), writes of len>0 at least 1; accept hands out an unused number in [1,max_fd) ([0,max_fd) in the fd-0 harness)',
  'fibershim_fcntl: ghost kernel O_NONBLOCK / status flags per descriptor; EBADF for an invalid fd; may fail where stated',
  'fibershim_ioctl / fibershim_close / fibershim_socket / socketpair / pipe, setsockopt, getsockopt(SO_ERROR): ghost kernel '
  '(fresh descriptor numbers are unused and < max_fd; close always releases the number)',
  'dlsym: never reached (every fibershim pointer is preset); asserted',
  'io_e1.c: fiber_wait_for_event = contract stub (records fd/direction, havocs errno, returns SUCCESS = readiness incl. '
  'spurious, or ERROR = descriptor closed by another fiber where the harness allows it); fiber_fd_closed records its calls',
  'fiber_manager_get: dummy manager (current_fiber = ghost fiber); fiber_sleep (io_e1.c) returns SUCCESS',
  'ev_e1.c / ioev_e1.c: epoll_ctl/epoll_wait = epoll interest-set + armed-mask model (ADD->EEXIST, MOD/DEL->ENOENT when '
  'inconsistent, one-shot disarm on delivery); timer read returns 8 bytes or EAGAIN; fiber_scheduler_schedule records the '
  'fiber in a ghost list; fiber_manager_yield = deferred spinlock unlock as in fiber_manager_do_maintenance, then the rest of '
  'the system runs (another fiber may register on the same descriptor; then the REAL poller or a REAL close wakes the waiters)',
  'ioev_e1.c: fiber_spinlock_lock/unlock replaced by an address-checking ghost lock (lock address inside wait_info[0..max_fd), '
  'free when taken); statics max_fd/fibershim_read/readFnType of fiber_event_native.c renamed textually (one translation unit)'],
 assumptions=[
  'runtime initialised (calls are made from a fiber): fd_info/wait_info allocated with exactly max_fd entries, event_fd >= 0',
  'INV1 fd_info[i].flags_ uses only IO_FLAG_BLOCKING|IO_FLAG_WAITABLE; INV2 WAITABLE => descriptor open, really O_NONBLOCK, created '
  'by a shim; INV3 closed descriptor => flags_ == 0 (mode requests on closed descriptors are checked separately: h_closedfd_mode)',
  'INV-E1 wait_info[i].added <=> descriptor in the epoll interest set; INV-E2 events subset of EPOLLIN|EPOLLOUT, zero when not added; '
  'every record quiescent at harness start (no waiter, spinlock free at an arbitrary ticket)',
  'the kernel only hands out descriptor numbers < max_fd (max_fd is the RLIMIT_NOFILE hard limit)',
  'the application does not pass the runtime private epoll/timer descriptors to the shims',
  'epoll_wait fails only with EINTR; events name the timer or a descriptor in [0,max_fd)',
  'fcntl third argument is passed as long (the int-vs-long variadic read in fcntl() is ABI-defined, not checked)',
  'h_blk_*: no other fiber closes the descriptor during the call (that case: h_abort_*)',
  'h_create_accept: at most one EAGAIN and accepted descriptor != 0 (fd 0: h_create_accept_fd0; retry: h_blk_accept)'],
 bounds='max_fd = 4 (thorough: 6/8); descriptor argument: any int; lengths: any size_t; <= 3 EAGAIN rounds per call (thorough 5); '
        '<= 3 fibers blocked on one descriptor (any mix of directions), <= 2 epoll events per poll, arbitrary event masks',
 outside='kernel behaviour itself (socket buffers, real epoll readiness, byte contents), dup/dup2/open/poll/select (not shimmed), '
         'mode changes on descriptors not created through the shims, calls from non-fiber threads or before fiber_manager_init, '
         'concurrent (multi-kernel-thread) interleavings inside one wait record (sequential composition under the fd spinlock only), '
         '"other fibers keep running" (scheduler contract C01), transfers > 0x7ffff000 bytes per real call (impossible on Linux)')


def plan(tier, ctx):
    d = VERIF + '/e1/C08/'
    io, ev, ioev = [d + 'io_e1.c'], [d + 'ev_e1.c'], [d + 'ioev_e1.c']
    thorough = tier == 'thorough'
    jobs = []

    # ---- part 1: fiber_io.c against the ghost kernel
    if thorough:
        io_defs, io_unw, io_b = ['C08_MAXFD=8', 'C08_EAGAIN_ROUNDS=5'], 10, 'max_fd=8, <=5 EAGAIN rounds, any fd/len/flags'
    else:
        io_defs, io_unw, io_b = [], 6, 'max_fd=4, <=3 EAGAIN rounds, any fd/len/flags'
    for kind in ('blk', 'nowait', 'abort', 'anyfd'):
        for s in SHIMS:
            jobs += pair('e1.io.%s.%s' % (kind, s), io, 'h_%s_%s' % (kind, s), unwind=io_unw, timeout=120,
                         defines=io_defs, meta={'engine': 'E1 cbmc-src', 'bounds': io_b})
    for h in ('create_socket', 'create_socketpair', 'create_pipe', 'create_accept', 'create_accept_fd0',
              'mode_restore', 'fcntl_other', 'fcntl_setfl_forward', 'getfl', 'ioctl_other', 'ioctl_fionbio_null',
              'close', 'closedfd_mode'):
        jobs += pair('e1.io.' + h, io, 'h_' + h, unwind=io_unw, timeout=120, defines=io_defs,
                     meta={'engine': 'E1 cbmc-src', 'bounds': io_b})

    # ---- part 2: fiber_event_native.c (fd half) + real spinlock against the epoll/scheduler model
    maxfd = 6 if thorough else 4
    ev_uw = {'fiber_poll_events_internal.0': 3, 'fiber_spinlock_lock.0': 2, 'fiber_event_wake_waiters.0': 4}
    for k in range(maxfd):
        jobs += pair('e1.ev.wait_resume.fd%d' % k, ev, 'h_ev_wait_resume', unwind=maxfd + 1, unwindset=ev_uw, timeout=280,
                     defines=['C08_MAXFD=%d' % maxfd, 'C08_EV_FD=%d' % k, 'C08_EV_WAITERS=3'],
                     meta={'engine': 'E1 cbmc-src', 'bounds': 'descriptor %d of %d, <=3 waiters, <=2 events, any masks' % (k, maxfd)})
    for h in ('h_ev_close_idle', 'h_ev_poll_idle'):
        jobs += pair('e1.ev.' + h[5:], ev, h, unwind=maxfd + 1, unwindset=ev_uw, timeout=280, defines=['C08_MAXFD=%d' % maxfd],
                     meta={'engine': 'E1 cbmc-src', 'bounds': 'max_fd=%d, any descriptor, <=2 events' % maxfd})

    # ---- part 3: fiber_io.c + fiber_event_native.c linked, arbitrary descriptor values
    rounds = 2 if thorough else 1
    sys_defs = ['C08_MAXFD=%d' % maxfd, 'C08_SYS_EAGAIN=%d' % rounds]
    base_uw = {'fiber_poll_events_internal.0': 2, 'fiber_event_wake_waiters.0': 4}
    for k in range(maxfd):
        for s in SHIMS:
            uw = dict(base_uw)
            if s in LOOPING:
                uw[s + '.0'] = rounds + 2
            jobs += pair('e1.sys.%s.fd%d' % (s, k), ioev, 'h_sys_' + s, unwind=maxfd + 1, unwindset=uw, timeout=280,
                         defines=sys_defs + ['C08_FD=%d' % k],
                         meta={'engine': 'E1 cbmc-src', 'bounds': 'descriptor %d of %d (any state), <=%d EAGAIN, real wait/wake path' % (k, maxfd, rounds)})
    for s in ('fcntl', 'ioctl', 'close'):
        for k in list(range(maxfd)) + [None]:
            nm = 'fd%d' % k if k is not None else 'outofrange'
            jobs += pair('e1.sys.%s.%s' % (s, nm), ioev, 'h_sys_' + s, unwind=maxfd + 1, unwindset=base_uw, timeout=280,
                         defines=sys_defs + (['C08_FD=%d' % k] if k is not None else []),
                         meta={'engine': 'E1 cbmc-src',
                               'bounds': ('descriptor %d of %d' % (k, maxfd)) if k is not None else 'any int outside [0,max_fd)'})
    return jobs
