from vlib import *
import sys
sys.path.insert(0, VERIF + '/e2')
import fvm

INFO = dict(
 functions=['fiber_barrier_init', 'fiber_barrier_wait', 'fiber_manager_wait_in_mpsc_queue', 'fiber_manager_wake_from_mpsc_queue',
            'fiber_manager_do_maintenance', 'mpsc_fifo_push', 'mpsc_fifo_trypop'],
 stubs=['contract kernel (see C03)', 'E1 round harness (e1/C12/barrier_e1.c): fiber_manager_wake_from_mpsc_queue = its documented behaviour (pop the head of the given fifo until n fibers were woken, spin while empty) over abstract FIFOs of round tags, with an environment step before every pop attempt: a participant that has arrived but not yet enqueued may enqueue, a fiber already released by this call may re-enter the barrier (real call) for round k+1; fiber_manager_wait_in_mpsc_queue = enqueue the caller tag on the given fifo now or later'],
 assumptions=['assume-guarantee: the runtime contract of C01/C02 holds for yield/schedule', 'x86-TSO mapping of atomics; -O1 IR of clang-14'],
 bounds='E1: one complete round k < 2^32 for every count 1..4 (thorough: 5 as a stretch job; 6 has no verdict in 15 min): all arrivals are real calls, any subset of the early arrivers still in the arrived-but-not-enqueued window, released fibers re-entering round k+1 during the release, <= 2 empty polls; E2: inductive step for count 3 (one wait call from an arbitrary arrival count incl. 2^32 / 2^64 boundaries); count 2 one round (SC, TSO), count 1 two rounds; thorough stretch: count 2 x 2 rounds, count 3 programs',
 outside='E2: counts > 3, more than 2 rounds; E1: counts > 6, the wake/wait queue code itself (C03/C15 and the E2 scenarios), 2^64 arrivals (counter wrap with count not a power of two)')


def plan(tier, ctx):
    src = ['fiber_barrier.c', 'fiber_mutex.c'] + fvm.KERNEL_SRCS
    j = []
    for mc in ((2, 4) if tier == 'quick' else (2, 4, 5)):
        j += pair('e1.barrier.round.maxc%d' % mc, [VERIF + '/e1/C12/barrier_e1.c'], 'h_round', unwind=2 * mc + 4, timeout=900 if mc <= 4 else 1500, defines=['MAXC=%d' % mc], required=(mc <= 4),
                  meta={'engine': 'E1 cbmc-src', 'bounds': 'one complete round k < 2^32 of a barrier with count 1..%d: every arrival is a real fiber_barrier_wait call; each early arriver enqueued at once or later; released fibers re-enter round k+1 while the serial fiber is still releasing; <= 2 empty polls' % mc})
    j += fvm.config('C12', 'barrier_step3', 'barrier_step.c', 3, 4, 'sc', srcs=src, spec=fvm.kspec(3), bounds='count 3: one wait call from an arbitrary arrival count (small, around 2^32, around 2^64) with the earlier arrivers of the round queued', timeout=1200)
    j += fvm.config('C12', 'barrier_1x2', 'barrier.c', 1, 4, 'sc', srcs=src, defines=['NF=1', 'ROUNDS=2'], spec=fvm.kspec(1), bounds='count 1, 2 rounds (every wait is the serial one)', timeout=600)
    if tier == 'thorough':
        # ~13 min since fix 619b508 (queue selected by a computed index): beyond the budget of an every-change run
        j += fvm.config('C12', 'barrier_2x1', 'barrier.c', 2, 4, 'sc', srcs=src, defines=['NF=2', 'ROUNDS=1'], spec=fvm.kspec(2), bounds='count 2, 1 round', timeout=3000)
        j += fvm.config('C12', 'barrier_3_phantom', 'barrier.c', 2, 4, 'sc', srcs=src, defines=['NF=2', 'ROUNDS=2', 'PHANTOM'], spec=fvm.kspec(2), bounds='count 3: a third participant has arrived at round 0 but is stalled before enqueuing; fiber 1 re-enters at once (2 waits), fiber 2 waits once', timeout=1500, required=False)
        # since fix 619b508 the queue is selected by a computed index: the TSO run of count 2 went from ~5 min to > 25 min: stretch job now
        j += fvm.config('C12', 'barrier_2x1', 'barrier.c', 2, 4, 'tso', srcs=src, defines=['NF=2', 'ROUNDS=1'], spec=fvm.kspec(2), bounds='count 2, 1 round, x86-TSO', timeout=1500, required=False)
        j += fvm.config('C12', 'barrier_2x2_s0', 'barrier.c', 2, 3, 'sc', srcs=src, defines=['NF=2', 'ROUNDS=2'], spec=fvm.kspec(2, spin=0), bounds='count 2, 2 rounds, spin bound 0', timeout=1500, required=False)
        j += fvm.config('C12', 'barrier_3x1_wrap', 'barrier.c', 3, 5, 'sc', srcs=src, defines=['NF=3', 'ROUNDS=1', 'COUNTER_START'], spec=fvm.kspec(3), bounds='count 3, 1 round, arrival counter starts at a symbolic round boundary around 2^32', timeout=1500, required=False, mem_gb=24)
        j += fvm.config('C12', 'barrier_3_reenter', 'barrier.c', 3, 4, 'sc', srcs=src, defines=['NF=3', 'ROUNDS=2', 'ASYM'], spec=fvm.kspec(3), bounds='count 3; two fibers wait once, one re-enters the barrier immediately', timeout=1500, required=False, mem_gb=24)
        j += fvm.config('C12', 'barrier_2x2', 'barrier.c', 2, 4, 'sc', srcs=src, defines=['NF=2', 'ROUNDS=2'], spec=fvm.kspec(2), bounds='count 2, 2 rounds', timeout=1500, required=False)
        j += fvm.config('C12', 'barrier_3x2', 'barrier.c', 3, 5, 'sc', srcs=src, defines=['NF=3', 'ROUNDS=2'], spec=fvm.kspec(3), bounds='count 3, 2 rounds', timeout=1500, required=False, mem_gb=24)
        j += fvm.config('C12', 'barrier_3x1', 'barrier.c', 3, 5, 'sc', srcs=src, defines=['NF=3', 'ROUNDS=1'], spec=fvm.kspec(3), bounds='count 3, 1 round', timeout=1500, required=False, mem_gb=24)
    return j
