from vlib import *
from props import C14_e1

INFO = dict(C14_e1.INFO)


def plan(tier, ctx):
    jobs = list(C14_e1.plan(tier, ctx))
    try:
        from props import C14_e2
    except ImportError:
        return jobs
    for k in ('functions', 'stubs', 'assumptions'):
        INFO[k] = list(dict.fromkeys(list(INFO.get(k, [])) + list(C14_e2.INFO.get(k, []))))
    INFO['bounds'] = str(C14_e1.INFO.get('bounds', '')) + ' | E2: ' + str(C14_e2.INFO.get('bounds', ''))
    INFO['outside'] = str(C14_e1.INFO.get('outside', '')) + ' | E2: ' + str(C14_e2.INFO.get('outside', ''))
    # "no structure built on it dereferences a reclaimed node": the mpmc fifo's pop/push against the adversarial environment of the
    # C13 step harness, with reclamation as a REAL free() so that CBMC's pointer checks flag every access to a reclaimed node
    SRC = VERIF + '/e1/C13/mpmc_e1.c'
    uaf = []
    for h, loop in (('h_trypop', 'mpmc_fifo_trypop.0'), ('h_push', 'mpmc_fifo_push.0')):
        uaf += pair('e1.mpmc_uaf.' + h[2:], [SRC], h, unwind=7, unwindset={loop: 4}, timeout=1500, mem_gb=12,
                    defines=['NP=3', 'ENV_BUDGET=2', 'PRE_ENV=2', 'SPUR_BUDGET=0', 'ENV_PER_POINT=1', 'REAL_FREE'],
                    meta={'engine': 'E1 cbmc-src', 'bounds': 'one real mpmc_fifo pop/push, 3 environment nodes as heap objects, 2 environment actions during the operation, 2 before; reclamation = free(); hazard-pointer contract as in C13'})
    INFO['functions'] = list(INFO['functions']) + ['mpmc_fifo_trypop', 'mpmc_fifo_push', 'hazard_pointer_using', 'hazard_pointer_done_using']
    INFO['stubs'] = list(INFO['stubs']) + ['e1.mpmc_uaf.*: the environment of the C13 step harness (e1/C13/mpmc_e1.c, -DREAL_FREE): other threads pop, push, link and reclaim; a retired node not covered by a hazard pointer published before its retirement is free()d']
    INFO['bounds'] = INFO['bounds'] + ' | mpmc use-after-reclaim: one pop/push, 3 environment nodes, 2 environment actions'
    return jobs + uaf + list(C14_e2.plan(tier, ctx))
