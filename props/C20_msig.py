from vlib import *
import sys
sys.path.insert(0, VERIF + '/e2')
import fvm


def plan(tier):
    src = ['fiber_mutex.c'] + fvm.KERNEL_SRCS
    j = []
    eb = 2 if tier == 'quick' else 4
    for h in ('h_wait', 'h_raise'):
        j += pair('e1.msig.' + h, [VERIF + '/e1/C20/msig_e1.c'], h, unwind=eb + 3, timeout=600, defines=['ENV_BUDGET=%d' % eb],
                  meta={'engine': 'E1 cbmc-src', 'bounds': 'one real multi-signal wait/raise from an arbitrary (counter < 2^40, head in {NULL, RAISED, waiter list of <= 3 other fibers}) pair; <= %d arbitrary environment transitions, each before any atomic access (between the two loads of a snapshot, before the double-word CAS)' % eb})
    j += fvm.config('C20', 'msig_1w1r', 'msig.c', 2, 4, 'sc', srcs=src, defines=['NW=1', 'NR=1'], spec=fvm.kspec(2), bounds='multi-signal: 1 waiter, 1 raiser (contract kernel)', timeout=900)
    if tier == 'thorough':
        j += fvm.config('C20', 'msig_2w1r', 'msig.c', 3, 4, 'sc', srcs=src, defines=['NW=2', 'NR=1'], spec=fvm.kspec(3), bounds='multi-signal: 2 waiters, 1 raiser', timeout=1800, required=False)
        j += fvm.config('C20', 'msig_2w2r', 'msig.c', 4, 5, 'sc', srcs=src, defines=['NW=2', 'NR=2'], spec=fvm.kspec(4), bounds='multi-signal: 2 waiters, 2 raisers', timeout=3600, required=False, mem_gb=24)
        j += fvm.config('C20', 'msig_1w2r', 'msig.c', 3, 4, 'sc', srcs=src, defines=['NW=1', 'NR=2'], spec=fvm.kspec(3), bounds='multi-signal: 1 waiter, 2 raisers', timeout=3600, required=False, mem_gb=24)
    return j
