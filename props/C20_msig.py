from vlib import *
import sys
sys.path.insert(0, VERIF + '/e2')
import fvm


def plan(tier):
    src = ['fiber_mutex.c'] + fvm.KERNEL_SRCS
    j = []
    j += fvm.config('C20', 'msig_1w1r', 'msig.c', 2, 4, 'sc', srcs=src, defines=['NW=1', 'NR=1'], spec=fvm.kspec(2), bounds='multi-signal: 1 waiter, 1 raiser (contract kernel)', timeout=900)
    if tier == 'thorough':
        j += fvm.config('C20', 'msig_2w1r', 'msig.c', 3, 4, 'sc', srcs=src, defines=['NW=2', 'NR=1'], spec=fvm.kspec(3), bounds='multi-signal: 2 waiters, 1 raiser', timeout=1800, required=False)
        j += fvm.config('C20', 'msig_2w2r', 'msig.c', 4, 5, 'sc', srcs=src, defines=['NW=2', 'NR=2'], spec=fvm.kspec(4), bounds='multi-signal: 2 waiters, 2 raisers', timeout=3600, required=False, mem_gb=24)
        j += fvm.config('C20', 'msig_1w2r', 'msig.c', 3, 4, 'sc', srcs=src, defines=['NW=1', 'NR=2'], spec=fvm.kspec(3), bounds='multi-signal: 1 waiter, 2 raisers', timeout=3600, required=False, mem_gb=24)
    return j
