from vlib import *
import sys
sys.path.insert(0, VERIF + '/e2')
import fvm

INFO = dict(
 functions=['fiber_yield', 'fiber_manager_yield', 'fiber_manager_switch_to', 'fiber_manager_do_maintenance', 'fiber_scheduler_schedule',
            'fiber_scheduler_next', 'fiber_scheduler_load_balance', 'wsd_work_stealing_deque_push_bottom', 'wsd_work_stealing_deque_pop_bottom',
            'fiber_create', 'fiber_create_no_sched', 'fiber_manager_create', 'fiber_scheduler_init'],
 stubs=['fiber_context_swap(from,to): "execution continues as the target fiber" plus ghost bookkeeping (exact for fibers that only yield, on one kernel thread)',
        'fiber_context_init/destroy: no stack is allocated', 'the two run queues get 8-slot (one configuration: 2-slot, growing) arrays instead of the hard-coded 256-slot ones'],
 assumptions=['one kernel thread (no stealing that could mask starvation)'],
 bounds='n = 3, 4 or 5 ready fibers (2-4 created fibers + the thread fiber) that all keep yielding, 3n+2 consecutive yields; the run is sequential, '
        'the solver evaluates the real scheduler code on it',
 outside='fibers that block or finish inside the window; more than one kernel thread (stealing); n > 5')


def plan(tier, ctx):
    src = ['work_stealing_deque.c', 'fiber.c', 'fiber_mutex.c', 'fiber_spinlock.c', 'hazard_pointer.c']
    spec = {'spin': 1, 'replace': {'fiber_context_swap': 'f_k_swap', 'fiber_context_init': 'f_k_context_init',
                                   'fiber_context_init_from_thread': 'f_k_context_init_from_thread', 'fiber_context_destroy': 'f_k_context_destroy'},
            'roots': ['k_swap', 'k_context_init', 'k_context_init_from_thread', 'k_context_destroy'], 'no_free': True}
    j = []
    for n in ((2, 3) if tier == 'quick' else (2, 3, 4)):
        steps = 3 * (n + 1) + 2
        j += fvm.config('C10', 'fair_n%d' % (n + 1), 'fair.c', 1, steps + 2, 'sc', srcs=src, defines=['NFIB=%d' % n, 'STEPS=%d' % steps],
                        spec=dict(spec), bounds='%d ready fibers, %d yields' % (n + 1, steps), timeout=900)
    # small initial arrays: the run queues reach their capacity and grow while the fibers yield (array-capacity boundary)
    n = 4
    steps = 3 * (n + 1) + 2
    gs = dict(spec); gs['pools'] = [['wsd_.*#malloc', 1, 3, 96]]
    j += fvm.config('C10', 'fair_n5_grow', 'fair.c', 1, steps + 2, 'sc', srcs=src, defines=['NFIB=%d' % n, 'STEPS=%d' % steps, 'QLOG=1'],
                    spec=gs, bounds='5 ready fibers, run-queue arrays start with 2 slots and grow during the run', timeout=900)
    # wake-ups, not only yields: fibers 1 and 2 hand off to each other by wake-then-block while the main fiber and a worker only yield
    n = 3
    steps = 3 * (n + 1) + 2
    j += fvm.config('C10', 'fair_handoff', 'fair.c', 1, steps + 2, 'sc', srcs=src, defines=['NFIB=%d' % n, 'STEPS=%d' % steps, 'HANDOFF'],
                    spec=dict(spec), bounds='4 fibers: two hand off by wake-then-block, two only yield; %d scheduling steps' % steps, timeout=900)
    j += fvm.config('C10', 'fair_saving_queued', 'fair.c', 1, steps + 2, 'sc', srcs=src, defines=['NFIB=%d' % n, 'STEPS=%d' % steps, 'SAVING_QUEUED'],
                    spec=dict(spec), bounds='4 yielding fibers plus a queued fiber that stays in state SAVING (woken before its switch-out finished); %d yields' % steps, timeout=900)
    return j
