from vlib import *
import sys
sys.path.insert(0, VERIF + '/e2')
import fvm

INFO = dict(
 functions=['fiber_signal_init', 'fiber_signal_wait', 'fiber_signal_raise', 'fiber_bounded_channel_create', 'fiber_bounded_channel_send',
            'fiber_bounded_channel_receive', 'fiber_unbounded_channel_send', 'fiber_unbounded_channel_receive',
            'fiber_unbounded_sp_channel_send', 'fiber_unbounded_sp_channel_receive', 'fiber_multi_channel_create', 'fiber_multi_channel_send', 'fiber_multi_channel_receive', 'fiber_multi_channel_internal_wait', 'fiber_multi_channel_internal_wake',
            'mpsc_fifo_push', 'mpsc_fifo_trypop', 'spsc_fifo_push', 'spsc_fifo_trypop', 'fiber_manager_do_maintenance'],
 stubs=['contract kernel (see C03)', 'E1 multi-channel step: fiber_mutex_lock = havoc of the channel to any state satisfying INV (others ran), fiber_manager_yield = hand-off contract + return as woken, fiber_scheduler_schedule = records the woken fiber, fiber_mutex_unlock = guarantee check', 'sigflag: the message queue of a channel abstracted to one plain word (publish, then raise / reset, then re-check)', 'multi channel: fiber_mutex replaced by its C03 contract (abstract mutex)'],
 assumptions=['assume-guarantee: the runtime contract of C01/C02 holds for yield/schedule', 'x86-TSO mapping of atomics; -O1 IR of clang-14'],
 bounds='multi channel: one send/receive from an arbitrary valid state, capacity 2,4 (8 thorough), <= 2 (4) sleeps per operation, fewer than 2^64-1 messages; channel receive pattern (signal + one-word queue) 1 message, signal initially clear or raised, SC and x86-TSO; signal wait/raise handshake: 1 waiter x 1-2 waits, 1-2 raisers, all interleavings (SC) - decided; channels (queue + signal): capacity 2, 1-2 senders x 1-2 messages, 1 receiver - stretch jobs of the thorough tier, no verdict within 40 min so far: for channels the claim rests on composition (queue correctness = C15/C16, never-lost raise = the signal scenarios)',
 outside='more messages/senders; capacities > 2')


def plan(tier, ctx):
    src = ['fiber_mutex.c'] + fvm.KERNEL_SRCS
    j = []
    # E1: one real multi-channel send/receive from an arbitrary valid channel state (rely/guarantee step)
    mb = 2 if tier == 'quick' else 4
    for cp in ((1, 2) if tier == 'quick' else (1, 2, 3)):
        for h in ('h_send', 'h_receive'):
            j += pair('e1.mchan.%s.cap%d' % (h, 1 << cp), [VERIF + '/e1/C11/mchan_e1.c'], h, unwind=max((1 << cp) + 2, mb + 2), timeout=600, defines=['MAX_BLOCK=%d' % mb, 'CAP_POW=%d' % cp],
                      meta={'engine': 'E1 cbmc-src', 'bounds': 'capacity %d; arbitrary channel state (INV) after every lock acquisition; <= %d sleeps per operation' % (1 << cp, mb)})
    j += fvm.config('C11', 'signal_1w1r', 'signal.c', 2, 4, 'sc', srcs=src, defines=['NRAISE=1', 'NWAITS=1'], spec=fvm.kspec(2), bounds='1 wait, 1 raise', timeout=900)
    j += fvm.config('C11', 'signal_1w2r', 'signal.c', 3, 4, 'sc', srcs=src, defines=['NRAISE=2', 'NWAITS=1'], spec=fvm.kspec(3), bounds='1 wait, 2 raisers', timeout=1200)
    for mm in ('sc', 'tso'):
        j += fvm.config('C11', 'sigflag', 'sigflag.c', 2, 4, mm, srcs=src, spec=fvm.kspec(2), bounds='channel receive pattern over the real signal, queue abstracted to one word; signal initially clear or RAISED (symbolic); 1 message; %s' % mm, timeout=1500)
    if tier == 'thorough':
        j += fvm.config('C11', 'chan_unbounded_1x1', 'chan.c', 2, 4, 'sc', srcs=src, defines=['KIND=2', 'NSEND=1', 'NMSG=1'], spec=fvm.kspec(2), bounds='unbounded channel, 1 sender x 1', timeout=900, required=False)
        j += fvm.config('C11', 'mchan_1s1r_3', 'mchan.c', 2, 5, 'sc', srcs=src, defines=['NSEND=1', 'NRECV=1', 'NMSG=3'], spec=fvm.kspec_amutex(2),
                        bounds='multi channel cap 2 (abstract mutex), 1 sender x 3, 1 receiver (the sender must block on the full channel)', timeout=900, required=False)
        j += fvm.config('C11', 'chan_bounded_1x2', 'chan.c', 2, 5, 'sc', srcs=src, defines=['KIND=1', 'NSEND=1', 'NMSG=2'], spec=fvm.kspec(2), bounds='bounded channel cap 2, 1 sender x 2', timeout=900, required=False)
        j += fvm.config('C11', 'chan_sp_1x2', 'chan.c', 2, 5, 'sc', srcs=src, defines=['KIND=3', 'NSEND=1', 'NMSG=2'], spec=fvm.kspec(2), bounds='single-producer channel, 2 messages', timeout=900, required=False)
        j += fvm.config('C11', 'chan_unbounded_1x2', 'chan.c', 2, 5, 'sc', srcs=src, defines=['KIND=2', 'NSEND=1', 'NMSG=2'], spec=fvm.kspec(2), bounds='unbounded channel, 1 sender x 2', timeout=900, required=False)
        j += fvm.config('C11', 'signal_2w2r', 'signal.c', 3, 5, 'sc', srcs=src, defines=['NRAISE=2', 'NWAITS=2'], spec=fvm.kspec(3), bounds='2 waits, 2 raisers', timeout=900, required=False)
        j += fvm.config('C11', 'chan_unbounded_2x1', 'chan.c', 3, 5, 'sc', srcs=src, defines=['KIND=2', 'NSEND=2', 'NMSG=1'], spec=fvm.kspec(3), bounds='unbounded channel, 2 senders x 1', timeout=900, required=False)
        j += fvm.config('C11', 'chan_bounded_2x1', 'chan.c', 3, 5, 'sc', srcs=src, defines=['KIND=1', 'NSEND=2', 'NMSG=1'], spec=fvm.kspec(3), bounds='bounded channel cap 2, 2 senders x 1', timeout=900, required=False)
        j += fvm.config('C11', 'chan_sp_1x2', 'chan.c', 2, 5, 'tso', srcs=src, defines=['KIND=3', 'NSEND=1', 'NMSG=2'], spec=fvm.kspec(2), bounds='single-producer channel, TSO', timeout=900, required=False)
    if tier == 'thorough':
        j += fvm.config('C11', 'mchan_2s1r', 'mchan.c', 3, 5, 'sc', srcs=src, defines=['NSEND=2', 'NRECV=1', 'NMSG=2'], spec=fvm.kspec_amutex(3),
                        bounds='multi channel cap 2, 2 senders x 2, 1 receiver', timeout=900, required=False, mem_gb=24)
    return j
