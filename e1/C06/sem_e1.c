/* E1 harness for C06 (semaphore): ONE real fiber_semaphore_wait / _trywait / _post_internal / _post (src/fiber_semaphore.c,
 * unmodified, #included below) as a rely/guarantee step over the counter word.
 *
 * counter >= 0: free units; counter < 0: -counter announced waiters that no post has taken over yet.
 * Environment model (every stub is part of the claim):
 *   - every atomic operation of fiber_semaphore.c on semaphore->counter is preceded by arbitrary interference: other fibers'
 *     waits/trywaits/posts may have replaced the counter by ANY value in (-2^30, 2^30) (macro redirect of the <stdatomic.h>
 *     generics; the operation itself is performed unchanged on the word); a weak compare-exchange may also fail spuriously;
 *     at most MAX_OPS atomic steps per operation (bound on retries);
 *   - fiber_manager_wait_in_mpmc_queue: records the queue and returns (the later resumption belongs to the post that wakes it);
 *   - fiber_manager_wake_from_mpmc_queue(manager, fifo, count): records the queue, returns an arbitrary admissible result
 *     (count == 0: 0 or 1 fibers woken - 0 when the announced waiter is not enqueued yet; count > 0: between 1 and count);
 *     the queue itself (mpmc_fifo + hazard pointers) is property C13 and NOT part of this check;
 *   - fiber_yield, fiber_manager_get, fiber_manager_get_mpmc_node: trivial.
 * Guarantee asserted (the accounting every history is built from):
 *   wait:     changes the counter by exactly -1, once; returns without sleeping iff a unit was free (old value >= 1), otherwise
 *             sleeps exactly once on the semaphore's own queue, after announcing itself;
 *   trywait:  never sleeps; succeeds iff it moved the counter from a value >= 1 down by one (one successful CAS); fails only after
 *             observing no free unit; changes nothing when it fails;
 *   post:     contributes exactly +1; either hands its unit to exactly one sleeping waiter (only after observing a negative
 *             counter, wake on the semaphore's own queue) or adds it to a non-negative counter; never both, never two waiters;
 *             a failed wake attempt (waiter announced but not yet enqueued) changes nothing and is retried. */
#include <stdint.h>
#include "fiber_semaphore.h"
#include "fiber_manager.h"

#ifndef MAX_OPS
#define MAX_OPS 4
#endif
#define BIG (1 << 30)
int nondet_int(void);
_Bool nondet_bool(void);

static fiber_semaphore_t S;
static fiber_manager_t the_manager;
static int interfere_on;
static int n_ops;              /* atomic steps of the operation on the counter */
static int pre_value;          /* counter right before the operation's current atomic step (after interference) */
static long own_delta;         /* sum of the changes the operation itself made */
static int n_changes;          /* number of atomic steps that changed the counter */
static int last_change_old;
static int last_observed;      /* value seen by the most recent atomic step (load or RMW) */
static int n_waitq, n_wake_calls, n_woken, wake_bad_queue, wake_without_negative, change_after_wake_fail;
static int ops_at_last_wake;

static int is_counter(volatile void* p) { return p == (volatile void*)&S.counter; }
static void verif_env(volatile void* p) {
  if (!is_counter(p)) return;
  n_ops++;
  __CPROVER_assume(n_ops <= MAX_OPS);
  if (interfere_on && nondet_bool()) {
    int v = nondet_int();
    __CPROVER_assume(v > -BIG && v < BIG);
    S.counter = v;
  }
  pre_value = S.counter;
  last_observed = pre_value;
}
static void verif_after(volatile void* p) {
  if (!is_counter(p)) return;
  int now = S.counter;
  if (now != pre_value) {
    n_changes++;
    own_delta += (long)now - (long)pre_value;
    last_change_old = pre_value;
  }
}
static int verif_spurious(volatile void* p) { return is_counter(p) && interfere_on && nondet_bool(); }

#undef atomic_fetch_add
#undef atomic_fetch_sub
#undef atomic_fetch_add_explicit
#undef atomic_fetch_sub_explicit
#undef atomic_exchange
#undef atomic_exchange_explicit
#undef atomic_store
#undef atomic_store_explicit
#undef atomic_load
#undef atomic_load_explicit
#undef atomic_compare_exchange_weak_explicit
#undef atomic_compare_exchange_strong_explicit
#undef atomic_compare_exchange_weak
#undef atomic_compare_exchange_strong
#define V_RMW(o, expr) ({ verif_env(o); __typeof__(expr) _r = (expr); verif_after(o); _r; })
#define atomic_fetch_add(o, v) V_RMW(o, __atomic_fetch_add((o), (v), __ATOMIC_SEQ_CST))
#define atomic_fetch_sub(o, v) V_RMW(o, __atomic_fetch_sub((o), (v), __ATOMIC_SEQ_CST))
#define atomic_fetch_add_explicit(o, v, m) V_RMW(o, __atomic_fetch_add((o), (v), __ATOMIC_SEQ_CST))
#define atomic_fetch_sub_explicit(o, v, m) V_RMW(o, __atomic_fetch_sub((o), (v), __ATOMIC_SEQ_CST))
#define atomic_exchange(o, v) V_RMW(o, __atomic_exchange_n((o), (v), __ATOMIC_SEQ_CST))
#define atomic_exchange_explicit(o, v, m) V_RMW(o, __atomic_exchange_n((o), (v), __ATOMIC_SEQ_CST))
#define atomic_store(o, v) ({ verif_env(o); __atomic_store_n((o), (v), __ATOMIC_SEQ_CST); verif_after(o); })
#define atomic_store_explicit(o, v, m) ({ verif_env(o); __atomic_store_n((o), (v), __ATOMIC_SEQ_CST); verif_after(o); })
#define atomic_load(o) V_RMW(o, __atomic_load_n((o), __ATOMIC_SEQ_CST))
#define atomic_load_explicit(o, m) V_RMW(o, __atomic_load_n((o), __ATOMIC_SEQ_CST))
#define V_CAS(o, e, d, weak) ({ verif_env(o); _Bool _ok; \
    if ((weak) && verif_spurious(o)) { *(e) = __atomic_load_n((o), __ATOMIC_SEQ_CST); _ok = 0; } \
    else _ok = __atomic_compare_exchange_n((o), (e), (d), 0, __ATOMIC_SEQ_CST, __ATOMIC_SEQ_CST); \
    verif_after(o); _ok; })
#define atomic_compare_exchange_weak_explicit(o, e, d, s, f) V_CAS(o, e, d, 1)
#define atomic_compare_exchange_strong_explicit(o, e, d, s, f) V_CAS(o, e, d, 0)
#define atomic_compare_exchange_weak(o, e, d) V_CAS(o, e, d, 1)
#define atomic_compare_exchange_strong(o, e, d) V_CAS(o, e, d, 0)

#include "fiber_semaphore.c" /* real source */

/* ------------------------------------------------------------------ environment stubs */
static mpmc_fifo_node_t a_node;
static int n_yield;
fiber_manager_t* fiber_manager_get(void) { return &the_manager; }
mpmc_fifo_node_t* fiber_manager_get_mpmc_node(void) { return &a_node; }
void fiber_manager_return_mpmc_node(mpmc_fifo_node_t* n) {}
hazard_pointer_thread_record_t* fiber_manager_get_hazard_record(fiber_manager_t* m) { return 0; }
int fiber_yield(void) { n_yield++; return 1; }
void fiber_manager_wait_in_mpmc_queue(fiber_manager_t* manager, mpmc_fifo_t* fifo) {
  n_waitq++;
  if (fifo != &S.waiters) wake_bad_queue++;
}
int fiber_manager_wake_from_mpmc_queue(fiber_manager_t* manager, mpmc_fifo_t* fifo, int count) {
  n_wake_calls++;
  if (fifo != &S.waiters) wake_bad_queue++;
  if (!(last_observed < 0)) wake_without_negative++;
  int r = nondet_int();
  if (count == 0) __CPROVER_assume(r == 0 || r == 1);
  else __CPROVER_assume(r >= 1 && r <= count);   /* waits until it could wake, never more than asked for */
  n_woken += r;
  ops_at_last_wake = n_ops;
  return r;
}

#ifdef WITNESS
#define WITNESS_END() __CPROVER_assert(0, "witness: end of harness reachable")
#else
#define WITNESS_END()
#endif

static int v0;
static void setup(void) {
  int init = nondet_int();
  __CPROVER_assume(init >= 0 && init < BIG);
  __CPROVER_assert(fiber_semaphore_init(&S, init) == FIBER_SUCCESS, "init succeeds");
  __CPROVER_assert(fiber_semaphore_getvalue(&S) == init, "C06 accounting: a fresh semaphore holds exactly its initial value (induction base)");
  v0 = nondet_int();
  __CPROVER_assume(v0 > -BIG && v0 < BIG);
  S.counter = v0;
  n_ops = 0; own_delta = 0; n_changes = 0;
  interfere_on = 1;
}

void h_wait(void) {
  setup();
  int r = fiber_semaphore_wait(&S);
  interfere_on = 0;
  __CPROVER_assert(r == FIBER_SUCCESS, "wait reports success");
  __CPROVER_assert(n_changes == 1 && own_delta == -1 && n_ops == 1, "C06 accounting: wait changes the counter by exactly -1, in one atomic step");
  if (last_change_old >= 1)
    __CPROVER_assert(n_waitq == 0, "C06 accounting: a wait that found a free unit is admitted without sleeping");
  else
    __CPROVER_assert(n_waitq == 1 && !wake_bad_queue, "C06 no over-admission: a wait that found no free unit announces itself and sleeps on the semaphore's queue (it is admitted only by a post)");
  __CPROVER_assert(n_wake_calls == 0, "wait wakes nobody");
  WITNESS_END();
}

void h_trywait(void) {
  setup();
  int r = fiber_semaphore_trywait(&S);
  interfere_on = 0;
  __CPROVER_assert(n_waitq == 0 && n_wake_calls == 0, "C06: trywait never blocks and wakes nobody");
  if (r == FIBER_SUCCESS) {
    __CPROVER_assert(n_changes == 1 && own_delta == -1 && last_change_old >= 1, "C06 no over-admission: trywait succeeds only by taking one unit from a positive counter");
  } else {
    __CPROVER_assert(r == FIBER_ERROR, "trywait returns SUCCESS or ERROR");
    __CPROVER_assert(n_changes == 0 && own_delta == 0, "C06 accounting: a failed trywait leaves the counter unchanged");
    __CPROVER_assert(last_observed <= 0, "C06: trywait fails only after observing that no unit is free");
  }
  WITNESS_END();
}

static void check_post(int ret) {
  __CPROVER_assert(own_delta == 1 && n_changes == 1, "C06 no lost post: a post contributes exactly +1 to the counter, in one atomic step");
  __CPROVER_assert(!wake_bad_queue, "C06: post wakes from the semaphore's own queue");
  __CPROVER_assert(!wake_without_negative, "C06: post tries to wake a waiter only after observing a negative counter (an announced waiter)");
  __CPROVER_assert(n_woken <= 1, "C06 no over-admission: one post resumes at most one sleeping waiter");
  if (ret) {
    __CPROVER_assert(n_woken == 1, "C06: post reports a woken waiter only if it woke one");
  } else {
    __CPROVER_assert(n_woken == 0, "C06 no over-admission: a post that added its unit to the counter did not also resume a waiter");
    __CPROVER_assert(last_change_old >= 0, "C06 no lost post: a post adds its unit to the free units only when no waiter is announced (counter >= 0); otherwise it must hand it to a waiter");
  }
  __CPROVER_assert(n_waitq == 0, "post never sleeps on the semaphore");
}

void h_post_internal(void) {
  setup();
  int r = fiber_semaphore_post_internal(&S);
  interfere_on = 0;
  check_post(r);
  WITNESS_END();
}

void h_post(void) {
  setup();
  int r = fiber_semaphore_post(&S);
  interfere_on = 0;
  __CPROVER_assert(r == FIBER_SUCCESS, "post reports success");
  check_post(n_woken);
  __CPROVER_assert(n_yield == (n_woken ? 1 : 0), "post yields once iff it handed its unit to a waiter");
  WITNESS_END();
}
