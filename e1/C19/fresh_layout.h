/* Layout of the initial stack frame that fiber_context_init (x86-64 fast switching back end)
 * leaves at ctx_stack_pointer.  SINGLE SOURCE for both engines:
 *   - /verif/e1/C19/ctx_e1.c PROVES with CBMC, on the real fiber_context_init, that the frame
 *     has exactly this layout (h_init_layout_*),
 *   - /verif/e3/x86sym.py PARSES this header and ASSUMES exactly this layout in the
 *     "fresh context" obligations for the real asm of fiber_context_swap.
 * Offsets are in bytes relative to ctx_stack_pointer (sp). */
#ifndef C19_FRESH_LAYOUT_H
#define C19_FRESH_LAYOUT_H
#define FRESH_ZERO_SLOTS 6   /* sp+0 .. sp+8*(FRESH_ZERO_SLOTS-1) hold 0 (callee-saved registers of a new fiber) */
#define FRESH_OFF_RIP 48     /* sp+48: run_function (the address the restore half jumps to) */
#define FRESH_OFF_RET 56     /* sp+56: NULL, the dummy return address of run_function */
#define FRESH_OFF_PARAM 64   /* sp+64: param (loaded into rdi by the restore half) */
#define FRESH_FRAME_BYTES 72 /* [sp, sp+72) is what init writes */
#define FRESH_SP_ALIGN 16    /* sp % 16 == 0 */
#endif
