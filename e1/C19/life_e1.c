/* E1 harnesses for C19, part "a fiber's stack is released exactly once when the fiber is destroyed".
 * Real code, included verbatim in ONE translation unit so that statics are reachable:
 *   src/fiber_context.c  (fiber_context_init / fiber_context_destroy / fiber_free_stack)
 *   src/fiber.c          (fiber_create_no_sched, fiber_go_function)
 *   src/fiber_manager.c  (fiber_destroy)
 * Everything else those files reference (scheduler, events, io, hazard pointers...) is never called
 * from the harnessed functions and is dropped by --drop-unused-functions.
 *
 * malloc strategy: the three heap blocks (stack, mpsc node, control block) are CBMC malloc objects;
 *   "freed exactly once" = CBMC's built-in double-free / invalid-free assertions inside free() plus
 *   --memory-leak-check at the end of the harness plus "deallocated" checks on the saved pointers.
 * mmap strategy: ghost counters in the mmap/munmap stubs. */
#include <stdint.h>
#include <stddef.h>
#include <sys/types.h>
#include <sys/mman.h>
#include <unistd.h>

#include "fresh_layout.h"

#ifndef C19_MAX_SIZE
#define C19_MAX_SIZE 4096
#endif
#ifndef C19_PAGE
#define C19_PAGE 4096L
#endif

size_t nondet_size(void);
void* nondet_ptr(void);
int nondet_int(void);
unsigned nondet_uint(void);

#ifdef FIBER_STACK_MMAP
static int g_mmap_calls, g_munmap_calls, g_mprotect_calls;
static void* g_map_addr;
static size_t g_map_len;
static void* g_unmap_addr;
static size_t g_unmap_len;
static int g_mmap_fail, g_mprotect_fail;

void* mmap(void* addr, size_t len, int prot, int flags, int fd, off_t off) {
  g_mmap_calls++;
  g_map_len = len;
  if (g_mmap_fail) return MAP_FAILED;
  g_map_addr = __CPROVER_allocate(len, 0);
  return g_map_addr;
}
int munmap(void* addr, size_t len) {
  g_munmap_calls++;
  g_unmap_addr = addr;
  g_unmap_len = len;
  return 0;
}
int mprotect(void* addr, size_t len, int prot) {
  g_mprotect_calls++;
  return g_mprotect_fail ? -1 : 0;
}
long sysconf(int name) { return C19_PAGE; }
#endif

#include "fiber_context.c"
#include "fiber.c"
#include "fiber_manager.c"

#ifdef WITNESS
#define WITNESS_END() __CPROVER_assert(0, "witness: end of harness reachable")
#else
#define WITNESS_END()
#endif

typedef void* (*run_fn_t)(void*);
run_fn_t nondet_fn(void);

/* create + destroy, arbitrary documented stack size (stated bound), arbitrary user function/param */
void h_create_destroy(void) {
  size_t sz = nondet_size();
  run_fn_t fn = nondet_fn();
  void* param = nondet_ptr();
  __CPROVER_assume(sz >= FIBER_MIN_STACK_SIZE && sz <= C19_MAX_SIZE);
#ifdef FIBER_STACK_MMAP
  g_mmap_fail = 0;
  g_mprotect_fail = 0;
#endif
  fiber_t* f = fiber_create_no_sched(sz, fn, param);
  __CPROVER_assert(f != 0, "fiber_create_no_sched succeeds for every documented stack size");
  __CPROVER_assert(f->run_function == fn && f->param == param, "created fiber records the user function and argument");
  __CPROVER_assert(f->context.is_thread == 0, "created fiber's context is a fiber context (owns a stack)");

  /* the fresh frame starts fiber_go_function with the fiber itself as argument */
  void** w = (void**)f->context.ctx_stack_pointer;
  unsigned i = nondet_uint();
  __CPROVER_assume(i < FRESH_FRAME_BYTES / 8);
  void* v = w[i];
  void* expect = i == FRESH_OFF_RIP / 8 ? (void*)&fiber_go_function : i == FRESH_OFF_PARAM / 8 ? (void*)f : (void*)0;
  __CPROVER_assert(v == expect, "created fiber's initial frame enters fiber_go_function(fiber) with zeroed callee-saved slots");

  void* stack = f->context.ctx_stack;
  void* node = (void*)f->mpsc_fifo_node;
  __CPROVER_assert(stack != 0 && node != 0 && stack != node && stack != (void*)f && node != (void*)f,
                   "stack, mpsc node and control block are three distinct allocations");

  f->state = FIBER_STATE_DONE; /* documented precondition of fiber_destroy (assert compiled out) */
  fiber_destroy(f);

#ifdef FIBER_STACK_MMAP
  __CPROVER_assert(g_mmap_calls == 1 && g_munmap_calls == 1, "mmap strategy: one mmap, one munmap per fiber life");
  __CPROVER_assert(g_unmap_addr == stack && g_unmap_addr == g_map_addr && g_unmap_len == g_map_len,
                   "mmap strategy: fiber_destroy unmaps exactly the mapping created for this fiber (same address and length)");
#endif
  /* double free / free of a non-heap pointer: built-in assertions of free();  leak of any of the
   * blocks: --memory-leak-check (assertion "dynamically allocated memory never freed") */
  WITNESS_END();
}

/* destroying a thread fiber (fiber_create_from_thread) must not release any stack */
void h_thread_fiber_destroy(void) {
  fiber_t* f = fiber_create_from_thread();
  __CPROVER_assert(f != 0, "fiber_create_from_thread succeeds");
  __CPROVER_assert(f->context.is_thread == 1 && f->context.ctx_stack == 0, "thread fiber owns no stack");
  f->state = FIBER_STATE_DONE;
  fiber_destroy(f);
#ifdef FIBER_STACK_MMAP
  __CPROVER_assert(g_mmap_calls == 0 && g_munmap_calls == 0, "mmap strategy: thread fiber never maps/unmaps a stack");
#endif
  WITNESS_END();
}

/* fiber_destroy(NULL) is a no-op */
void h_destroy_null(void) {
  fiber_destroy(0);
  WITNESS_END();
}

#ifdef FIBER_STACK_MMAP
/* create fails because the kernel refuses the stack: the stack must not stay mapped.
 * (NOT checked here: the mpsc node allocated before fiber_context_init is leaked on this path --
 * reported in NOTES.md as an observation outside C19.) */
void h_create_fails_stack_unmapped(void) {
  size_t sz = nondet_size();
  run_fn_t fn = nondet_fn();
  __CPROVER_assume(sz >= FIBER_MIN_STACK_SIZE && sz <= C19_MAX_SIZE);
  g_mmap_fail = nondet_int() != 0;
  g_mprotect_fail = nondet_int() != 0;
  __CPROVER_assume(g_mmap_fail || g_mprotect_fail);
  fiber_t* f = fiber_create_no_sched(sz, fn, nondet_ptr());
  __CPROVER_assert(f == 0, "mmap strategy: fiber_create_no_sched fails when the stack cannot be set up");
  __CPROVER_assert(g_munmap_calls == (g_mmap_fail ? 0 : 1), "mmap strategy: a half set-up stack is unmapped exactly once, a never-mapped one never");
  WITNESS_END();
}
#endif
