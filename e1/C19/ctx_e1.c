/* E1 harnesses for C19 (context switch / stacks), part "stack set-up and release".
 * Real code: src/fiber_context.c (x86-64 FIBER_FAST_SWITCHING branch), included verbatim.
 * Stack strategy is chosen on the cbmc command line: -DFIBER_STACK_MALLOC (framework default)
 * or -DFIBER_STACK_MMAP (then mmap/munmap/mprotect/sysconf are the ghost stubs below).
 *
 * The layout proved here (fresh_layout.h) is exactly what /verif/e3/x86sym.py assumes when it
 * enters a fresh context through the real asm of fiber_context_swap. */
#include <stdint.h>
#include <stddef.h>
#include <sys/types.h>
#include <sys/mman.h>
#include <unistd.h>

#include "fiber.h"          /* FIBER_MIN_STACK_SIZE */
#include "fresh_layout.h"

#ifndef C19_MAX_SIZE
#define C19_MAX_SIZE 4096 /* stated bound on the requested stack size */
#endif
#ifndef C19_SMALL_LO
#define C19_SMALL_LO 88 /* smallest size for which the initial frame still fits (16-byte aligned block); by hand: -DC19_SMALL_LO=16 */
#endif
#ifndef C19_PAGE
#define C19_PAGE 4096L /* value the sysconf(_SC_PAGESIZE) stub answers */
#endif

size_t nondet_size(void);
void* nondet_ptr(void);
int nondet_int(void);
unsigned nondet_uint(void);
fiber_run_function_t nondet_fn(void);

#ifdef FIBER_STACK_MMAP
/* ---- ghost stubs for the kernel interface (mmap strategy) ------------------------------- */
static int g_mmap_calls, g_munmap_calls, g_mprotect_calls;
static void* g_map_addr;    /* what the single successful mmap returned */
static size_t g_map_len;    /* length it was asked for */
static void* g_unmap_addr;  /* what the (last) munmap was given */
static size_t g_unmap_len;
static void* g_prot_addr;
static size_t g_prot_len;
static int g_prot_prot;
static int g_mmap_fail, g_mprotect_fail; /* environment answers, chosen by the harness */

void* mmap(void* addr, size_t len, int prot, int flags, int fd, off_t off) {
  g_mmap_calls++;
  g_map_len = len;
  if (g_mmap_fail) return MAP_FAILED;
  /* the region is a fresh object of exactly len bytes: CBMC's pointer checks then flag every
   * access outside [ctx_stack, ctx_stack+ctx_stack_size) */
  g_map_addr = __CPROVER_allocate(len, 0);
  return g_map_addr;
}
int munmap(void* addr, size_t len) {
  g_munmap_calls++;
  g_unmap_addr = addr;
  g_unmap_len = len;
  return 0;
}
int mprotect(void* addr, size_t len, int prot) {
  g_mprotect_calls++;
  g_prot_addr = addr;
  g_prot_len = len;
  g_prot_prot = prot;
  return g_mprotect_fail ? -1 : 0;
}
long sysconf(int name) { return C19_PAGE; }
#endif

#include "fiber_context.c" /* real source, found via -I$REPO/src */

#ifdef WITNESS
#define WITNESS_END() __CPROVER_assert(0, "witness: end of harness reachable")
#else
#define WITNESS_END()
#endif

/* assertions about the initial frame, shared by the malloc and mmap harnesses */
static void check_fresh_frame(fiber_context_t* c, fiber_run_function_t fn, void* param) {
  char* base = (char*)c->ctx_stack;
  char* sp = (char*)c->ctx_stack_pointer;
  __CPROVER_assert(c->is_thread == 0, "fresh context is not marked as a thread context (is_thread==0)");
  __CPROVER_assert(__CPROVER_same_object(base, sp), "initial stack pointer points into the context's own stack object");
  __CPROVER_assert(((uintptr_t)sp & (FRESH_SP_ALIGN - 1)) == 0, "initial ctx_stack_pointer is 16-byte aligned");
  __CPROVER_assert(__CPROVER_POINTER_OFFSET(sp) >= 0 &&
                       (size_t)__CPROVER_POINTER_OFFSET(sp) + FRESH_FRAME_BYTES <= c->ctx_stack_size,
                   "initial frame [sp, sp+72) lies inside [ctx_stack, ctx_stack+ctx_stack_size)");
  void** w = (void**)sp;
  /* ONE symbolic slot index covers all nine slots (keeps the number of symbolic-offset reads small) */
  unsigned i = nondet_uint();
  __CPROVER_assume(i < FRESH_FRAME_BYTES / 8);
  void* v = w[i];
  void* expect = i == FRESH_OFF_RIP / 8 ? (void*)fn : i == FRESH_OFF_PARAM / 8 ? param : (void*)0;
  __CPROVER_assert(v == expect, "initial frame: slot contents");
}

#ifdef FIBER_STACK_MALLOC
/* fiber_context_init, malloc strategy, every documented size up to the bound, arbitrary
 * run_function / param.  Out-of-bounds writes are caught by CBMC's pointer checks (the stack is a
 * malloc object of exactly stack_size bytes). */
void h_init_layout_malloc(void) {
  fiber_context_t c;
  size_t sz = nondet_size();
  fiber_run_function_t fn = nondet_fn();
  void* param = nondet_ptr();
  __CPROVER_assume(sz >= FIBER_MIN_STACK_SIZE && sz <= C19_MAX_SIZE); /* documented sizes, stated bound */
  __CPROVER_assume(fn != 0);                                          /* API precondition */
  int r = fiber_context_init(&c, sz, fn, param);
  __CPROVER_assert(r == FIBER_SUCCESS, "fiber_context_init succeeds for every documented stack size");
  __CPROVER_assert(c.ctx_stack != 0 && c.ctx_stack_size == sz, "malloc strategy: ctx_stack_size is the requested size");
  check_fresh_frame(&c, fn, param);
  fiber_context_destroy(&c); /* free(ctx_stack): CBMC checks it is the malloc'ed pointer, not freed before */
  WITNESS_END();
}

/* sizes below FIBER_MIN_STACK_SIZE that still work: the frame needs 72 bytes + alignment slack.
 * (The property only quantifies over documented sizes; this states where the real limit is.) */
void h_init_small_ok_malloc(void) {
  fiber_context_t c;
  size_t sz = nondet_size();
  fiber_run_function_t fn = nondet_fn();
  void* param = nondet_ptr();
  __CPROVER_assume(sz >= C19_SMALL_LO && sz < FIBER_MIN_STACK_SIZE);
  __CPROVER_assume(fn != 0);
  int r = fiber_context_init(&c, sz, fn, param);
  __CPROVER_assert(r == FIBER_SUCCESS, "fiber_context_init succeeds for undocumented small sizes >= 88");
  check_fresh_frame(&c, fn, param);
  fiber_context_destroy(&c);
  WITNESS_END();
}

/* Sizes below 88 (with a 16-byte aligned malloc block) are NOT harnessed as a hold job: there the
 * frame starts below ctx_stack and CBMC reports "pointer outside object bounds" in
 * fiber_context_init (by hand: h_init_small_ok_malloc with -DC19_SMALL_LO=16, see NOTES.md); the
 * library has no size check.  The property
 * only quantifies over documented sizes (>= FIBER_MIN_STACK_SIZE). */

/* rejected inputs */
void h_init_rejects(void) {
  fiber_context_t c;
  size_t sz = nondet_size();
  fiber_run_function_t fn = nondet_fn();
  __CPROVER_assume(sz == 0 || fn == 0);
  int r = fiber_context_init(&c, sz, fn, nondet_ptr());
  __CPROVER_assert(r == FIBER_ERROR, "fiber_context_init rejects size 0 / NULL run_function");
  WITNESS_END();
}
#endif /* FIBER_STACK_MALLOC */

#ifdef FIBER_STACK_MMAP
/* fiber_context_init + fiber_context_destroy, mmap strategy, kernel calls succeed */
void h_init_layout_mmap(void) {
  fiber_context_t c;
  size_t sz = nondet_size();
  fiber_run_function_t fn = nondet_fn();
  void* param = nondet_ptr();
  __CPROVER_assume(sz >= FIBER_MIN_STACK_SIZE && sz <= C19_MAX_SIZE);
  __CPROVER_assume(fn != 0);
  g_mmap_fail = 0;
  g_mprotect_fail = 0;
  int r = fiber_context_init(&c, sz, fn, param);
  __CPROVER_assert(r == FIBER_SUCCESS, "mmap strategy: fiber_context_init succeeds when mmap/mprotect succeed");
  __CPROVER_assert(g_mmap_calls == 1 && c.ctx_stack == g_map_addr && c.ctx_stack_size == g_map_len,
                   "mmap strategy: exactly one mmap; ctx_stack/ctx_stack_size record its address and length");
  __CPROVER_assert(g_mprotect_calls == 1 && g_prot_addr == c.ctx_stack && g_prot_len >= 1 && g_prot_prot == PROT_NONE,
                   "mmap strategy: the lowest page of the mapping is made a PROT_NONE guard page");
  check_fresh_frame(&c, fn, param);
  __CPROVER_assert((size_t)__CPROVER_POINTER_OFFSET((char*)c.ctx_stack_pointer) >= (size_t)C19_PAGE,
                   "mmap strategy: the initial frame lies above the guard page");
  __CPROVER_assert(g_munmap_calls == 0, "mmap strategy: nothing is unmapped while the context is alive");
  fiber_context_destroy(&c);
  __CPROVER_assert(g_munmap_calls == 1, "mmap strategy: destroy unmaps the stack exactly once");
  __CPROVER_assert(g_unmap_addr == g_map_addr && g_unmap_len == g_map_len,
                   "mmap strategy: munmap gets the address mmap returned and the length mmap was given");
  WITNESS_END();
}

/* environment failures: mmap fails, or mprotect fails after a successful mmap */
void h_init_mmap_failures(void) {
  fiber_context_t c;
  size_t sz = nondet_size();
  fiber_run_function_t fn = nondet_fn();
  __CPROVER_assume(sz >= FIBER_MIN_STACK_SIZE && sz <= C19_MAX_SIZE);
  __CPROVER_assume(fn != 0);
  g_mmap_fail = nondet_int() != 0;
  g_mprotect_fail = nondet_int() != 0;
  __CPROVER_assume(g_mmap_fail || g_mprotect_fail);
  int r = fiber_context_init(&c, sz, fn, nondet_ptr());
  __CPROVER_assert(r == FIBER_ERROR, "mmap strategy: init fails when mmap or mprotect fails");
  if (g_mmap_fail)
    __CPROVER_assert(g_munmap_calls == 0, "mmap strategy: nothing to unmap when mmap itself failed");
  else
    __CPROVER_assert(g_munmap_calls == 1 && g_unmap_addr == g_map_addr && g_unmap_len == g_map_len,
                     "mmap strategy: a mapping whose mprotect failed is unmapped exactly once (same address/length)");
  WITNESS_END();
}

/* arithmetic of fiber_round_to_page_size, all sizes in [1, C19_MAX_SIZE] (bound given per job) */
void h_mmap_round_covers_request(void) {
  size_t sz = nondet_size();
  __CPROVER_assume(sz >= 1 && sz <= C19_MAX_SIZE);
  size_t total = fiber_round_to_page_size(sz);
  __CPROVER_assert(total > sz, "mmap strategy: mapping length exceeds the requested size");
  __CPROVER_assert(total >= (size_t)C19_PAGE + FRESH_FRAME_BYTES + 16, "mmap strategy: room for the initial frame above the guard page");
  WITNESS_END();
}

/* what the task statement expects of the rounding: usable stack (mapping minus the guard page the
 * mprotect call turns into PROT_NONE) is at least the requested size.  Isolated in its own harness. */
void h_mmap_usable_ge_requested(void) {
  size_t sz = nondet_size();
  __CPROVER_assume(sz >= FIBER_MIN_STACK_SIZE && sz <= C19_MAX_SIZE);
  size_t total = fiber_round_to_page_size(sz);
  __CPROVER_assert(total >= sz + (size_t)C19_PAGE,
                   "mmap strategy: mapping length >= requested stack size + one guard page");
  WITNESS_END();
}
#endif /* FIBER_STACK_MMAP */
