/* E1 harness for C05 (condition variable): ONE real fiber_cond_signal / _broadcast / _wait (src/fiber_cond.c, unmodified,
 * #included below) as a rely/guarantee step over the waiter accounting.
 *
 * waiter_count counts the fibers that announced a wait and were not yet claimed by a signal/broadcast.  Waiters announce
 * themselves WITHOUT the internal mutex (they hold the caller's mutex, which a signaller need not hold), so while a signal or
 * broadcast runs the counter can be incremented by others at any moment.  Environment model:
 *   - every atomic operation of fiber_cond.c on cond->waiter_count is preceded by an arbitrary number d >= 0 of increments by
 *     other fibers (macro redirect of the <stdatomic.h> generic functions, the operation itself is performed unchanged;
 *     decrements by others are excluded during signal/broadcast because those run under internal_mutex, which is held);
 *   - fiber_mutex_lock/unlock: records which mutex is held;
 *   - fiber_manager_wake_from_mpsc_queue(manager, fifo, count): records its arguments (its own contract - wake at least `count`
 *     fibers, waiting for announced waiters that are still enqueuing - is checked on the real code by the E2 scenarios);
 *   - fiber_manager_wait_in_mpsc_queue_and_unlock: records arguments and the counter state at the call.
 * Guarantee asserted:
 *   signal:    net effect on the counter is exactly -1 if it claimed a waiter and 0 if nobody was announced when it looked
 *              (no concurrent announcement is erased); a claimed waiter is waited for and woken: wake(&cond->waiters, count >= 1)
 *              exactly once, under the internal mutex; nothing is woken when nobody was announced;
 *   broadcast: takes exactly the number announced at its exchange, wakes exactly that many, leaves later announcements counted;
 *   wait:      announces itself (counter +1) BEFORE it enqueues-and-unlocks, on the condition's queue with the caller's mutex,
 *              and re-acquires the caller's mutex before returning. */
#include <stdint.h>
#include <string.h>
#include "fiber_cond.h"
#include "fiber_manager.h"

uint64_t nondet_u64(void);
_Bool nondet_bool(void);

static fiber_cond_t C;
static fiber_mutex_t user_mutex;
static fiber_manager_t the_manager;
static int interfere_on;
static intptr_t env_total;            /* announcements by other fibers during the operation */
static int n_atomic_ops;
static int internal_held, transient_seen;
#define BIG ((intptr_t)1 << 28)       /* stated bound: fewer than 2^30 announced waiters (the wake count is an int) */

static void verif_interfere(volatile void* p) {
  if (p != (volatile void*)&C.waiter_count) return;
  n_atomic_ops++;
  if (!interfere_on) return;
  intptr_t d = (intptr_t)nondet_u64();
  __CPROVER_assume(d >= 0 && d <= BIG);
  C.waiter_count += d;
  env_total += d;
  if (!internal_held && nondet_bool()) {
    /* an atomic step on the counter taken WITHOUT the internal mutex can also fall into the window of a concurrent signal
       that found nobody announced (count transiently one lower until that signal restores it) */
    C.waiter_count -= 1;
    transient_seen = 1;
  }
}
#undef atomic_fetch_add
#undef atomic_fetch_sub
#undef atomic_fetch_add_explicit
#undef atomic_fetch_sub_explicit
#undef atomic_exchange
#undef atomic_exchange_explicit
#undef atomic_store
#undef atomic_store_explicit
#undef atomic_load
#undef atomic_load_explicit
#define atomic_fetch_add(o, v) (verif_interfere(o), __atomic_fetch_add((o), (v), __ATOMIC_SEQ_CST))
#define atomic_fetch_sub(o, v) (verif_interfere(o), __atomic_fetch_sub((o), (v), __ATOMIC_SEQ_CST))
#define atomic_fetch_add_explicit(o, v, m) (verif_interfere(o), __atomic_fetch_add((o), (v), __ATOMIC_SEQ_CST))
#define atomic_fetch_sub_explicit(o, v, m) (verif_interfere(o), __atomic_fetch_sub((o), (v), __ATOMIC_SEQ_CST))
#define atomic_exchange(o, v) (verif_interfere(o), __atomic_exchange_n((o), (v), __ATOMIC_SEQ_CST))
#define atomic_exchange_explicit(o, v, m) (verif_interfere(o), __atomic_exchange_n((o), (v), __ATOMIC_SEQ_CST))
#define atomic_store(o, v) (verif_interfere(o), __atomic_store_n((o), (v), __ATOMIC_SEQ_CST))
#define atomic_store_explicit(o, v, m) (verif_interfere(o), __atomic_store_n((o), (v), __ATOMIC_SEQ_CST))
#define atomic_load(o) (verif_interfere(o), __atomic_load_n((o), __ATOMIC_SEQ_CST))
#define atomic_load_explicit(o, m) (verif_interfere(o), __atomic_load_n((o), __ATOMIC_SEQ_CST))
#undef atomic_compare_exchange_weak_explicit
#undef atomic_compare_exchange_strong_explicit
#undef atomic_compare_exchange_weak
#undef atomic_compare_exchange_strong
#define V_CAS(o, e, d) (verif_interfere(o), __atomic_compare_exchange_n((o), (e), (d), 0, __ATOMIC_SEQ_CST, __ATOMIC_SEQ_CST))
#define atomic_compare_exchange_weak_explicit(o, e, d, s, f) V_CAS(o, e, d)
#define atomic_compare_exchange_strong_explicit(o, e, d, s, f) V_CAS(o, e, d)
#define atomic_compare_exchange_weak(o, e, d) V_CAS(o, e, d)
#define atomic_compare_exchange_strong(o, e, d) V_CAS(o, e, d)

#include "fiber_cond.c" /* real source */

/* ------------------------------------------------------------------ recorded environment */
static int user_held, n_lock_internal, n_unlock_internal, n_lock_user;
static int n_wake, wake_count_arg, wake_under_lock;
static mpsc_fifo_t* wake_q;
static int n_wait;
static mpsc_fifo_t* wait_q;
static fiber_mutex_t* wait_mutex;
static intptr_t count_at_wait_call;
static int user_held_at_wait_call;

fiber_manager_t* fiber_manager_get(void) { return &the_manager; }
int fiber_mutex_init(fiber_mutex_t* m) { return 1; }
int fiber_mutex_destroy(fiber_mutex_t* m) { return 1; }
int fiber_mutex_lock(fiber_mutex_t* m) {
  if (m == &C.internal_mutex) { __CPROVER_assert(!internal_held, "internal mutex not locked twice"); internal_held = 1; n_lock_internal++; }
  else { __CPROVER_assert(m == &user_mutex && !user_held, "only the caller's mutex is locked besides the internal one"); user_held = 1; n_lock_user++; }
  return 1;
}
int fiber_mutex_unlock(fiber_mutex_t* m) {
  if (m == &C.internal_mutex) { __CPROVER_assert(internal_held, "unlock of the held internal mutex"); internal_held = 0; n_unlock_internal++; }
  else { __CPROVER_assert(m == &user_mutex && user_held, "unlock of the held caller mutex"); user_held = 0; }
  return 1;
}
int fiber_manager_wake_from_mpsc_queue(fiber_manager_t* manager, mpsc_fifo_t* fifo, int count) {
  n_wake++;
  wake_q = fifo;
  wake_count_arg = count;
  wake_under_lock = internal_held;
  return count;
}
void fiber_manager_wait_in_mpsc_queue_and_unlock(fiber_manager_t* manager, mpsc_fifo_t* fifo, fiber_mutex_t* mutex) {
  n_wait++;
  wait_q = fifo;
  wait_mutex = mutex;
  count_at_wait_call = C.waiter_count;
  user_held_at_wait_call = user_held;
  user_held = 0; /* the manager unlocks the caller's mutex after the context switch; later the fiber is woken */
}

#ifdef WITNESS
#define WITNESS_END() __CPROVER_assert(0, "witness: end of harness reachable")
#else
#define WITNESS_END()
#endif

static intptr_t w0;
static void setup(void) {
  __CPROVER_assert(fiber_cond_init(&C) == FIBER_SUCCESS, "init succeeds");
  __CPROVER_assert(C.waiter_count == 0 && C.caller_mutex == 0, "C05 accounting: a fresh condition has no announced waiter (induction base)");
  w0 = (intptr_t)nondet_u64();
  __CPROVER_assume(w0 >= 0 && w0 <= BIG);   /* INV while the internal mutex is free: waiter_count >= 0 */
  C.waiter_count = w0;
  n_atomic_ops = 0;
  env_total = 0;
  interfere_on = 1;
}

void h_signal(void) {
  setup();
  int r = fiber_cond_signal(&C);
  interfere_on = 0;
  __CPROVER_assert(r == FIBER_SUCCESS, "signal reports success");
  __CPROVER_assert(!transient_seen, "C05 accounting: signal changes the count under the internal mutex");
  __CPROVER_assert(n_lock_internal == n_unlock_internal && !internal_held, "signal releases the internal mutex");
  if (n_wake) {
    __CPROVER_assert(n_wake == 1 && wake_q == &C.waiters && wake_under_lock, "C05 accounting: a signal wakes from the condition's own queue, once, under the internal mutex");
    __CPROVER_assert(wake_count_arg >= 1, "C05 accounting: a signal that claimed an announced waiter waits until that waiter is enqueued and wakes it (wake count >= 1, not a single pop attempt)");
    __CPROVER_assert(C.waiter_count == w0 + env_total - 1, "C05 accounting: a signal that wakes a waiter lowers the number of announced waiters by exactly one");
    __CPROVER_assert(w0 + env_total >= 1, "C05 accounting: a signal wakes only when a waiter was announced");
  } else {
    __CPROVER_assert(C.waiter_count == w0 + env_total, "C05 accounting: a signal that found nobody announced leaves every (also every concurrent) announcement counted");
    __CPROVER_assert(w0 == 0, "C05 accounting: a signal may wake nobody only if nobody was announced when it started");
  }
  WITNESS_END();
}

void h_broadcast(void) {
  setup();
  int r = fiber_cond_broadcast(&C);
  interfere_on = 0;
  __CPROVER_assert(r == FIBER_SUCCESS, "broadcast reports success");
  __CPROVER_assert(!transient_seen, "C05 accounting: broadcast claims the waiters under the internal mutex (outside it, it can swallow the transient -1 of a concurrent signal and leave a phantom waiter counted)");
  __CPROVER_assert(n_lock_internal == n_unlock_internal && !internal_held, "broadcast releases the internal mutex");
  __CPROVER_assert(C.waiter_count >= 0 && C.waiter_count <= env_total, "C05 accounting: broadcast claims every waiter announced before its exchange; later announcements stay counted");
  intptr_t taken = w0 + env_total - C.waiter_count;
  if (taken > 0) {
    __CPROVER_assert(n_wake == 1 && wake_q == &C.waiters && wake_under_lock && (intptr_t)wake_count_arg == taken, "C05 accounting: broadcast wakes exactly the waiters it claimed");
  } else {
    __CPROVER_assert(n_wake == 0 || wake_count_arg == 0, "C05 accounting: broadcast wakes nobody when nobody was announced");
  }
  WITNESS_END();
}

void h_wait(void) {
  setup();
  interfere_on = 0;   /* other fibers may also DEcrement here (signals); the step only fixes this fiber's own contribution */
  fiber_mutex_lock(&user_mutex);
  n_lock_user = 0;
  if (nondet_bool()) C.caller_mutex = &user_mutex;
  int r = fiber_cond_wait(&C, &user_mutex);
  __CPROVER_assert(r == FIBER_SUCCESS, "wait reports success");
  __CPROVER_assert(n_wait == 1 && wait_q == &C.waiters && wait_mutex == &user_mutex, "C05 accounting: wait enqueues on the condition's queue and hands the caller's mutex over for unlocking");
  __CPROVER_assert(user_held_at_wait_call, "C05 accounting: the caller's mutex is still held when the fiber goes to sleep (released atomically with enqueuing)");
  __CPROVER_assert(count_at_wait_call == w0 + 1, "C05 accounting: the waiter announces itself (count + 1) BEFORE it enqueues and unlocks");
  __CPROVER_assert(C.waiter_count == w0 + 1, "C05 accounting: wait contributes exactly one announcement");
  __CPROVER_assert(user_held && n_lock_user == 1, "C05 accounting: wait re-acquires the caller's mutex before returning");
  __CPROVER_assert(n_lock_internal == 0 && n_wake == 0, "wait neither takes the internal mutex nor wakes anybody");
  WITNESS_END();
}
