/* E1 harness for C17 (work queue): ONE real work_queue_get_work / work_queue_push (src/work_queue.c, unmodified, #included
 * below) as a rely/guarantee step over the counters, with the mpsc fifo abstracted to two numbers.
 *
 * Ghost state: L = items linked into the fifo (poppable), P = items already counted in in_count whose link is still missing.
 * Invariant while a worker is active:  in_count == out_count + L + P   (every item that was counted and not handed out is in
 * the fifo or about to be linked; nothing reachable is uncounted).
 * Environment (other pushers), run before every shared access of the real code (macro redirects of mpsc_fifo_trypop,
 * mpsc_fifo_push and the __sync builtins, library untouched): any number d1 of pushers count (in_count += d1, P += d1) and any
 * number d2 <= P complete their link (P -= d2, L += d2) - one symbolic bulk step covers any number of pushers.
 *   mpsc_fifo_trypop -> returns an item iff L > 0 and (P == 0 or nondeterministically): an unlinked push hides what is behind it
 *   mpsc_fifo_push   -> records the call (the link of THIS push)
 * Guarantee asserted:
 *   get_work: MORE_WORK hands out exactly the popped item and keeps the invariant; EMPTY is returned only when in_count reached
 *             0 with nothing linked or pending (no item stranded), and the worker-private out_count was already reset at the
 *             moment the role was released (the next worker starts from 0);
 *   push:     counts the item BEFORE linking it (otherwise a worker can hand out an uncounted item and the invariant breaks),
 *             adds exactly one, links exactly once into the queue's fifo, and reports START_WORKING iff it found in_count == 0. */
#include <stdint.h>
#include "work_queue.h"

int64_t nondet_i64(void);
_Bool nondet_bool(void);
#ifndef MAX_POLL
#define MAX_POLL 3
#endif
#define BIG ((int64_t)1 << 40)

static work_queue_t W;
static work_queue_item_t an_item, my_item;
static int64_t L, P;
static int env_on, n_poll, n_link_calls, my_counted, link_before_count, link_bad;
static int64_t my_add_result;
static int n_release, release_with_out;
static work_queue_item_t* popped;

static void env(void) {
  if (!env_on) return;
  int64_t d1 = nondet_i64(), d2 = nondet_i64();
  __CPROVER_assume(d1 >= 0 && d1 <= BIG && d2 >= 0);
  W.in_count += d1;
  P += d1;
  __CPROVER_assume(d2 <= P);
  P -= d2;
  L += d2;
}
static work_queue_item_t* v_trypop(mpsc_fifo_t* f) {
  env();
  n_poll++;
  __CPROVER_assume(n_poll <= MAX_POLL);
  work_queue_item_t* r = 0;
  if (L > 0 && (P == 0 || nondet_bool())) { L--; r = &an_item; popped = r; }
  env();
  return r;
}
static void v_push(mpsc_fifo_t* f, work_queue_item_t* item) {
  env();
  n_link_calls++;
  if (f != &W.fifo || item != &my_item) link_bad = 1;
  if (!my_counted) link_before_count = 1;
  else { P--; L++; }   /* our own counted item becomes reachable */
}
static int64_t v_add(volatile int64_t* p, int64_t v) {
  env();
  *p += v;
  if (p == &W.in_count) { my_counted++; P += v; my_add_result = *p; }
  return *p;
}
static int64_t v_sub(volatile int64_t* p, int64_t v) {
  env();
  *p -= v;
  if (p == &W.in_count && *p == 0) { n_release++; if (W.out_count != 0) release_with_out = 1; }
  return *p;
}
#define mpsc_fifo_trypop(f) v_trypop(f)
#define mpsc_fifo_push(f, i) v_push((f), (i))
#define __sync_add_and_fetch(p, v) v_add((volatile int64_t*)(p), (v))
#define __sync_sub_and_fetch(p, v) v_sub((volatile int64_t*)(p), (v))
#define __sync_fetch_and_add(p, v) (v_add((volatile int64_t*)(p), (v)) - (v))
#define __sync_fetch_and_sub(p, v) (v_sub((volatile int64_t*)(p), (v)) + (v))

#include "work_queue.c" /* real source */

#ifdef WITNESS
#define WITNESS_END() __CPROVER_assert(0, "witness: end of harness reachable")
#else
#define WITNESS_END()
#endif

static void arbitrary_state(int worker_active) {
  int64_t o = nondet_i64();
  L = nondet_i64(); P = nondet_i64();
  __CPROVER_assume(o >= 0 && o <= BIG && L >= 0 && L <= BIG && P >= 0 && P <= BIG);
  W.out_count = o;
  W.in_count = o + L + P;                     /* the invariant */
  if (worker_active) __CPROVER_assume(W.in_count >= 1);
}

void h_get_work(void) {
  arbitrary_state(1);
  env_on = 1;
  work_queue_item_t* out = 0;
  int r = work_queue_get_work(&W, &out);
  env_on = 0;
  if (r == WORK_QUEUE_MORE_WORK) {
    __CPROVER_assert(out == popped && out != 0, "C17 work queue: MORE_WORK hands out exactly the item taken from the fifo");
    __CPROVER_assert(W.in_count == W.out_count + L + P, "C17 work queue: handing out an item keeps in_count == out_count + linked + pending");
    __CPROVER_assert(n_release == 0 || W.in_count >= 1, "C17 work queue: a worker that continues still holds the role");
  } else {
    __CPROVER_assert(r == WORK_QUEUE_EMPTY, "get_work returns MORE_WORK or EMPTY");
    __CPROVER_assert(W.in_count == 0 && n_release == 1, "C17 work queue: EMPTY is reported only after in_count was brought to 0 (role released once)");
    __CPROVER_assert(L == 0 && P == 0, "C17 work queue: EMPTY is never reported with an item left queued or being pushed by a push that was already counted (stranded item)");
    __CPROVER_assert(!release_with_out && W.out_count == 0, "C17 work queue: the worker-private out_count is already reset when the role is released (the next worker must not inherit it)");
  }
  WITNESS_END();
}

void h_push(void) {
  arbitrary_state(0);
  env_on = 1;
  int64_t before = W.in_count;
  int r = work_queue_push(&W, &my_item);
  env_on = 0;
  __CPROVER_assert(my_counted == 1, "C17 work queue: push counts its item exactly once");
  __CPROVER_assert(n_link_calls == 1 && !link_bad, "C17 work queue: push links its item exactly once into the queue's fifo");
  __CPROVER_assert(!link_before_count, "C17 work queue: an item is counted in in_count BEFORE it becomes reachable in the fifo (otherwise a worker hands out an uncounted item and may release the role with items queued)");
  __CPROVER_assert((r == WORK_QUEUE_START_WORKING) == (my_add_result == 1) && (r == WORK_QUEUE_START_WORKING || r == WORK_QUEUE_QUEUED),
                   "C17 work queue: START_WORKING is reported iff this push moved in_count from 0 to 1 (exactly one worker per busy period)");
  __CPROVER_assert(W.in_count == W.out_count + L + P, "C17 work queue: push keeps in_count == out_count + linked + pending");
  WITNESS_END();
}

void h_init(void) {
  __CPROVER_assert(work_queue_init(&W) == 1 && W.in_count == 0 && W.out_count == 0, "C17 work queue: a fresh queue has no worker and nothing counted (induction base)");
  WITNESS_END();
}
