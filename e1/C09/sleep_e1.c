/* E1 harnesses for C09 (sleeping fibers wake exactly once and never early) - sequential part.
 *
 * Real code under test (compiled in unmodified through #include of the real .c files):
 *   src/fiber_event_native.c : fiber_sleep, fiber_event_wake_sleepers, waiter_insert,
 *                              waiter_remove_less_than
 *   src/fiber_spinlock.c     : fiber_spinlock_lock / fiber_spinlock_unlock (sleep_spinlock)
 *   src/fiber_io.c           : sleep, usleep, nanosleep shims (second translation unit io_shims.c)
 *
 * TIME MODEL (ghost, written by the checker).  timer_trigger_count (ttc) counts expirations of the
 * 5 ms timerfd (FIBER_TIME_RESOLUTION_MS).  wake_time = ttc_at_call + sleep_ms is compared against
 * ttc, so it is in TICKS of 5 ms although sleep_ms is computed in milliseconds.  The wake rule is
 * `wake_time < ttc`.  The call happens at real time 0.  `pending` expirations have already fired but
 * were not yet added to ttc (they sit unread in the timerfd because no manager thread has polled).
 * The k-th expiration AFTER the call (k = 1, 2, ...) fires at real time phase + (k-1) * 5 ms with an
 * arbitrary phase in (0, 5 ms] (1 ns granularity).  After n expirations since the call ttc can be at
 * most ttc_at_call + pending + n (it lags when the poller is late, which only delays the wake-up).
 * "Never early" therefore is: whenever the REAL fiber_event_wake_sleepers schedules the sleeper
 * after n post-call expirations have been accounted, phase + (n-1) * 5ms >= requested duration.
 */
#include <stdint.h>
#include <stdlib.h>
#include <time.h>
#include <unistd.h>
#include "fiber_spinlock.c"     /* real source */
#include "fiber_event_native.c" /* real source */

uint32_t nondet_u32(void);
uint64_t nondet_u64(void);
int nondet_int(void);
long nondet_long(void);
_Bool nondet_bool(void);

#ifdef WITNESS
#define WITNESS_END() __CPROVER_assert(0, "witness: end of harness reachable")
#else
#define WITNESS_END()
#endif

typedef unsigned __int128 u128;
#define TICK_NS ((u128)FIBER_TIME_RESOLUTION_MS * 1000000u)

/* ------------------------------------------------------------------ environment stubs */
#ifndef MAXF
#define MAXF 3 /* number of fibers / concurrent sleepers */
#endif
static fiber_manager_t the_manager;
static fiber_scheduler_t dummy_scheduler_obj;   /* only passed through to the stub */
static fiber_t fibers[MAXF];
static unsigned sched_calls[MAXF]; /* how often each fiber was handed to the scheduler */
static unsigned sched_foreign;     /* scheduler calls with a pointer that is no registered fiber */
static unsigned sched_not_ready;   /* scheduler calls with state != READY */
static unsigned sched_lock_free;   /* scheduler calls made while sleep_spinlock was NOT held */

fiber_manager_t* fiber_manager_get(void) { return &the_manager; }

static int lock_is_free(void) {
  return sleep_spinlock.state.counters.ticket == sleep_spinlock.state.counters.users;
}

/* node-lifetime scenario (h_wake_node_lifetime): the woken fiber may run on another kernel thread
 * as soon as it is in a run queue; it then returns from fiber_sleep and its waiter_el_t (a local of
 * fiber_sleep) is dead.  The harness allocates those nodes with malloc so that death == free. */
static int lifetime_mode;
static waiter_el_t* life_node[MAXF];
static _Bool life_dead[MAXF];
static fiber_t trap_fiber;                                           /* never registered as a sleeper */
static waiter_el_t trap_node = {0, &trap_fiber, NULL, NULL, NULL};   /* what a reused stack slot may hold */

void fiber_scheduler_schedule(fiber_scheduler_t* sched, fiber_t* f) {
  (void)sched;
  int known = 0;
  for (int i = 0; i < MAXF; ++i) {
    if (f == &fibers[i]) {
      known = 1;
      sched_calls[i]++;
      if (f->state != FIBER_STATE_READY) sched_not_ready++;
      if (lifetime_mode && life_node[i] && !life_dead[i] && nondet_bool()) {
        /* the fiber is picked up by another thread right now, returns from fiber_sleep and its
         * frame is gone (and reused): its node is dead */
        life_dead[i] = 1;
        life_node[i]->wake_time = nondet_u64();
        life_node[i]->next = nondet_bool() ? &trap_node : (waiter_el_t*)0;
        free(life_node[i]);
      }
    }
  }
  if (!known) sched_foreign++;
  if (lock_is_free()) sched_lock_free++;
}

void fiber_do_real_sleep(uint32_t seconds, uint32_t useconds) {
  (void)seconds;
  (void)useconds;
  __CPROVER_assert(0, "event system initialised: fiber_sleep does not fall back to a real sleep");
}
void* fiber_load_symbol(const char* symbol) {
  (void)symbol;
  return (void*)0;
}

/* ---- fiber_manager_yield stub: the calling fiber is suspended (its frame, and the waiter_el_t in
 * it, stay alive), the manager performs the deferred unlock exactly as fiber_manager_do_maintenance
 * does, then "the world runs": the scenario hook below plays the timer / poller and calls the REAL
 * fiber_event_wake_sleepers while the sleeper's frame is still alive. */
static unsigned yield_calls;
/* scenario selector (a plain constant per harness, so symbolic execution explores only that hook) */
enum { HOOK_NONE = 0, HOOK_SINGLE = 1, HOOK_MULTI = 2 };
static int yield_hook;
static void hook_single_sleeper(fiber_manager_t* m);
static void hook_multi(fiber_manager_t* m);

void fiber_manager_yield(fiber_manager_t* manager) {
  yield_calls++;
  if (manager->spinlock_to_unlock) {
    fiber_spinlock_t* const to_unlock = manager->spinlock_to_unlock;
    manager->spinlock_to_unlock = NULL;
    fiber_spinlock_unlock(to_unlock);
  }
  if (yield_hook == HOOK_SINGLE) hook_single_sleeper(manager);
  else if (yield_hook == HOOK_MULTI) hook_multi(manager);
}

/* the timerfd as far as a reader can see it: `g_pending` expirations fired but were not read yet.  The
 * unchanged fiber_sleep never reads the timerfd; a repaired one may drain it before computing wake_time
 * (then nothing is left to be credited to the new sleeper).  Installed as fibershim_read. */
static uint64_t g_pending;   /* expirations fired before the call but not yet added to ttc */
static uint64_t g_pending0;  /* its value at the call */
static ssize_t stub_timerfd_read(int fd, void* buf, size_t n) {
  if (fd == timer_fd && n == sizeof(uint64_t) && g_pending > 0) {
    *(uint64_t*)buf = g_pending;
    g_pending = 0;
    return (ssize_t)sizeof(uint64_t);
  }
  errno = EAGAIN;
  return -1;
}

static void env_init(uint64_t ttc0) {
  /* representation invariant: the event system is initialised (event_fd >= 0), nobody sleeps yet,
   * the sleep lock is free (ticket == users, arbitrary value incl. wrap), ttc counts 5 ms ticks
   * since init and is < 2^62 (2^62 ticks = 7e8 years) */
  __CPROVER_assume(ttc0 < ((uint64_t)1 << 62));
  event_fd = 3;
  timer_fd = 4;
  fibershim_read = stub_timerfd_read;
  g_pending = 0;
  g_pending0 = 0;
  timer_trigger_count = ttc0;
  sleepers = NULL;
  uint32_t t = nondet_u32();
  sleep_spinlock.state.counters.ticket = t;
  sleep_spinlock.state.counters.users = t;
  the_manager.scheduler = &dummy_scheduler_obj;
  the_manager.spinlock_to_unlock = NULL;
  for (int i = 0; i < MAXF; ++i) {
    fibers[i].state = FIBER_STATE_RUNNING;
    sched_calls[i] = 0;
  }
  the_manager.current_fiber = &fibers[0];
  sched_foreign = sched_not_ready = sched_lock_free = 0;
  yield_calls = 0;
  lifetime_mode = 0;
}

/* =================================================================== 1. arithmetic of one sleeper */
static uint64_t g_ttc0;      /* ttc at the moment of the call */
static u128 g_requested_ns;  /* requested duration in ns (ghost, exact) */
static int g_hook_ran;
enum { CLAIM_FITS = 0, CLAIM_ALL_DURATIONS = 1, CLAIM_PENDING = 2 };
static int g_claim;

static void hook_single_sleeper(fiber_manager_t* m) {
  g_hook_ran = 1;
  /* what fiber_sleep must have done before suspending */
  __CPROVER_assert(sleepers != NULL && sleepers->left == NULL && sleepers->right == NULL && sleepers->next == NULL,
                   "fiber_sleep registers exactly one node in the empty sleeper tree");
  __CPROVER_assert(sleepers->waiter == (void*)&fibers[0], "registered node names the calling fiber");
  __CPROVER_assert(fibers[0].state == FIBER_STATE_WAITING, "sleeping fiber is in state WAITING when it yields");
  __CPROVER_assert(lock_is_free(), "sleep_spinlock is released by the deferred unlock of the yield");
  /* (a repaired fiber_sleep may drain the timerfd itself: what it read must be in ttc, nothing else) */
  __CPROVER_assert(timer_trigger_count + g_pending == g_ttc0 + g_pending0,
                   "fiber_sleep neither loses nor invents timer expirations");
  const uint64_t ttc_at_suspend = timer_trigger_count;
  const uint64_t wake_time = sleepers->wake_time;

  /* the timer / poller: n expirations after the call, accounted in up to two batches together with
   * the `pending` ones; each batch goes through the REAL fiber_event_wake_sleepers */
  const uint64_t n = nondet_u64();
  __CPROVER_assume(n < ((uint64_t)1 << 62));
  const uint64_t total = g_pending + n;
  const uint64_t b1 = nondet_u64();
  __CPROVER_assume(b1 <= total);
  fiber_event_wake_sleepers(m, b1);
  const unsigned woken_after_b1 = sched_calls[0];
  fiber_event_wake_sleepers(m, total - b1);
  const unsigned woken = sched_calls[0];

  const uint64_t phase_ns = nondet_u64(); /* real time of the first expiration after the call */
  __CPROVER_assume(phase_ns >= 1 && phase_ns <= (uint64_t)TICK_NS);

  if (woken) {
    /* real time at which the n-th post-call expiration fired (n == 0: no time has passed at all) */
    const u128 now_ns = n == 0 ? (u128)0 : (u128)phase_ns + (u128)(n - 1) * TICK_NS;
    /* one claim, three scopes (separate description strings so that findings can be told apart) */
    if (g_claim == CLAIM_FITS)
      __CPROVER_assert(now_ns >= g_requested_ns,
                       "sleeper is never resumed before the requested duration has elapsed (any tick phase, durations whose ms count fits 32 bits, poller up to date)");
    else if (g_claim == CLAIM_ALL_DURATIONS)
      __CPROVER_assert(now_ns >= g_requested_ns,
                       "sleeper is never resumed before the requested duration has elapsed for ALL argument values (32-bit wrap of seconds*1000 / truncation of tv_sec)");
    else
      __CPROVER_assert(now_ns >= g_requested_ns,
                       "sleeper is never resumed before the requested duration has elapsed when timer expirations were pending (unread) at the call");
  }
  __CPROVER_assert(woken <= 1 && woken_after_b1 <= woken, "one sleeper is handed to the scheduler at most once");
  __CPROVER_assert(sched_foreign == 0 && sched_not_ready == 0,
                   "only the registered fiber, in state READY, is handed to the scheduler");
  __CPROVER_assert(sched_lock_free == 0, "sleepers are scheduled while sleep_spinlock is held");
  /* resumed for sure once ttc exceeds wake_time (wake rule wake_time < ttc) */
  __CPROVER_assert(woken == (wake_time < ttc_at_suspend + total ? 1u : 0u),
                   "sleeper is resumed exactly when timer_trigger_count exceeds its wake_time");
  if (woken) __CPROVER_assert(sleepers == NULL, "woken sleeper is removed from the tree");
  __CPROVER_assert(lock_is_free(), "sleep_spinlock is released at the end of fiber_event_wake_sleepers");
  __CPROVER_assert(timer_trigger_count == ttc_at_suspend + total, "timer_trigger_count advances by the expirations read");
}

/* the 32-bit expression of fiber_sleep does not wrap: seconds*1000 + useconds/1000 + 1 <= UINT32_MAX */
static int sleep_ms_fits(uint64_t seconds, uint64_t useconds) {
  return seconds * 1000u + useconds / 1000u + 1u <= (uint64_t)UINT32_MAX;
}

static void run_fiber_sleep(uint32_t seconds, uint32_t useconds, uint64_t pending, int claim) {
  g_claim = claim;
  g_ttc0 = nondet_u64();
  env_init(g_ttc0);
  g_pending = pending;
  g_pending0 = pending;
  g_requested_ns = ((u128)seconds * 1000000u + (u128)useconds) * 1000u;
  g_hook_ran = 0;
  yield_hook = HOOK_SINGLE;
  int r = fiber_sleep(seconds, useconds); /* REAL */
  __CPROVER_assert(r == FIBER_SUCCESS, "fiber_sleep returns FIBER_SUCCESS");
  __CPROVER_assert(yield_calls == 1 && g_hook_ran, "fiber_sleep suspends the caller exactly once");
}

/* all durations whose millisecond count fits 32 bits, all ttc, all phases, poller up to date */
void h_sleep_never_early(void) {
  uint32_t seconds = nondet_u32(), useconds = nondet_u32();
  __CPROVER_assume(sleep_ms_fits(seconds, useconds));
  run_fiber_sleep(seconds, useconds, 0, CLAIM_FITS);
  WITNESS_END();
}

/* ALL uint32 durations (suspected: seconds*1000 wraps in 32-bit arithmetic) */
void h_sleep_never_early_all_durations(void) {
  uint32_t seconds = nondet_u32(), useconds = nondet_u32();
  run_fiber_sleep(seconds, useconds, 0, CLAIM_ALL_DURATIONS);
  WITNESS_END();
}

/* poller late: expirations that fired BEFORE the call are still unread in the timerfd at the call and
 * are added to ttc afterwards.  (manager threads poll only when they have no runnable fiber.) */
void h_sleep_never_early_pending_ticks(void) {
  uint32_t seconds = nondet_u32(), useconds = nondet_u32();
  __CPROVER_assume(sleep_ms_fits(seconds, useconds));
  uint64_t pending = nondet_u64();
  __CPROVER_assume(pending <= 1000);
  run_fiber_sleep(seconds, useconds, pending, CLAIM_PENDING);
  WITNESS_END();
}

/* ---- the same through the REAL shims of fiber_io.c (linked from io_shims.c) */
void h_shim_sleep(void) {
  unsigned int seconds = nondet_u32();
#ifndef ALL_DURATIONS
  __CPROVER_assume(sleep_ms_fits(seconds, 0));
#endif
  g_ttc0 = nondet_u64();
  env_init(g_ttc0);
  g_pending = 0;
#ifdef ALL_DURATIONS
  g_claim = CLAIM_ALL_DURATIONS;
#else
  g_claim = CLAIM_FITS;
#endif
  g_requested_ns = (u128)seconds * 1000000000u;
  g_hook_ran = 0;
  yield_hook = HOOK_SINGLE;
  unsigned int r = sleep(seconds); /* REAL shim -> REAL fiber_sleep */
  __CPROVER_assert(r == 0, "sleep() reports no remaining time");
  __CPROVER_assert(yield_calls == 1 && g_hook_ran, "sleep() suspends the calling fiber exactly once");
  WITNESS_END();
}

void h_shim_usleep(void) {
  useconds_t us = nondet_u32();
  g_ttc0 = nondet_u64();
  env_init(g_ttc0);
  g_pending = 0;
  g_claim = CLAIM_FITS; /* usleep: seconds <= 4294, nothing can wrap */
  g_requested_ns = (u128)us * 1000u;
  g_hook_ran = 0;
  yield_hook = HOOK_SINGLE;
  int r = usleep(us); /* REAL shim */
  __CPROVER_assert(r == 0, "usleep() returns 0");
  __CPROVER_assert(yield_calls == 1 && g_hook_ran, "usleep() suspends the calling fiber exactly once");
  WITNESS_END();
}

/* variants: default = nothing wraps; -DALL_DURATIONS = tv_sec <= UINT32_MAX (lossless conversion) but the
 * 32-bit ms expression may wrap; -DTVSEC_UNBOUNDED = tv_sec >= 2^32 (conversion to uint32_t seconds
 * truncates) while the truncated call itself does not wrap */
void h_shim_nanosleep(void) {
  struct timespec req, rem;
  req.tv_sec = nondet_long();
  req.tv_nsec = nondet_long();
  /* documented precondition of nanosleep (otherwise EINVAL) */
  __CPROVER_assume(req.tv_sec >= 0 && req.tv_nsec >= 0 && req.tv_nsec <= 999999999L);
  const uint64_t us_arg = (uint64_t)req.tv_nsec / 1000u + 1u;
#if defined(TVSEC_UNBOUNDED)
  __CPROVER_assume(req.tv_sec > (long)UINT32_MAX);
#elif defined(ALL_DURATIONS)
  __CPROVER_assume(req.tv_sec <= (long)UINT32_MAX);
#else
  __CPROVER_assume(req.tv_sec <= (long)UINT32_MAX && sleep_ms_fits((uint64_t)req.tv_sec, us_arg));
#endif
  _Bool with_rem = nondet_bool();
  g_ttc0 = nondet_u64();
  env_init(g_ttc0);
  g_pending = 0;
#if defined(TVSEC_UNBOUNDED) || defined(ALL_DURATIONS)
  g_claim = CLAIM_ALL_DURATIONS;
#else
  g_claim = CLAIM_FITS;
#endif
  g_requested_ns = (u128)(uint64_t)req.tv_sec * 1000000000u + (u128)(uint64_t)req.tv_nsec;
#if defined(TVSEC_UNBOUNDED)
  /* fiber_sleep takes 32-bit seconds: a request beyond 2^32-1 s (about 136 years) is served as 2^32-1 s; the claim for such
     requests is "not earlier than 2^32-1 s" (a truncating conversion would return after (uint32_t)tv_sec seconds) */
  g_requested_ns = (u128)UINT32_MAX * 1000000000u;
#endif
  g_hook_ran = 0;
  yield_hook = HOOK_SINGLE;
  int r = nanosleep(&req, with_rem ? &rem : (struct timespec*)0); /* REAL shim */
  __CPROVER_assert(r == 0, "nanosleep() returns 0");
  if (with_rem) __CPROVER_assert(rem.tv_sec == 0 && rem.tv_nsec == 0, "nanosleep() reports no remaining time");
  __CPROVER_assert(yield_calls == 1 && g_hook_ran, "nanosleep() suspends the calling fiber exactly once");
  WITNESS_END();
}

/* =================================================================== 2. the sleeper tree */
#ifndef TN
#define TN 4 /* number of nodes (<= 4) */
#endif
/* separate objects (not an array) keep CBMC's points-to case splits small */
static waiter_el_t tn0, tn1, tn2, tn3;
static waiter_el_t* const NP[4] = {&tn0, &tn1, &tn2, &tn3};

static int tidx(const waiter_el_t* p) {
  if (p == &tn0) return 0;
  if (p == &tn1) return 1;
  if (p == &tn2) return 2;
  if (p == &tn3) return 3;
  return -1;
}

/* ghost validator of "tree of equal-key chains".  present[i] = node i is registered and not yet removed.
 *  (a) every present node is found by an ordinary key search from the root (descend left/right by key,
 *      on an equal key scan the ->next chain for the node itself); absent nodes are not found.
 *      => for every ancestor/descendant pair of tree nodes the descendant is on the correct side, i.e.
 *      in-order keys are strictly increasing, and chains hold equal keys only;
 *  (b) every non-NULL link (root, left, right, next of present nodes) points to a present node and every
 *      present node has exactly ONE incoming link => no cycles, no sharing, nothing but the present
 *      nodes is reachable (chained nodes therefore have no children of their own). */
static void tree_check(waiter_el_t* root, const _Bool present[TN]) {
  for (int i = 0; i < TN; ++i) {
    const uint64_t key = NP[i]->wake_time;
    waiter_el_t* cur = root;
    int found = 0;
    for (int d = 0; d < TN && cur && !found; ++d) {
      if (key < cur->wake_time) {
        cur = cur->left;
      } else if (key > cur->wake_time) {
        cur = cur->right;
      } else {
        waiter_el_t* c = cur;
        for (int e = 0; e < TN && c; ++e) {
          if (c == NP[i]) found = 1;
          c = c->next;
        }
        cur = NULL;
      }
    }
    __CPROVER_assert(found == (present[i] ? 1 : 0),
                     "sleeper tree is a valid search tree of equal-key chains holding exactly the registered, not yet removed nodes");
  }
  unsigned indeg[TN];
  int linkok = 1;
  for (int i = 0; i < TN; ++i) indeg[i] = 0;
  if (root) {
    int r = tidx(root);
    if (r < 0 || r >= TN || !present[r]) linkok = 0; else indeg[r]++;
  }
  for (int i = 0; i < TN; ++i) {
    if (present[i]) {
      waiter_el_t* l[3] = {NP[i]->left, NP[i]->right, NP[i]->next};
      for (int k = 0; k < 3; ++k) {
        if (l[k]) {
          int r = tidx(l[k]);
          if (r < 0 || r >= TN || !present[r]) linkok = 0; else indeg[r]++;
        }
      }
    }
  }
  __CPROVER_assert(linkok, "sleeper tree links lead to registered, not yet removed nodes only");
  for (int i = 0; i < TN; ++i)
    __CPROVER_assert(indeg[i] == (present[i] ? 1u : 0u), "every node in the sleeper tree is linked exactly once (no cycle, no sharing)");
}

static void tree_insert_range(waiter_el_t** tree, int from, int to, _Bool present[TN]) {
  for (int i = 0; i < TN; ++i) {
    if (i >= from && i < to) {
      /* precondition of waiter_insert as used by fiber_sleep: a zero-initialised node + key */
      NP[i]->wake_time = nondet_u64();
      NP[i]->waiter = &fibers[0];
      NP[i]->next = NP[i]->left = NP[i]->right = NULL;
      waiter_insert(tree, NP[i]); /* REAL */
      present[i] = 1;
    }
  }
}

/* drain: repeated waiter_remove_less_than(tree, t) until NULL; ret[i] counts how often node i was returned */
static void tree_drain(waiter_el_t** tree, uint64_t t, unsigned ret[TN], _Bool present[TN]) {
  int rounds = 0;
  for (; rounds <= TN; ++rounds) {
    waiter_el_t* r = waiter_remove_less_than(tree, t); /* REAL */
    if (!r) break;
    waiter_el_t* c = r;
    for (int e = 0; e <= TN && c; ++e) {
      int ci = tidx(c);
      __CPROVER_assert(ci >= 0 && ci < TN, "removed chain consists of registered nodes only");
      if (ci >= 0 && ci < TN) {
        ret[ci]++;
        __CPROVER_assert(c->wake_time < t, "no node with wake_time >= t is returned by waiter_remove_less_than");
      }
      c = c->next;
    }
    __CPROVER_assert(c == NULL, "removed chain is acyclic and no longer than the number of sleepers");
  }
  __CPROVER_assert(rounds <= TN, "waiter_remove_less_than returns NULL after at most one call per registered node");
  for (int i = 0; i < TN; ++i)
    if (ret[i]) present[i] = 0;
}

void h_tree(void) {
  waiter_el_t* tree = NULL;
  _Bool present[TN];
  unsigned ret[TN];
  for (int i = 0; i < TN; ++i) { present[i] = 0; ret[i] = 0; }
  int k = nondet_int();
  __CPROVER_assume(k >= 0 && k <= TN);
  tree_insert_range(&tree, 0, k, present);
  tree_check(tree, present);
  uint64_t t = nondet_u64();
  tree_drain(&tree, t, ret, present);
  for (int i = 0; i < TN; ++i) {
    if (i < k && NP[i]->wake_time < t)
      __CPROVER_assert(ret[i] == 1, "every node with wake_time < t is returned exactly once");
    else
      __CPROVER_assert(ret[i] == 0, "nodes with wake_time >= t (or never inserted) are not returned");
  }
  tree_check(tree, present);
  WITNESS_END();
}

/* inserts and drains interleaved as in real use: a inserts, drain(t1), TN-a more inserts, drain(t2 >= t1) */
void h_tree_interleaved(void) {
  waiter_el_t* tree = NULL;
  _Bool present[TN];
  unsigned ret[TN];
  for (int i = 0; i < TN; ++i) { present[i] = 0; ret[i] = 0; }
  int a = nondet_int();
  __CPROVER_assume(a >= 1 && a < TN);
  tree_insert_range(&tree, 0, a, present);
  uint64_t t1 = nondet_u64();
  tree_drain(&tree, t1, ret, present);
  tree_check(tree, present);
  tree_insert_range(&tree, a, TN, present);
  tree_check(tree, present);
  uint64_t t2 = nondet_u64();
  __CPROVER_assume(t2 >= t1); /* timer_trigger_count never decreases */
  tree_drain(&tree, t2, ret, present);
  for (int i = 0; i < TN; ++i) {
    /* t1 <= t2: returned by the first or by the second drain, never by both */
    unsigned expect = NP[i]->wake_time < t2;
    __CPROVER_assert(ret[i] == expect, "interleaved inserts and drains: every node is returned exactly once, as soon as t exceeds its key");
  }
  tree_check(tree, present);
  WITNESS_END();
}

/* =================================================================== 3. wake exactly once */
/* Three fibers call the REAL fiber_sleep one after the other (each call is suspended inside the yield
 * stub, so the three frames - and the three waiter_el_t - are alive together: nested calls model
 * three fiber stacks).  The innermost hook plays the timer. */
static uint32_t w_sec[MAXF], w_usec[MAXF];
static uint64_t w_ttc_at_call[MAXF];
static int w_count; /* number of sleepers */
static int w_level;
static int w_done;

static uint64_t w_sleep_ticks(int i) { /* oracle: ticks fiber_sleep adds (no-wrap range) */
  return (uint64_t)w_sec[i] * 1000u + w_usec[i] / 1000u + 1u;
}

static void hook_multi(fiber_manager_t* m) {
  unsigned before[MAXF];
#ifdef W_BETWEEN
  /* ticks may be accounted between two registrations */
  uint64_t between = nondet_u64();
  __CPROVER_assume(between <= 8);
  for (int i = 0; i < MAXF; ++i) before[i] = sched_calls[i];
  fiber_event_wake_sleepers(m, between); /* REAL */
  for (int i = 0; i < MAXF; ++i) {
    int registered = i <= w_level;
    int due = registered && before[i] == 0 && (w_ttc_at_call[i] + w_sleep_ticks(i) < timer_trigger_count);
    __CPROVER_assert(sched_calls[i] == before[i] + (due ? 1u : 0u),
                     "each due sleeper is scheduled exactly once, sleepers not yet due are not scheduled");
  }
#endif
  if (w_level + 1 < MAXF && w_level + 1 < w_count) { /* first conjunct is concrete: bounds the nesting for symex */
    w_level++;
    m->current_fiber = &fibers[w_level];
    w_ttc_at_call[w_level] = timer_trigger_count;
    fiber_sleep(w_sec[w_level], w_usec[w_level]); /* REAL, next fiber */
    return;
  }
  /* all registered: two more batches */
  for (int round = 0; round < 2; ++round) {
    uint64_t n = nondet_u64();
    __CPROVER_assume(n <= 16);
    for (int i = 0; i < MAXF; ++i) before[i] = sched_calls[i];
    fiber_event_wake_sleepers(m, n); /* REAL */
    for (int i = 0; i < MAXF; ++i) {
      int registered = i < w_count;
      int due = registered && before[i] == 0 && (w_ttc_at_call[i] + w_sleep_ticks(i) < timer_trigger_count);
      __CPROVER_assert(sched_calls[i] == before[i] + (due ? 1u : 0u),
                       "each due sleeper is scheduled exactly once, sleepers not yet due are not scheduled");
    }
    __CPROVER_assert(lock_is_free(), "sleep_spinlock is released at the end of fiber_event_wake_sleepers");
  }
  __CPROVER_assert(sched_foreign == 0 && sched_not_ready == 0,
                   "only registered fibers, in state READY, are handed to the scheduler");
  __CPROVER_assert(sched_lock_free == 0, "sleepers are scheduled while sleep_spinlock is held");
  w_done = 1;
}

void h_wake_once(void) {
  uint64_t ttc0 = nondet_u64();
  env_init(ttc0);
  w_count = nondet_int();
  __CPROVER_assume(w_count >= 1 && w_count <= MAXF);
  for (int i = 0; i < MAXF; ++i) {
    /* bound: short sleeps (1..8 ticks) so that deadlines collide and interleave with the batches below;
     * the duration arithmetic for all uint32 arguments is h_sleep_never_early's job */
    w_sec[i] = 0;
    w_usec[i] = nondet_u32();
    __CPROVER_assume(w_usec[i] <= 7999);
  }
  w_level = 0;
  w_done = 0;
  yield_hook = HOOK_MULTI;
  w_ttc_at_call[0] = timer_trigger_count;
  fiber_sleep(w_sec[0], w_usec[0]); /* REAL */
  __CPROVER_assert(w_done, "all sleepers registered and the timer scenario ran");
  __CPROVER_assert(yield_calls == (unsigned)w_count, "every sleeper suspends exactly once");
  WITNESS_END();
}

/* ---- node lifetime: may the waker touch a sleeper's node after handing the sleeper to the scheduler?
 * Sleepers are registered exactly as fiber_sleep does it (zeroed node, wake_time, waiter_insert, waiter)
 * but the node storage is malloc'ed by the harness so that "the fiber returned from fiber_sleep" can be
 * modelled by free().  fiber_scheduler_schedule stub: nondeterministically the fiber is run by another
 * kernel thread immediately. */
void h_wake_node_lifetime(void) {
  uint64_t ttc0 = nondet_u64();
  env_init(ttc0);
  lifetime_mode = 1;
  int cnt = nondet_int();
  __CPROVER_assume(cnt >= 1 && cnt <= MAXF);
  for (int i = 0; i < MAXF; ++i) {
    life_node[i] = NULL;
    life_dead[i] = 0;
    if (i < cnt) {
      waiter_el_t* nd = (waiter_el_t*)calloc(1, sizeof(waiter_el_t));
      uint64_t ticks = nondet_u64();
      __CPROVER_assume(ticks >= 1 && ticks <= 4);
      nd->wake_time = ttc0 + ticks;
      waiter_insert(&sleepers, nd); /* REAL */
      nd->waiter = &fibers[i];
      fibers[i].state = FIBER_STATE_WAITING;
      life_node[i] = nd;
    }
  }
  uint64_t n = nondet_u64();
  __CPROVER_assume(n <= 8);
  fiber_event_wake_sleepers(&the_manager, n); /* REAL; CBMC's pointer checks flag any access to a freed node */
  __CPROVER_assert(sched_foreign == 0, "scheduler is only handed registered sleepers (no pointer read from a dead node)");
  __CPROVER_assert(lock_is_free(), "sleep_spinlock is released at the end of fiber_event_wake_sleepers");
  WITNESS_END();
}
