/* second translation unit for the C09 E1 harnesses: the REAL src/fiber_io.c (sleep / usleep /
 * nanosleep shims) compiled in unmodified.  It has to be a separate unit because fiber_io.c and
 * fiber_event_native.c both define file-local `fibershim_read` / `max_fd`.  thread_locked (static
 * __thread in fiber_io.c) keeps its initial value 0 (= fibers may be suspended), fiber_manager_get()
 * is the harness stub in sleep_e1.c and never returns NULL, so the shims take the fiber_sleep path. */
#include "fiber_io.c"
