/* E1 harness for C18: one step of lock/trylock/unlock from an ARBITRARY (ticket,users)
 * word, including values around 2^32-1 (wrap-around).  Real code: src/fiber_spinlock.c.
 * fiber_manager_get() is only used for a statistics counter inside the spin loop. */
#include <stdint.h>
#include "fiber_spinlock.c" /* real source, found via -I$REPO/src */

uint32_t nondet_u32(void);
static fiber_manager_t the_manager;
fiber_manager_t* fiber_manager_get(void) { return &the_manager; }

#ifdef WITNESS
#define WITNESS_END() __CPROVER_assert(0, "witness: end of harness reachable")
#else
#define WITNESS_END()
#endif

/* trylock succeeds iff the lock is free (ticket==users); on success only users advances */
void h_trylock(void) {
  fiber_spinlock_t l;
  uint32_t t = nondet_u32(), u = nondet_u32();
  l.state.counters.ticket = t;
  l.state.counters.users = u;
  int r = fiber_spinlock_trylock(&l);
  uint32_t t2 = l.state.counters.ticket, u2 = l.state.counters.users;
  if (r == FIBER_SUCCESS) {
    __CPROVER_assert(t == u, "trylock succeeded only on a free lock (ticket==users)");
    __CPROVER_assert(t2 == t && u2 == (uint32_t)(u + 1), "trylock success advances users by one and leaves ticket");
  } else {
    __CPROVER_assert(r == FIBER_ERROR, "trylock returns SUCCESS or ERROR");
    __CPROVER_assert(t2 == t && u2 == u, "failed trylock leaves the lock word unchanged");
  }
  /* weak CAS may fail spuriously, so failure on a free lock is allowed; success on a held one is not */
  WITNESS_END();
}

/* lock takes ticket == old users, and returns only when ticket == my ticket (here: already equal) */
void h_lock_free(void) {
  fiber_spinlock_t l;
  uint32_t t = nondet_u32();
  l.state.counters.ticket = t;
  l.state.counters.users = t;
  fiber_spinlock_lock(&l);
  __CPROVER_assert(l.state.counters.ticket == t, "lock on a free lock leaves ticket");
  __CPROVER_assert(l.state.counters.users == (uint32_t)(t + 1), "lock takes exactly one ticket (users+1 mod 2^32)");
  WITNESS_END();
}

/* unlock advances ticket by one mod 2^32 and never touches users (mixed-size access to the word) */
void h_unlock(void) {
  fiber_spinlock_t l;
  uint32_t t = nondet_u32(), u = nondet_u32();
  l.state.counters.ticket = t;
  l.state.counters.users = u;
  fiber_spinlock_unlock(&l);
  __CPROVER_assert(l.state.counters.ticket == (uint32_t)(t + 1), "unlock advances ticket by one mod 2^32");
  __CPROVER_assert(l.state.counters.users == u, "unlock leaves users untouched");
  WITNESS_END();
}

/* a contended lock() must not return while ticket != my ticket: bounded spin with the holder
 * releasing after a nondeterministic number of iterations is covered by the E2 harness; here:
 * lock on a held lock spins (unwinding assertion would fire), checked via the assume below */
void h_lock_held_spins(void) {
  fiber_spinlock_t l;
  uint32_t t = nondet_u32(), u = nondet_u32();
  __CPROVER_assume(t != u);
  l.state.counters.ticket = t;
  l.state.counters.users = u;
  fiber_spinlock_lock(&l); /* never returns: loop is cut by --unwind without unwinding assertion */
  __CPROVER_assert(0, "lock returned although another holder/waiter was ahead");
}
