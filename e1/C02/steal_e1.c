/* NOT REGISTERED: experimental harness. Neither the full variant nor -DFEW_POINTS -DPUSH_ONLY reached a verdict within 10-15 min
 * (the owner's whole operations, with array growth and malloc, at every thief step are too much for one SAT query), so no check
 * uses it. Kept as a starting point; see seed C02c in DESIGN.md section 8. */
/* E1 harness for C02 (work-stealing deque): ONE real wsd_work_stealing_deque_steal (src/work_stealing_deque.c, unmodified,
 * #included below) against the OWNER, whose complete real push_bottom / pop_bottom calls run at every point where the thief
 * touches shared memory (after its loads of top and bottom, before its read of the slot - i.e. after it picked up the array
 * pointer - and before its compare-exchange).  This is a sequentialisation: owner operations are atomic with respect to the
 * thief's steps (the finer interleavings are what the E2 scenarios explore); in exchange the owner may run up to ENV_OPS
 * operations, enough to cross TWO growth boundaries (2 -> 4 -> 8 slots) while the thief still holds the first array.
 * The deque starts with 2 elements in a 2-slot array (built by the real create/push code).
 * Checked: a value the thief returns is exactly the entry that was at `top` when its compare-exchange succeeded and top advanced
 * by one (handed out once: the owner's pops are checked against the same ghost sequence); EMPTY/ABORT change nothing; and -
 * by CBMC's own pointer checks - neither side ever touches an array generation that was freed (retired generations must
 * outlive every thief that may still hold them). */
#include <stdint.h>
#include <stdlib.h>
#include "work_stealing_deque.h"

#ifndef ENV_OPS
#define ENV_OPS 3
#endif
_Bool nondet_bool(void);

static wsd_work_stealing_deque_t* D;
static int in_env, env_left;
#define MAXV 8
static uintptr_t gval[MAXV + 4];      /* ghost: value stored at absolute index i (indexes 0 .. MAXV) */
static int64_t g_top, g_bottom;       /* ghost copy of the logical contents [g_top, g_bottom) */
static uintptr_t next_v = 1;
static int owner_bad;
static int thief_cas_ok; static int64_t thief_cas_old;

static void owner_push(void) {
  __CPROVER_assume(g_bottom < MAXV);
  uintptr_t v = next_v++;
  gval[g_bottom] = v;
  g_bottom++;
  wsd_work_stealing_deque_push_bottom(D, (void*)v);
}
static void owner_pop(void) {
  void* r = wsd_work_stealing_deque_pop_bottom(D);
  if (r == WSD_EMPTY) { if (g_bottom != g_top) owner_bad = 1; }
  else if (r == WSD_ABORT) { owner_bad = 1; }           /* the thief is not inside its CAS while the owner runs: no abort possible */
  else { if (g_bottom <= g_top || (uintptr_t)r != gval[g_bottom - 1]) owner_bad = 1; g_bottom--; }
}
static void env_point(void) {
  if (in_env) return;
  in_env = 1;
  for (int k = 0; k < ENV_OPS; k++) {
    if (env_left > 0 && nondet_bool()) { env_left--; 
#ifdef PUSH_ONLY
      owner_push();
#else
      if (nondet_bool()) owner_push(); else owner_pop();
#endif
    }
    else break;
  }
  in_env = 0;
}
static int v_cas_top(_Atomic int64_t* o, int64_t* e, int64_t d) {
  env_point();
  if (*o == *e) { if (!in_env) { thief_cas_ok = 1; thief_cas_old = *e; } *o = d; return 1; }
  *e = *o;
  return 0;
}
#undef atomic_load_explicit
#undef atomic_compare_exchange_weak
#undef atomic_compare_exchange_strong
#undef atomic_compare_exchange_weak_explicit
#undef atomic_compare_exchange_strong_explicit
#ifdef FEW_POINTS
#define atomic_load_explicit(o, m) __atomic_load_n((o), __ATOMIC_SEQ_CST)
#else
#define atomic_load_explicit(o, m) ({ __typeof__(__atomic_load_n((o), __ATOMIC_SEQ_CST)) _v = __atomic_load_n((o), __ATOMIC_SEQ_CST); env_point(); _v; })
#endif
#define atomic_compare_exchange_weak(o, e, d) v_cas_top((_Atomic int64_t*)(o), (e), (d))
#define atomic_compare_exchange_strong(o, e, d) v_cas_top((_Atomic int64_t*)(o), (e), (d))
#define atomic_compare_exchange_weak_explicit(o, e, d, s, f) v_cas_top((_Atomic int64_t*)(o), (e), (d))
#define atomic_compare_exchange_strong_explicit(o, e, d, s, f) v_cas_top((_Atomic int64_t*)(o), (e), (d))
static inline void* v_get(wsd_circular_array_t* a, int64_t i) { env_point(); return wsd_circular_array_get(a, i); }
#define wsd_circular_array_get(a, i) v_get((a), (i))

#include "work_stealing_deque.c" /* real source */

void h_steal(void) {
  D = malloc(sizeof(*D));
  __CPROVER_assume(D != 0);
  D->top = 0; D->bottom = 0;
  D->underlying_array = wsd_circular_array_create(1);          /* 2 slots: the growth boundary is reachable */
  __CPROVER_assume(D->underlying_array != 0);
  in_env = 1;
  owner_push(); owner_push();                                   /* 2 elements: the array is full */
  in_env = 0;
  env_left = ENV_OPS;
  void* r = wsd_work_stealing_deque_steal(D);
  __CPROVER_assert(!owner_bad, "C02 deque: an owner pop returned something other than the newest queued entry (or EMPTY/ABORT wrongly)");
  if (r == WSD_EMPTY || r == WSD_ABORT) {
    __CPROVER_assert(!thief_cas_ok, "C02 deque: a steal that reports EMPTY/ABORT took nothing");
  } else {
    __CPROVER_assert(thief_cas_ok && thief_cas_old == g_top && g_top < g_bottom, "C02 deque: a successful steal advanced top over a queued entry");
    __CPROVER_assert((uintptr_t)r == gval[g_top], "C02 deque: the thief is handed exactly the entry that was at top (not a value that was never pushed, not a value from a retired or freed array generation)");
    g_top++;
  }
  __CPROVER_assert(D->top == g_top && D->bottom == g_bottom, "C02 deque: top/bottom agree with the entries handed out and queued");
  /* final drain by the owner: everything else is still there, once */
  in_env = 1;
  for (int k = 0; k < MAXV; k++) { if (g_bottom == g_top) break; owner_pop(); }
  __CPROVER_assert(!owner_bad && wsd_work_stealing_deque_pop_bottom(D) == WSD_EMPTY, "C02 deque: every entry not handed to the thief is still queued exactly once (nothing dropped, nothing duplicated)");
#ifdef WITNESS
  __CPROVER_assert(!(env_left == 0 && r != WSD_EMPTY && r != WSD_ABORT), "witness: a successful steal after all owner operations is reachable");
#endif
}
