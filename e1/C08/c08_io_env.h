/* C08 ghost environment for the REAL system calls behind src/fiber_io.c.
 *
 * Included AFTER "fiber_io.c" (so that the static fibershim_* pointers, fd_info, max_fd and
 * thread_locked are visible).  Nothing here re-implements libfiber code: it is the kernel side
 * (what read/write/accept/... may answer for a NON-blocking descriptor) plus ghost bookkeeping.
 *
 * Kernel model (each answer is chosen by the solver):
 *   - descriptor outside [0,MAXFD) or not open            -> -1 / EBADF
 *   - descriptor really O_NONBLOCK and stream empty/full  -> -1 / EAGAIN (== EWOULDBLOCK on Linux);
 *     the stream is found empty/full at most g_eagain_left (<= C08_EAGAIN_ROUNDS) times per call
 *     under test, afterwards it is ready (bound of the check)
 *   - any other errno                                     -> -1 / e   (conclusive)
 *   - success: transfers 0..min(len, MAX_RW_COUNT) bytes (writes of len>0: at least 1);
 *     Linux never transfers more than 0x7ffff000 bytes per call (read(2), NOTES) */
#ifndef C08_IO_ENV_H
#define C08_IO_ENV_H

#ifndef C08_MAXFD
#define C08_MAXFD 4
#endif
#define MAXFD C08_MAXFD
#ifndef C08_MAX_RW
#define C08_MAX_RW 0x7ffff000L
#endif
#ifndef C08_EAGAIN_ROUNDS
#define C08_EAGAIN_ROUNDS 3
#endif

int nondet_int(void);
long nondet_long(void);
unsigned nondet_uint(void);
_Bool nondet_bool(void);
size_t nondet_size(void);
unsigned char nondet_uchar(void);

#ifdef WITNESS
#define WITNESS_END() __CPROVER_assert(0, "witness: end of harness reachable")
#else
#define WITNESS_END()
#endif

#define FL_B IO_FLAG_BLOCKING
#define FL_W IO_FLAG_WAITABLE

/* ---------------------------------------------------------------- ghost descriptor table */
static _Bool g_open[MAXFD];    /* kernel: descriptor number is open                         */
static _Bool g_rnb[MAXFD];     /* kernel: O_NONBLOCK is really set on the open file          */
static _Bool g_managed[MAXFD]; /* created through socket/socketpair/accept/pipe shim, unlocked */
static long g_real_fl[MAXFD];  /* kernel: last status flags given to the real F_SETFL        */

/* ---------------------------------------------------------------- the call under test */
static int g_tfd;            /* descriptor the application passes                    */
static unsigned g_dir;       /* direction the call has to wait for                   */
static size_t g_len;         /* byte count requested (total over the iovec)          */
static const void *g_p1, *g_p2, *g_p3;
static size_t g_n1;
static int g_i1;
static unsigned g_u1;
static unsigned g_calls, g_conclusive, g_success, g_after, g_eagain_left;
static long g_last_ret;
static int g_last_errno;
static unsigned long g_consumed;
static int g_new_fd = -1; /* descriptor handed out by the last successful real accept */
static _Bool g_allow_fd0;
/* connect */
static _Bool g_connect_inprogress;
static int g_so_error;
static unsigned g_getsockopt_calls;
static _Bool g_getsockopt_fails;

enum { K_IN, K_OUT, K_ACCEPT, K_CONNECT };

static _Bool fd_valid(int fd) { return fd >= 0 && fd < MAXFD && g_open[fd]; }

static void args_seen(_Bool same) {
  __CPROVER_assert(same, "real call receives the caller's descriptor, buffers, lengths and flags unchanged");
}

/* one answer of the kernel for the call under test */
static long real_answer(int fd, int kind) {
  long ret;
  int e = 0;
  if (g_conclusive) g_after++;
  g_calls++;
  if (!fd_valid(fd)) {
    ret = -1; e = EBADF; g_conclusive++;
  } else {
    if (g_managed[fd] && !thread_locked)
      __CPROVER_assert(g_rnb[fd], "real call on a shim-created descriptor is only made while it is really O_NONBLOCK (else it stalls the kernel thread)");
    if (g_rnb[fd] && g_eagain_left > 0 && nondet_bool()) {
      g_eagain_left--; ret = -1; e = EAGAIN;
    } else if (kind == K_CONNECT && g_rnb[fd] && !g_connect_inprogress && nondet_bool()) {
      g_connect_inprogress = 1; ret = -1; e = EINPROGRESS;
    } else if (nondet_bool()) {
      e = nondet_int();
      __CPROVER_assume(e >= 1 && e <= 133 && e != EAGAIN && e != EWOULDBLOCK && e != EINPROGRESS);
      ret = -1; g_conclusive++;
    } else if (kind == K_ACCEPT) {
      int nfd = nondet_int();
      __CPROVER_assume(nfd >= (g_allow_fd0 ? 0 : 1) && nfd < MAXFD && !g_open[nfd]);
      g_open[nfd] = 1; g_rnb[nfd] = 0; g_managed[nfd] = 0; g_real_fl[nfd] = 0;
      g_new_fd = nfd; ret = nfd; g_conclusive++; g_success++;
    } else if (kind == K_CONNECT) {
      ret = 0; g_conclusive++; g_success++;
    } else {
      ret = nondet_long();
      __CPROVER_assume(ret >= 0 && ret <= C08_MAX_RW && (unsigned long)ret <= g_len);
      if (kind == K_OUT && g_len > 0) __CPROVER_assume(ret >= 1);
      g_conclusive++; g_success++; g_consumed += (unsigned long)ret;
    }
  }
  if (ret < 0) errno = e; /* a successful call leaves errno alone */
  g_last_ret = ret; g_last_errno = e;
  return ret;
}

/* ---------------------------------------------------------------- stubs installed in fibershim_* */
static ssize_t stub_read(int fd, void* buf, size_t count) {
  args_seen(fd == g_tfd && buf == g_p1 && count == g_n1);
  return real_answer(fd, K_IN);
}
static ssize_t stub_readv(int fd, const struct iovec* iov, int cnt) {
  args_seen(fd == g_tfd && iov == g_p1 && cnt == g_i1);
  return real_answer(fd, K_IN);
}
static ssize_t stub_recv(int fd, void* buf, size_t len, int flags) {
  args_seen(fd == g_tfd && buf == g_p1 && len == g_n1 && flags == g_i1);
  return real_answer(fd, K_IN);
}
static ssize_t stub_recvfrom(int fd, void* buf, size_t len, int flags, struct sockaddr* a, socklen_t* al) {
  args_seen(fd == g_tfd && buf == g_p1 && len == g_n1 && flags == g_i1 && a == g_p2 && al == g_p3);
  return real_answer(fd, K_IN);
}
static ssize_t stub_recvmsg(int fd, struct msghdr* m, int flags) {
  args_seen(fd == g_tfd && m == g_p1 && flags == g_i1);
  return real_answer(fd, K_IN);
}
static ssize_t stub_write(int fd, const void* buf, size_t count) {
  args_seen(fd == g_tfd && buf == g_p1 && count == g_n1);
  return real_answer(fd, K_OUT);
}
static ssize_t stub_writev(int fd, const struct iovec* iov, int cnt) {
  args_seen(fd == g_tfd && iov == g_p1 && cnt == g_i1);
  return real_answer(fd, K_OUT);
}
static ssize_t stub_send(int fd, const void* buf, size_t len, int flags) {
  args_seen(fd == g_tfd && buf == g_p1 && len == g_n1 && flags == g_i1);
  return real_answer(fd, K_OUT);
}
static ssize_t stub_sendto(int fd, const void* buf, size_t len, int flags, const struct sockaddr* a, socklen_t al) {
  args_seen(fd == g_tfd && buf == g_p1 && len == g_n1 && flags == g_i1 && a == g_p2 && al == g_u1);
  return real_answer(fd, K_OUT);
}
static ssize_t stub_sendmsg(int fd, const struct msghdr* m, int flags) {
  args_seen(fd == g_tfd && m == g_p1 && flags == g_i1);
  return real_answer(fd, K_OUT);
}
static int stub_accept(int fd, struct sockaddr* a, socklen_t* al) {
  args_seen(fd == g_tfd && a == g_p2 && al == g_p3);
  return (int)real_answer(fd, K_ACCEPT);
}
static int stub_connect(int fd, const struct sockaddr* a, socklen_t al) {
  args_seen(fd == g_tfd && a == g_p2 && al == g_u1);
  return (int)real_answer(fd, K_CONNECT);
}

/* real fcntl: keeps the kernel's O_NONBLOCK ghost */
static unsigned g_fcntl_calls;
static int g_fcntl_fd, g_fcntl_cmd;
static long g_fcntl_val;
static int g_fcntl_ret;
static _Bool g_fcntl_may_fail;
static int stub_fcntl(int fd, int cmd, ...) {
  va_list ap;
  va_start(ap, cmd);
  /* the library itself calls fibershim_fcntl(sock, F_SETFL, O_NONBLOCK) with an int argument and
   * fibershim_fcntl(fd, cmd, val) with a long one: read whichever was passed */
  long val;
  if (__CPROVER_OBJECT_SIZE(*ap) == sizeof(int)) val = va_arg(ap, int);
  else val = va_arg(ap, long);
  va_end(ap);
  g_fcntl_calls++; g_fcntl_fd = fd; g_fcntl_cmd = cmd; g_fcntl_val = val;
  int r;
  if (!fd_valid(fd)) { errno = EBADF; r = -1; }
  else if (g_fcntl_may_fail && nondet_bool()) { errno = EINVAL; r = -1; }
  else if (cmd == F_SETFL) { g_rnb[fd] = (val & O_NONBLOCK) != 0; g_real_fl[fd] = val; r = 0; }
  else if (cmd == F_GETFL) { r = (int)(g_real_fl[fd] & 0x7fffffff & ~(long)O_NONBLOCK) | (g_rnb[fd] ? O_NONBLOCK : 0); }
  else { r = nondet_int(); if (r < 0) { r = -1; errno = EINVAL; } }
  g_fcntl_ret = r;
  return r;
}

static unsigned g_ioctl_calls;
static int g_ioctl_fd;
static unsigned long g_ioctl_req;
static void* g_ioctl_arg;
static int g_ioctl_ret;
static int stub_ioctl(int fd, unsigned long req, ...) {
  va_list ap;
  va_start(ap, req);
  void* arg = va_arg(ap, void*);
  va_end(ap);
  g_ioctl_calls++; g_ioctl_fd = fd; g_ioctl_req = req; g_ioctl_arg = arg;
  int r;
  if (!fd_valid(fd)) { errno = EBADF; r = -1; }
  else { r = nondet_int(); if (r < 0) { r = -1; errno = ENOTTY; } }
  g_ioctl_ret = r;
  return r;
}

static unsigned g_close_calls;
static int g_close_fd, g_close_ret;
static unsigned g_fdclosed_calls, g_fdclosed_after_real_close;
static int g_fdclosed_fd;
static int stub_close(int fd) {
  g_close_calls++; g_close_fd = fd;
  int r;
  if (!fd_valid(fd)) { errno = EBADF; r = -1; }
  else {
    g_open[fd] = 0; g_rnb[fd] = 0; g_managed[fd] = 0; g_real_fl[fd] = 0; /* Linux always releases the number */
#ifdef C08_ON_REAL_CLOSE
    C08_ON_REAL_CLOSE(fd); /* the kernel drops a closed descriptor from every epoll set */
#endif
    if (nondet_bool()) { errno = EIO; r = -1; } else r = 0;
  }
  g_close_ret = r;
  return r;
}

/* descriptor creation: the kernel hands out a currently unused number below RLIMIT_NOFILE
 * (max_fd is the hard limit, so every number it hands out is < max_fd) */
static int fresh_fd(int lo) {
  int fd = nondet_int();
  __CPROVER_assume(fd >= lo && fd < MAXFD && !g_open[fd]);
  g_open[fd] = 1; g_rnb[fd] = 0; g_managed[fd] = 0; g_real_fl[fd] = 0;
  return fd;
}
static int g_created[2] = {-1, -1};
static _Bool g_create_may_fail;
static int stub_socket(int d, int t, int p) {
  if (g_create_may_fail && nondet_bool()) { errno = EMFILE; return -1; }
  g_created[0] = fresh_fd(0);
  return g_created[0];
}
static int stub_socketpair(int d, int t, int p, int sv[2]) {
  if (g_create_may_fail && nondet_bool()) { errno = EMFILE; return -1; }
  g_created[0] = sv[0] = fresh_fd(0);
  g_created[1] = sv[1] = fresh_fd(0);
  return 0;
}
static int stub_pipe(int pfd[2]) {
  if (g_create_may_fail && nondet_bool()) { errno = EMFILE; return -1; }
  g_created[0] = pfd[0] = fresh_fd(0);
  g_created[1] = pfd[1] = fresh_fd(0);
  return 0;
}

static _Bool g_sockopt_may_fail;
int setsockopt(int fd, int level, int name, const void* v, socklen_t l) {
  if (!fd_valid(fd)) { errno = EBADF; return -1; }
  if (g_sockopt_may_fail && nondet_bool()) { errno = ENOPROTOOPT; return -1; }
  return 0;
}
int getsockopt(int fd, int level, int name, void* v, socklen_t* l) {
  g_getsockopt_calls++;
  if (!fd_valid(fd)) { errno = EBADF; return -1; }
  if (g_getsockopt_fails) { errno = ENOBUFS; return -1; }
  if (level == SOL_SOCKET && name == SO_ERROR) *(int*)v = g_so_error;
  return 0;
}

void* dlsym(void* h, const char* n) {
  __CPROVER_assert(0, "harness presets every fibershim pointer: dlsym is never reached");
  return 0;
}

static fiber_manager_t g_io_manager_dummy;

/* ---------------------------------------------------------------- initial state */
/* Runtime initialised (fiber_io_init done: the calls are made from a fiber), max_fd == MAXFD and
 * fd_info has EXACTLY max_fd entries, every other descriptor in an arbitrary state satisfying
 *   INV1  flags_ uses only the two defined bits
 *   INV2  WAITABLE set  =>  descriptor open, really O_NONBLOCK, created through a shim
 *   INV3  descriptor closed => flags_ == 0   (close() clears; see NOTES for FIONBIO on closed fds) */
static void io_env_init(void) {
  max_fd = MAXFD;
  fd_info = calloc(max_fd, sizeof(*fd_info));
  thread_locked = 0;
  for (int i = 0; i < MAXFD; ++i) {
    unsigned char f = nondet_uchar() & (FL_B | FL_W);
    g_open[i] = nondet_bool();
    g_rnb[i] = nondet_bool();
    g_managed[i] = nondet_bool();
    g_real_fl[i] = g_rnb[i] ? O_NONBLOCK : 0;
    if (!g_open[i]) { f = 0; g_rnb[i] = 0; g_managed[i] = 0; g_real_fl[i] = 0; }
    if (f & FL_W) __CPROVER_assume(g_rnb[i] && g_managed[i]);
    else g_managed[i] = 0;
    fd_info[i].flags_ = f;
  }
  fibershim_read = stub_read; fibershim_readv = stub_readv; fibershim_write = stub_write;
  fibershim_writev = stub_writev; fibershim_socket = stub_socket; fibershim_socketpair = stub_socketpair;
  fibershim_accept = stub_accept; fibershim_send = stub_send; fibershim_sendto = stub_sendto;
  fibershim_sendmsg = stub_sendmsg; fibershim_recvfrom = stub_recvfrom; fibershim_recv = stub_recv;
  fibershim_recvmsg = stub_recvmsg; fibershim_connect = stub_connect; fibershim_pipe = stub_pipe;
  fibershim_fcntl = stub_fcntl; fibershim_ioctl = stub_ioctl; fibershim_close = stub_close;
}

static void call_log_reset(void) {
  g_calls = g_conclusive = g_success = g_after = 0;
  g_consumed = 0; g_last_ret = 0; g_last_errno = 0; g_new_fd = -1;
  g_connect_inprogress = 0; g_getsockopt_calls = 0;
  g_fcntl_calls = g_ioctl_calls = g_close_calls = g_fdclosed_calls = g_fdclosed_after_real_close = 0;
}

/* a descriptor created through the REAL socket() shim on an unlocked thread (so the harness does
 * not depend on how the library represents "blocking + waitable") */
static int make_managed_fd(void) {
  g_create_may_fail = 0; g_fcntl_may_fail = 0; g_sockopt_may_fail = 0;
  int fd = socket(AF_INET, SOCK_STREAM, 0);
  __CPROVER_assume(fd >= 0);
  g_managed[fd] = 1;
  return fd;
}

/* arguments handed to the shims (never dereferenced by the library or by the stubs) */
static char g_buf[8];
static struct iovec g_iov[2];
static struct msghdr g_msg;
static struct sockaddr g_addr;
static socklen_t g_addrlen;

#endif
