/* E1 harnesses for C08, part 3 (obligation a + end-to-end): the REAL src/fiber_io.c and the REAL
 * src/fiber_event_native.c in ONE translation unit (the two files' clashing statics max_fd /
 * fibershim_read / readFnType of fiber_event_native.c are renamed textually to evn_*), so that
 * close() reaches the real fiber_fd_closed and every blocking shim reaches the real
 * fiber_wait_for_event; below them the ghost kernel (c08_io_env.h) and the epoll / scheduler /
 * context-switch environment (c08_ev_env.h).  fiber_spinlock_lock/unlock are replaced by an
 * address-checking stub (the ticket lock itself is C18's and ev_e1.c's business): the fd spinlock is
 * the first thing the runtime touches in a wait record, so its address being inside
 * wait_info[0..max_fd) is exactly "no out-of-range descriptor index".
 *
 *   h_sys_<shim>   arbitrary descriptor (valid, closed, negative, >= max_fd), arbitrary bookkeeping
 *                  state: memory safety (CBMC bounds/pointer checks on the real fd_info/wait_info),
 *                  invalid descriptor => error return and no suspension, a suspended fiber is
 *                  always resumed (readiness or close by another fiber)
 *   h_sys_fcntl / h_sys_ioctl / h_sys_close   same for the three calls that index the tables
 *
 * Descriptor value: -DC08_FD=k pins it to the in-range constant k (one job per value; constant
 * indices keep the encoding small); without it the descriptor is any int OUTSIDE [0,max_fd).
 */
#include "fiber_io.c" /* real source */
static void ev_kernel_closed_fwd(int fd);
#define C08_ON_REAL_CLOSE(fd) ev_kernel_closed_fwd(fd)
#include "c08_io_env.h"

#define max_fd evn_max_fd
#define fibershim_read evn_fibershim_read
#define readFnType evn_readFnType
#include "fiber_event_native.c" /* real source */

/* ---- address-checking spinlock stub */
static _Bool g_lock_held[MAXFD];
static _Bool g_sleep_lock_held;
static _Bool lock_in_range(fiber_spinlock_t* l) { /* wait_info points at the start of its object */
  long off = (long)__CPROVER_POINTER_OFFSET(l);
  return __CPROVER_same_object(l, wait_info) && off >= 0 && off < (long)(MAXFD * sizeof(fd_wait_info_t));
}
static int lock_index(fiber_spinlock_t* l) { return (int)((long)__CPROVER_POINTER_OFFSET(l) / (long)sizeof(fd_wait_info_t)); }
int fiber_spinlock_lock(fiber_spinlock_t* l) {
  if (l == &sleep_spinlock) { g_sleep_lock_held = 1; return FIBER_SUCCESS; }
  _Bool ok = lock_in_range(l);
  __CPROVER_assert(ok, "the runtime only touches wait records of descriptors inside [0,max_fd) (no out-of-range index into wait_info)");
#ifdef WITNESS
  /* on a tree where the wild index exists the harness end is unreachable for out-of-range descriptors
   * (next line); reaching the real event code with such a descriptor is then the reachability witness */
  if (!ok) __CPROVER_assert(0, "witness: real event code reached with an out-of-range descriptor");
#endif
  __CPROVER_assume(ok); /* what happens after a wild access is not the harness's business */
  int i = lock_index(l);
  __CPROVER_assert(!g_lock_held[i], "an fd spinlock is free when it is taken (no self-deadlock)");
  g_lock_held[i] = 1;
  return FIBER_SUCCESS;
}
int fiber_spinlock_unlock(fiber_spinlock_t* l) {
  if (l == &sleep_spinlock) { g_sleep_lock_held = 0; return FIBER_SUCCESS; }
  int i = lock_index(l);
  __CPROVER_assert(lock_in_range(l) && g_lock_held[i], "an fd spinlock is released only by its holder");
  g_lock_held[i] = 0;
  return FIBER_SUCCESS;
}
#define EV_STUB_SPINLOCK 1
#define EV_ENV_SIMPLE 1
#define EV_LOCK_IS_FREE(l) (!g_lock_held[lock_index(l)])
#define EV_FD_OPEN(fd) g_open[fd]
static void env_close(int fd);
#define ENV_CLOSE(fd) env_close(fd)
#include "c08_ev_env.h"
static void ev_kernel_closed_fwd(int fd) { ev_kernel_closed(fd); }
#undef max_fd
#undef fibershim_read
#undef readFnType

/* another fiber closes the descriptor through the shim while the fiber under test is suspended */
static void env_close(int fd) { (void)close(fd); }

/* ------------------------------------------------------------ scenario */
static int pick_any_fd(void) {
  int fd = nondet_int();
#ifdef C08_FD
  __CPROVER_assume(fd == C08_FD);
  return C08_FD;
#else
  __CPROVER_assume(fd < 0 || fd >= MAXFD);
  return fd;
#endif
}

static void sys_init(int fd) {
  io_env_init(); /* arbitrary bookkeeping for every descriptor (INV1-3), arbitrary open/closed */
  ev_env_init(); /* quiescent wait records (INV-E1/E2), epoll set only holds open descriptors */
  for (int i = 0; i < MAXFD; ++i) g_lock_held[i] = 0;
  /* the application never passes the runtime's private epoll / timer descriptors */
  __CPROVER_assume(fd != event_fd && fd != timer_fd);
  if (nondet_bool()) fiber_io_lock_thread();
  g_env_fd = fd;
  g_env_mode = ENV_WAKE;
  g_wake_kind = nondet_bool() ? WAKE_READY : WAKE_CLOSE;
  g_second_dir = 0;
  g_mgr.current_fiber = &g_fib[0];
}

#define SHIMS(X)                                                                                           \
  X(read, FIBER_POLL_IN, 0, K_IN, (g_p1 = g_buf, g_n1 = g_len), read(fd, g_buf, g_len))                     \
  X(readv, FIBER_POLL_IN, 0, K_IN, (g_p1 = g_iov, g_i1 = 2), readv(fd, g_iov, 2))                           \
  X(recv, FIBER_POLL_IN, 1, K_IN, (g_p1 = g_buf, g_n1 = g_len, g_i1 = fl), recv(fd, g_buf, g_len, fl))      \
  X(recvfrom, FIBER_POLL_IN, 1, K_IN,                                                                       \
    (g_p1 = g_buf, g_n1 = g_len, g_i1 = fl, g_p2 = &g_addr, g_p3 = &g_addrlen),                             \
    recvfrom(fd, g_buf, g_len, fl, &g_addr, &g_addrlen))                                                    \
  X(recvmsg, FIBER_POLL_IN, 1, K_IN, (g_p1 = &g_msg, g_i1 = fl), recvmsg(fd, &g_msg, fl))                   \
  X(write, FIBER_POLL_OUT, 0, K_OUT, (g_p1 = g_buf, g_n1 = g_len), write(fd, g_buf, g_len))                 \
  X(writev, FIBER_POLL_OUT, 0, K_OUT, (g_p1 = g_iov, g_i1 = 2), writev(fd, g_iov, 2))                       \
  X(send, FIBER_POLL_OUT, 1, K_OUT, (g_p1 = g_buf, g_n1 = g_len, g_i1 = fl), send(fd, g_buf, g_len, fl))    \
  X(sendto, FIBER_POLL_OUT, 1, K_OUT,                                                                       \
    (g_p1 = g_buf, g_n1 = g_len, g_i1 = fl, g_p2 = &g_addr, g_u1 = alen),                                   \
    sendto(fd, g_buf, g_len, fl, &g_addr, alen))                                                            \
  X(sendmsg, FIBER_POLL_OUT, 1, K_OUT, (g_p1 = &g_msg, g_i1 = fl), sendmsg(fd, &g_msg, fl))                 \
  X(accept, FIBER_POLL_IN, 0, K_ACCEPT, (g_p2 = &g_addr, g_p3 = &g_addrlen), accept(fd, &g_addr, &g_addrlen)) \
  X(connect, FIBER_POLL_OUT, 0, K_CONNECT, (g_p2 = &g_addr, g_u1 = alen), connect(fd, &g_addr, alen))

#ifndef C08_SYS_EAGAIN
#define C08_SYS_EAGAIN 1
#endif

#define H_SYS(NAME, DIR, HASFL, KIND, SETARGS, CALL)                                                        \
  void h_sys_##NAME(void) {                                                                                 \
    int fd = pick_any_fd();                                                                                 \
    sys_init(fd);                                                                                           \
    int fl = nondet_int();                                                                                  \
    socklen_t alen = nondet_uint();                                                                         \
    g_len = nondet_size();                                                                                  \
    g_eagain_left = nondet_uint();                                                                          \
    __CPROVER_assume(g_eagain_left <= C08_SYS_EAGAIN);                                                      \
    g_allow_fd0 = 0;                                                                                        \
    g_so_error = nondet_int();                                                                              \
    __CPROVER_assume(g_so_error >= 0 && g_so_error <= 133);                                                 \
    g_getsockopt_fails = nondet_bool();                                                                     \
    g_tfd = fd; g_dir = DIR; g_fib_dir[0] = DIR; g_rewait_dir = DIR;                                        \
    SETARGS;                                                                                                \
    call_log_reset();                                                                                       \
    _Bool invalid = !fd_valid(fd);                                                                          \
    errno = nondet_int();                                                                                   \
    long r = CALL;                                                                                          \
    int e = errno;                                                                                          \
    if (invalid) {                                                                                          \
      __CPROVER_assert(r == -1 && e == EBADF, #NAME " on an invalid descriptor (closed, negative or >= max_fd) returns the plain call's error (-1/EBADF)"); \
      __CPROVER_assert(g_yields == 0, #NAME " on an invalid descriptor never suspends the fiber");          \
    }                                                                                                       \
    __CPROVER_assert(g_mgr.spinlock_to_unlock == 0, #NAME " leaves no deferred unlock behind");              \
    for (int i = 0; i < MAXFD; ++i)                                                                         \
      __CPROVER_assert(!g_lock_held[i], #NAME " returns with every fd spinlock released");                  \
    if (g_yields > 0) WITNESS_END(); /* the interesting path: suspended through the real event code and resumed */ \
  }
SHIMS(H_SYS)

void h_sys_fcntl(void) {
  int fd = pick_any_fd();
  sys_init(fd);
  int cmd = nondet_int();
  long val = nondet_long();
  g_fcntl_may_fail = 1;
  call_log_reset();
  _Bool in_range = fd >= 0 && fd < MAXFD;
  int r = fcntl(fd, cmd, val);
  if (!in_range)
    __CPROVER_assert(r == -1, "fcntl() on a descriptor outside [0,max_fd) fails like the plain call instead of indexing the descriptor table");
  WITNESS_END();
}

void h_sys_ioctl(void) {
  int fd = pick_any_fd();
  sys_init(fd);
  unsigned long req = nondet_long();
  int x = nondet_int();
  void* arg = nondet_bool() ? (void*)&x : (void*)0;
  call_log_reset();
  _Bool in_range = fd >= 0 && fd < MAXFD;
  int r = ioctl(fd, req, arg);
  if (!in_range)
    __CPROVER_assert(r == -1, "ioctl() on a descriptor outside [0,max_fd) fails like the plain call instead of indexing the descriptor table");
  WITNESS_END();
}

void h_sys_close(void) {
  int fd = pick_any_fd();
  sys_init(fd);
  /* fibers blocked on the descriptor (only possible for an in-range one) */
  unsigned d1 = nondet_uint();
  __CPROVER_assume(d1 <= 3);
#ifdef C08_FD
  if (d1 && g_open[C08_FD]) {
    g_mgr.current_fiber = &g_fib[1];
    g_fib_dir[1] = d1;
    g_env_mode = ENV_NONE;
    (void)fiber_wait_for_event(fd, d1);
    g_fib[1].state = FIBER_STATE_WAITING;
    g_mgr.current_fiber = &g_fib[0];
  }
#endif
  g_fib_dir[0] = 0;
  _Bool waiter = g_fib_dir[1] != 0;
  _Bool invalid = !fd_valid(fd);
  call_log_reset();
  int r = close(fd);
  int e = errno;
  if (invalid)
    __CPROVER_assert(r == -1 && e == EBADF, "close() on an invalid descriptor (closed, negative or >= max_fd) returns the plain call's error (-1/EBADF)");
  else
    __CPROVER_assert(g_close_calls == 1 && r == g_close_ret, "close() on a valid descriptor returns the real close's result");
  if (waiter)
    __CPROVER_assert(g_sched_count[1] == 1 && g_fib[1].scratch != (void*)0 && g_fib[1].state == FIBER_STATE_READY,
                     "close() resumes a fiber blocked on the descriptor, with the 'closed' result");
  for (int i = 0; i < MAXFD; ++i) __CPROVER_assert(!g_lock_held[i], "close() returns with every fd spinlock released");
  WITNESS_END();
}
