/* C08 ghost environment for the REAL src/fiber_event_native.c (fd part): epoll, the scheduler and
 * the context switch.  Included AFTER "fiber_event_native.c" (statics wait_info, max_fd, event_fd,
 * timer_fd, fibershim_read visible; in ioev_e1.c max_fd / fibershim_read are macro-renamed to
 * evn_max_fd / evn_fibershim_read while this header is read).
 *
 * epoll model: an interest set (g_ep_in) and the armed event mask (g_ep_armed) per descriptor;
 *   EPOLL_CTL_ADD fails with EEXIST if present, MOD/DEL fail with ENOENT if absent, otherwise they
 *   succeed and (re)arm the mask; a delivered EPOLLONESHOT event disarms the descriptor.
 * fiber_manager_yield = "this fiber is suspended": it runs the deferred action exactly like
 *   fiber_manager_do_maintenance (unlock manager->spinlock_to_unlock, clear the field), then lets
 *   the rest of the system run (env_while_suspended: optionally another fiber registers on the same
 *   descriptor, then EITHER the poller processes a readiness event through the real
 *   fiber_poll_events_internal OR another fiber closes the descriptor), and returns only when the
 *   fiber has been handed to the scheduler.
 * fiber_scheduler_schedule records the fiber in a ghost list. */
#ifndef C08_EV_ENV_H
#define C08_EV_ENV_H

#ifndef C08_MAXFD
#define C08_MAXFD 4
#endif
#ifndef MAXFD
#define MAXFD C08_MAXFD
#endif
#ifndef WITNESS_END
#ifdef WITNESS
#define WITNESS_END() __CPROVER_assert(0, "witness: end of harness reachable")
#else
#define WITNESS_END()
#endif
#endif
#ifndef EV_FD_OPEN
#define EV_FD_OPEN(fd) 1
#endif

int nondet_int(void);
unsigned nondet_uint(void);
_Bool nondet_bool(void);
long nondet_long(void);

/* run BODY(k) with k a compile-time-like constant equal to fd (in-range values are enumerated so that
 * the encoding indexes the real arrays with constants; out-of-range values stay symbolic) */
#define WITH_CONCRETE_FD(fd, BODY)                  \
  do {                                              \
    _Bool done_ = 0;                                \
    for (int k_ = 0; k_ < MAXFD; ++k_)              \
      if ((fd) == k_) { BODY(k_); done_ = 1; }      \
    if (!done_) BODY(fd);                           \
  } while (0)

/* same, for a descriptor already known to be in range */
#define WITH_CONCRETE_VALID_FD(fd, BODY)            \
  do {                                              \
    for (int k_ = 0; k_ < MAXFD; ++k_)              \
      if ((fd) == k_) { BODY(k_); }                 \
  } while (0)

#define NFIB 3
static fiber_t g_fib[NFIB];
static unsigned g_fib_dir[NFIB]; /* direction each fiber is waiting for (0: not waiting) */
static fiber_manager_t g_mgr;
static fiber_scheduler_t g_sched_dummy;
static unsigned g_sched_count[NFIB];
static _Bool g_sched_scratch[NFIB]; /* scratch != NULL when the fiber was handed to the scheduler */

fiber_manager_t* fiber_manager_get(void) { return &g_mgr; }

void fiber_scheduler_schedule(fiber_scheduler_t* s, fiber_t* f) {
  int idx = -1;
  for (int i = 0; i < NFIB; ++i)
    if (f == &g_fib[i]) idx = i;
  __CPROVER_assert(idx >= 0 && g_fib_dir[idx] != 0, "only fibers that registered on the descriptor are handed to the scheduler");
  __CPROVER_assert(f->state == FIBER_STATE_READY, "a woken fiber is marked READY before it is handed to the scheduler");
  if (idx >= 0) {
    g_sched_count[idx]++;
    g_sched_scratch[idx] = f->scratch != (void*)0; /* the result must be published before the fiber can run */
  }
}

/* ---------------------------------------------------------------- epoll ghost */
static _Bool g_ep_in[MAXFD];
static uint32_t g_ep_armed[MAXFD];
static unsigned g_epctl_wrong_epfd;

int epoll_ctl(int epfd, int op, int fd, struct epoll_event* ev) {
  if (epfd != event_fd) g_epctl_wrong_epfd++;
  if (fd < 0 || fd >= MAXFD || !EV_FD_OPEN(fd)) { errno = EBADF; return -1; }
  if (op == EPOLL_CTL_ADD) {
    if (g_ep_in[fd]) { errno = EEXIST; return -1; }
    g_ep_in[fd] = 1; g_ep_armed[fd] = ev->events;
    return 0;
  }
  if (op == EPOLL_CTL_MOD) {
    if (!g_ep_in[fd]) { errno = ENOENT; return -1; }
    g_ep_armed[fd] = ev->events;
    return 0;
  }
  if (op == EPOLL_CTL_DEL) {
    if (!g_ep_in[fd]) { errno = ENOENT; return -1; }
    g_ep_in[fd] = 0; g_ep_armed[fd] = 0;
    return 0;
  }
  errno = EINVAL;
  return -1;
}
static void ev_kernel_closed(int fd) {
  if (fd >= 0 && fd < MAXFD) { g_ep_in[fd] = 0; g_ep_armed[fd] = 0; }
}

/* what the next epoll_wait reports */
static int g_epw_n;
static int g_epw_fd[2];
static uint32_t g_epw_mask[2];
static _Bool g_epw_eintr;
int epoll_wait(int epfd, struct epoll_event* evs, int maxev, int timeout) {
  if (g_epw_eintr) { errno = EINTR; return -1; }
  for (int i = 0; i < g_epw_n && i < 2; ++i) {
    evs[i].events = g_epw_mask[i];
    evs[i].data.fd = g_epw_fd[i];
    if (g_epw_fd[i] >= 0 && g_epw_fd[i] < MAXFD && nondet_bool())
      g_ep_armed[g_epw_fd[i]] = 0; /* EPOLLONESHOT: delivery disarms (unless this is a stale, already re-armed event) */
  }
  return g_epw_n;
}

static ssize_t ev_stub_timer_read(int fd, void* buf, size_t n) {
  if (nondet_bool()) { errno = EAGAIN; return -1; }
  *(uint64_t*)buf = (uint64_t)nondet_long();
  return 8;
}

/* ---------------------------------------------------------------- waiter-list observers */
#ifndef EV_LOCK_IS_FREE
#define EV_LOCK_IS_FREE(l) ((l)->state.counters.ticket == (l)->state.counters.users)
#endif

static int list_count(int fd, fiber_t* f) { /* how often f is on fd's waiter list (list length <= NFIB) */
  int n = 0;
  fiber_t* p = (fiber_t*)wait_info[fd].waiters;
  for (int i = 0; i < NFIB + 1 && p; ++i) {
    if (p == f) n++;
    p = (fiber_t*)p->scratch;
  }
  return n;
}
static int list_len(int fd) {
  int n = 0;
  fiber_t* p = (fiber_t*)wait_info[fd].waiters;
  for (int i = 0; i < NFIB + 1 && p; ++i) {
    n++;
    p = (fiber_t*)p->scratch;
  }
  return n;
}
static _Bool armed_for(int fd, unsigned dir) {
  return g_ep_in[fd] && (!(dir & FIBER_POLL_IN) || (g_ep_armed[fd] & EPOLLIN)) &&
         (!(dir & FIBER_POLL_OUT) || (g_ep_armed[fd] & EPOLLOUT));
}

/* right after a fiber has been suspended by fiber_wait_for_event(fd, ..) */
static void check_registered(int fd, int idx) {
  int waiting = 0;
  for (int i = 0; i < NFIB; ++i) {
    if (!g_fib_dir[i]) continue;
    waiting++;
    __CPROVER_assert(list_count(fd, &g_fib[i]) == 1, "every fiber suspended in fiber_wait_for_event is on the descriptor's waiter list exactly once");
    __CPROVER_assert(armed_for(fd, g_fib_dir[i]), "while a fiber waits, the descriptor is registered and armed in epoll for the direction it waits for");
  }
  __CPROVER_assert(list_len(fd) == waiting, "the waiter list holds exactly the suspended fibers");
  __CPROVER_assert(g_fib[idx].state == FIBER_STATE_WAITING, "a fiber suspended on a descriptor is in state WAITING");
  __CPROVER_assert(EV_LOCK_IS_FREE(&wait_info[fd].spinlock), "the fd spinlock is released once the registering fiber is suspended");
  __CPROVER_assert(wait_info[fd].added == g_ep_in[fd], "the 'added' bookkeeping matches the epoll interest set");
  __CPROVER_assert(g_epctl_wrong_epfd == 0, "epoll_ctl is issued on the runtime's epoll descriptor");
}

/* ---------------------------------------------------------------- the rest of the system */
enum { ENV_NONE, ENV_WAKE };
enum { WAKE_READY, WAKE_CLOSE };
static int g_env_mode, g_env_fd, g_wake_kind;
static unsigned g_second_dir; /* another fiber (g_fib[2]) registers while g_fib[0] is suspended */
static unsigned g_rewait_dir; /* direction to note when a fiber suspends again after having been woken */
static int g_yield_depth;
static unsigned g_yields;
#ifndef ENV_CLOSE
#define ENV_CLOSE(fd) fiber_fd_closed(fd)
#endif

static void env_while_suspended(int idx) {
  int fd = g_env_fd;
  check_registered(fd, idx);
  if (g_second_dir && !g_fib_dir[2]) {
    g_mgr.current_fiber = &g_fib[2];
    g_fib[2].state = FIBER_STATE_RUNNING;
    g_fib_dir[2] = g_second_dir;
    (void)fiber_wait_for_event(fd, g_second_dir); /* returns here = "fiber 2 is suspended too" */
    g_fib[2].state = FIBER_STATE_WAITING;
    check_registered(fd, 2);
  }
  _Bool was_waiting[NFIB];
  for (int i = 0; i < NFIB; ++i) { was_waiting[i] = g_fib_dir[i] != 0; g_sched_count[i] = 0; }
  g_mgr.current_fiber = 0; /* whoever runs now, it is not one of the suspended fibers */
  if (g_wake_kind == WAKE_READY) {
    /* the poller: one or two events, at least one of them for fd, the other one for an arbitrary
     * descriptor (fd again = duplicate/stale event, another descriptor, or the timer); masks
     * arbitrary (non-zero).  */
#ifdef EV_ENV_SIMPLE
    g_epw_n = 1; /* end-to-end harnesses: exactly one event, for fd (the variations are ev_e1.c's job) */
#else
    g_epw_n = nondet_bool() ? 1 : 2;
#endif
    int other = nondet_int();
    _Bool other_is_timer = nondet_bool();
    __CPROVER_assume(other >= 0 && other < MAXFD);
    _Bool first = nondet_bool();
    g_epw_mask[0] = nondet_uint(); g_epw_mask[1] = nondet_uint();
    __CPROVER_assume(g_epw_mask[0] != 0 && g_epw_mask[1] != 0);
    g_epw_eintr = 0;
    if (other_is_timer) other = timer_fd;
    g_epw_fd[0] = (first || g_epw_n == 1) ? fd : other;
    g_epw_fd[1] = first ? other : fd;
    int n = fiber_poll_events_internal(0, 0);
    __CPROVER_assert(n == g_epw_n, "the poller reports the number of events it processed");
  } else {
    ENV_CLOSE(fd);
    __CPROVER_assert(!g_ep_in[fd] && wait_info[fd].added == 0 && wait_info[fd].events == 0,
                     "closing a descriptor removes it from epoll and clears its registration");
  }
  for (int i = 0; i < NFIB; ++i) {
    if (!was_waiting[i]) {
      __CPROVER_assert(g_sched_count[i] == 0, "a fiber that is not waiting on the descriptor is not scheduled by its events");
      continue;
    }
    if (g_wake_kind == WAKE_READY) {
      __CPROVER_assert(g_sched_count[i] == 1, "a readiness event schedules every fiber blocked on the descriptor exactly once");
      __CPROVER_assert(g_sched_scratch[i] == 0, "a fiber woken by readiness sees scratch == 0 (fiber_wait_for_event succeeds)");
    } else {
      __CPROVER_assert(g_sched_count[i] == 1, "closing a descriptor schedules every fiber blocked on it exactly once");
      __CPROVER_assert(g_sched_scratch[i] != 0, "a fiber woken by close sees a non-zero scratch (fiber_wait_for_event fails)");
    }
    g_fib_dir[i] = 0;
  }
  __CPROVER_assert(wait_info[fd].waiters == 0, "the waiter list is empty after the wake-up");
  __CPROVER_assert(EV_LOCK_IS_FREE(&wait_info[fd].spinlock), "the fd spinlock is released after the wake-up");
}

void fiber_manager_yield(fiber_manager_t* m) {
  fiber_t* const me = m->current_fiber;
  int idx = -1;
  for (int i = 0; i < NFIB; ++i)
    if (me == &g_fib[i]) idx = i;
  g_yields++;
  if (idx >= 0 && !g_fib_dir[idx]) g_fib_dir[idx] = g_rewait_dir;
  __CPROVER_assert(m->spinlock_to_unlock != 0, "a fiber suspending in fiber_wait_for_event defers the unlock of the fd spinlock to the maintenance step");
  /* fiber_manager_do_maintenance, spinlock part */
  if (m->spinlock_to_unlock) {
    fiber_spinlock_t* const to_unlock = m->spinlock_to_unlock;
    m->spinlock_to_unlock = 0;
    fiber_spinlock_unlock(to_unlock);
  }
  if (g_env_mode == ENV_WAKE && g_yield_depth == 0 && idx >= 0) {
    g_yield_depth = 1;
    env_while_suspended(idx);
    g_yield_depth = 0;
    /* being handed to the scheduler exactly once is what lets this call return */
    me->state = FIBER_STATE_RUNNING;
  }
  m->current_fiber = me;
}

void fiber_do_real_sleep(uint32_t s, uint32_t us) {}

/* ---------------------------------------------------------------- initial state */
/* fiber_event_init done; max_fd == MAXFD and wait_info has EXACTLY max_fd entries; every
 * descriptor quiescent (no waiter, spinlock free at an arbitrary ticket) with
 *   INV-E1  added  <=>  descriptor is in the epoll interest set
 *   INV-E2  events is a subset of EPOLLIN|EPOLLOUT, zero when not added, and equals the armed mask
 *           unless a delivered one-shot event has disarmed the descriptor */
static fd_wait_info_t g_wait_store[MAXFD];
static void ev_env_init(void) {
  max_fd = MAXFD;
  wait_info = g_wait_store; /* exactly max_fd records (typed object: keeps the encoding small) */
  event_fd = nondet_int();
  timer_fd = nondet_int();
  __CPROVER_assume(event_fd >= 0 && timer_fd >= 0 && timer_fd != event_fd);
  fibershim_read = ev_stub_timer_read;
  for (int i = 0; i < MAXFD; ++i) {
    _Bool in = nondet_bool() && EV_FD_OPEN(i);
    uint32_t ev = in ? (nondet_uint() & (EPOLLIN | EPOLLOUT)) : 0;
    uint32_t t = nondet_uint();
    wait_info[i].added = in;
    wait_info[i].events = (int)ev;
    wait_info[i].waiters = 0;
#ifdef EV_STUB_SPINLOCK
    wait_info[i].spinlock.state.blob = 0;
#else
    wait_info[i].spinlock.state.counters.ticket = t;
    wait_info[i].spinlock.state.counters.users = t;
#endif
    g_ep_in[i] = in;
    g_ep_armed[i] = (in && ev && nondet_bool()) ? (ev | EPOLLONESHOT) : 0;
  }
  g_mgr.scheduler = &g_sched_dummy;
  g_mgr.spinlock_to_unlock = 0;
  for (int i = 0; i < NFIB; ++i) {
    g_fib[i].state = FIBER_STATE_RUNNING;
    g_fib[i].scratch = nondet_bool() ? (void*)0 : (void*)&g_fib[i]; /* stale value, overwritten on registration */
    g_fib_dir[i] = 0;
    g_sched_count[i] = 0;
  }
  g_mgr.current_fiber = &g_fib[0];
  g_env_mode = ENV_NONE; g_yield_depth = 0; g_yields = 0; g_second_dir = 0; g_rewait_dir = 0;
}

/* the application descriptor under test: in range and neither the epoll nor the timer descriptor */
static int ev_pick_fd(void) {
  int fd = nondet_int();
  __CPROVER_assume(fd >= 0 && fd < MAXFD && fd != event_fd && fd != timer_fd && EV_FD_OPEN(fd));
  return fd;
}

#endif
