/* E1 harnesses for C08, part 2 (obligation e): the REAL fd half of src/fiber_event_native.c
 * (fiber_wait_for_event, fiber_fd_closed, fiber_event_wake_waiters, the fd branch of
 * fiber_poll_events_internal) with the REAL src/fiber_spinlock.c, against the epoll / scheduler /
 * context-switch environment of c08_ev_env.h.
 *
 *   h_ev_wait_resume   up to three fibers register on one descriptor (one before, one while the
 *                      fiber under test is suspended; same or different directions); then a
 *                      readiness event (arbitrary mask, possibly duplicated / preceded by an event
 *                      for another descriptor or the timer) or a close wakes them
 *   h_ev_close_idle    fiber_fd_closed on a descriptor nobody waits on
 *   h_ev_poll_idle     events for descriptors nobody waits on / EINTR
 */
#include "fiber_event_native.c" /* real source */
#include "fiber_spinlock.c"     /* real source */
#include "c08_ev_env.h"

#ifndef C08_EV_WAITERS
#define C08_EV_WAITERS 3
#endif

static unsigned p_d0, p_d1, p_d2;
static void wait_resume_body(int fd) {
  unsigned d0 = p_d0, d1 = p_d1, d2 = p_d2;
  g_env_fd = fd;
  if (d1) { /* a fiber that registered earlier and is still suspended */
    g_mgr.current_fiber = &g_fib[1];
    g_fib_dir[1] = d1;
    g_env_mode = ENV_NONE;
    (void)fiber_wait_for_event(fd, d1);
    g_fib[1].state = FIBER_STATE_WAITING;
  }
  g_mgr.current_fiber = &g_fib[0];
  g_fib_dir[0] = d0;
  g_second_dir = d2;
  g_env_mode = ENV_WAKE;
  int r = fiber_wait_for_event(fd, d0);
  __CPROVER_assert(g_yields == 1u + (d1 ? 1 : 0) + (d2 ? 1 : 0), "fiber_wait_for_event suspends the calling fiber exactly once");
  if (g_wake_kind == WAKE_READY)
    __CPROVER_assert(r == FIBER_SUCCESS, "fiber_wait_for_event returns FIBER_SUCCESS when the fiber was resumed by a readiness event");
  else
    __CPROVER_assert(r == FIBER_ERROR, "fiber_wait_for_event returns FIBER_ERROR when the fiber was resumed because the descriptor was closed");
  __CPROVER_assert(g_mgr.event_wait_count == 1u + (d1 ? 1 : 0) + (d2 ? 1 : 0), "event_wait_count counts every suspension");
  WITNESS_END();
}

void h_ev_wait_resume(void) {
  ev_env_init();
  int fd = ev_pick_fd();
  p_d0 = nondet_uint(); p_d1 = nondet_uint(); p_d2 = nondet_uint();
  __CPROVER_assume(p_d0 >= 1 && p_d0 <= 3 && p_d1 <= 3 && p_d2 <= 3); /* FIBER_POLL_IN / OUT / both; 0 = fiber absent */
  if (C08_EV_WAITERS < 3) __CPROVER_assume(p_d1 == 0 || p_d2 == 0);
  if (C08_EV_WAITERS < 2) __CPROVER_assume(p_d1 == 0 && p_d2 == 0);
  g_wake_kind = nondet_bool() ? WAKE_READY : WAKE_CLOSE;
#ifdef C08_EV_FD
  /* one job per descriptor value: a constant index keeps the encoding of the union-typed spinlock small */
  __CPROVER_assume(fd == C08_EV_FD);
  wait_resume_body(C08_EV_FD);
#else
  wait_resume_body(fd);
#endif
}

void h_ev_close_idle(void) {
  ev_env_init();
  int fd = ev_pick_fd();
  _Bool was_in = g_ep_in[fd];
  fiber_fd_closed(fd);
  __CPROVER_assert(!g_ep_in[fd] && wait_info[fd].added == 0 && wait_info[fd].events == 0,
                   "closing an idle descriptor removes it from epoll and clears its registration");
  __CPROVER_assert(EV_LOCK_IS_FREE(&wait_info[fd].spinlock) && wait_info[fd].waiters == 0, "closing an idle descriptor leaves the fd spinlock released and the waiter list empty");
  for (int i = 0; i < NFIB; ++i) __CPROVER_assert(g_sched_count[i] == 0, "closing an idle descriptor schedules nobody");
  (void)was_in;
  WITNESS_END();
}

void h_ev_poll_idle(void) {
  ev_env_init();
  g_epw_n = nondet_int();
  __CPROVER_assume(g_epw_n >= 0 && g_epw_n <= 2);
  for (int i = 0; i < 2; ++i) {
    g_epw_fd[i] = nondet_int();
    /* the kernel reports the timer or a descriptor that was registered at some time: in range */
    __CPROVER_assume(g_epw_fd[i] == timer_fd || (g_epw_fd[i] >= 0 && g_epw_fd[i] < MAXFD));
    g_epw_mask[i] = nondet_uint();
  }
  g_epw_eintr = nondet_bool();
  int n = fiber_poll_events_internal(nondet_uint(), nondet_uint());
  __CPROVER_assert(n == (g_epw_eintr ? 0 : g_epw_n), "the poller reports the number of events it processed (0 when interrupted)");
  for (int i = 0; i < NFIB; ++i) __CPROVER_assert(g_sched_count[i] == 0, "events for descriptors nobody waits on schedule nobody");
  for (int i = 0; i < MAXFD; ++i)
    __CPROVER_assert(EV_LOCK_IS_FREE(&wait_info[i].spinlock) && wait_info[i].waiters == 0, "the poller leaves every fd spinlock released");
  WITNESS_END();
}
