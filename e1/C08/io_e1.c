/* E1 harnesses for C08, part 1: the REAL src/fiber_io.c (every shim, should_block, setup_socket)
 * against a ghost kernel (c08_io_env.h).  fiber_wait_for_event / fiber_fd_closed are contract
 * stubs here (the real ones are checked in ev_e1.c and, linked together, in ioev_e1.c).
 *
 *   h_blk_<shim>     (b) blocking-mode descriptor: never EAGAIN, exactly one conclusive real call,
 *                        result/errno of the last real call, waits on own fd + direction
 *   h_nowait_<shim>  (c) O_NONBLOCK by fcntl / FIONBIO / MSG_DONTWAIT / locked thread / unmanaged
 *                        descriptor: never suspends, one real call, its result
 *   h_abort_<shim>       descriptor closed while the fiber waits: error, no further real call
 *   h_anyfd_<shim>   (a) arbitrary descriptor (valid, closed, negative, >= max_fd): error return, no
 *                        suspension, no access outside fd_info[0..max_fd)
 *   h_create_*       (d) socket/socketpair/pipe/accept mark descriptors
 *   h_mode_restore   (d) back to blocking mode via fcntl(F_SETFL)/ioctl(FIONBIO,0)
 *   h_fcntl_other, h_getfl, h_ioctl_other, h_close, h_closedfd_mode
 */
#include "fiber_io.c" /* real source, found via -I$REPO/src */
#include "c08_io_env.h"

/* ------------------------------------------------------------ contract stubs of fiber_event */
enum { WAIT_OK, WAIT_MAY_ABORT };
static unsigned g_waits, g_wait_wrong, g_wait_out_of_range, g_calls_at_abort;
static int g_wait_policy;
static _Bool g_wait_aborted;

int fiber_wait_for_event(int fd, uint32_t events) {
  g_waits++;
  if (fd != g_tfd || events != g_dir) g_wait_wrong++;
  if (fd < 0 || fd >= MAXFD) g_wait_out_of_range++;
  errno = nondet_int(); /* other fibers ran on this kernel thread while this one was suspended */
  if (g_wait_policy == WAIT_MAY_ABORT && !g_wait_aborted && nondet_bool()) {
    g_wait_aborted = 1; /* another fiber closed the descriptor: fiber_fd_closed woke us with -1 */
    g_calls_at_abort = g_calls;
    return FIBER_ERROR;
  }
  return FIBER_SUCCESS; /* readiness event, possibly spurious: the ghost stream may still be empty */
}

void fiber_fd_closed(int fd) {
  g_fdclosed_calls++;
  g_fdclosed_fd = fd;
  if (g_close_calls) g_fdclosed_after_real_close++;
}

fiber_manager_t* fiber_manager_get(void) { return &g_io_manager_dummy; }
int fiber_sleep(uint32_t s, uint32_t us) { return FIBER_SUCCESS; }

static void wait_log_reset(void) {
  g_waits = g_wait_wrong = g_wait_out_of_range = g_calls_at_abort = 0;
  g_wait_aborted = 0;
  g_wait_policy = WAIT_OK;
}

/* ------------------------------------------------------------ the twelve I/O shims */
/*   X(name, direction, takes-MSG-flags, kind, record-arguments, call-expression)  */
#define SHIMS(X)                                                                                           \
  X(read, FIBER_POLL_IN, 0, K_IN, (g_p1 = g_buf, g_n1 = g_len), read(fd, g_buf, g_len))                     \
  X(readv, FIBER_POLL_IN, 0, K_IN, (g_p1 = g_iov, g_i1 = 2), readv(fd, g_iov, 2))                           \
  X(recv, FIBER_POLL_IN, 1, K_IN, (g_p1 = g_buf, g_n1 = g_len, g_i1 = fl), recv(fd, g_buf, g_len, fl))      \
  X(recvfrom, FIBER_POLL_IN, 1, K_IN,                                                                       \
    (g_p1 = g_buf, g_n1 = g_len, g_i1 = fl, g_p2 = &g_addr, g_p3 = &g_addrlen),                             \
    recvfrom(fd, g_buf, g_len, fl, &g_addr, &g_addrlen))                                                    \
  X(recvmsg, FIBER_POLL_IN, 1, K_IN, (g_p1 = &g_msg, g_i1 = fl), recvmsg(fd, &g_msg, fl))                   \
  X(write, FIBER_POLL_OUT, 0, K_OUT, (g_p1 = g_buf, g_n1 = g_len), write(fd, g_buf, g_len))                 \
  X(writev, FIBER_POLL_OUT, 0, K_OUT, (g_p1 = g_iov, g_i1 = 2), writev(fd, g_iov, 2))                       \
  X(send, FIBER_POLL_OUT, 1, K_OUT, (g_p1 = g_buf, g_n1 = g_len, g_i1 = fl), send(fd, g_buf, g_len, fl))    \
  X(sendto, FIBER_POLL_OUT, 1, K_OUT,                                                                       \
    (g_p1 = g_buf, g_n1 = g_len, g_i1 = fl, g_p2 = &g_addr, g_u1 = alen),                                   \
    sendto(fd, g_buf, g_len, fl, &g_addr, alen))                                                            \
  X(sendmsg, FIBER_POLL_OUT, 1, K_OUT, (g_p1 = &g_msg, g_i1 = fl), sendmsg(fd, &g_msg, fl))                 \
  X(accept, FIBER_POLL_IN, 0, K_ACCEPT, (g_p2 = &g_addr, g_p3 = &g_addrlen), accept(fd, &g_addr, &g_addrlen)) \
  X(connect, FIBER_POLL_OUT, 0, K_CONNECT, (g_p2 = &g_addr, g_u1 = alen), connect(fd, &g_addr, alen))

/* scenario parameters common to the per-shim harnesses */
#define SCENARIO_PARAMS()                                                        \
  g_len = nondet_size();                                                         \
  g_eagain_left = nondet_uint();                                                 \
  __CPROVER_assume(g_eagain_left <= C08_EAGAIN_ROUNDS);                          \
  socklen_t alen = nondet_uint();                                                \
  g_allow_fd0 = 0;                                                               \
  g_so_error = nondet_int();                                                     \
  __CPROVER_assume(g_so_error >= 0 && g_so_error <= 133 && g_so_error != EAGAIN && \
                   g_so_error != EWOULDBLOCK && g_so_error != EINPROGRESS);      \
  g_getsockopt_fails = nondet_bool();

/* expected outcome of a connect that went "in progress" and was then reported ready */
#define CONNECT_OUTCOME_OK(r, e) \
  (g_getsockopt_fails ? (r) == -1 : (g_so_error ? ((r) == -1 && (e) == g_so_error) : (r) == 0))

/* ------------------------------------------------------------ (b) blocking-mode descriptor */
#define H_BLK(NAME, DIR, HASFL, KIND, SETARGS, CALL)                                                        \
  void h_blk_##NAME(void) {                                                                                 \
    io_env_init();                                                                                          \
    int fd = make_managed_fd(); /* fresh socket: blocking mode as far as the application knows */           \
    int fl = nondet_int();                                                                                  \
    __CPROVER_assume(!(fl & MSG_DONTWAIT));                                                                 \
    SCENARIO_PARAMS();                                                                                      \
    g_tfd = fd; g_dir = DIR;                                                                                \
    SETARGS;                                                                                                \
    call_log_reset(); wait_log_reset();                                                                     \
    errno = nondet_int();                                                                                   \
    long r = CALL;                                                                                          \
    int e = errno;                                                                                          \
    _Bool leaked = (r == -1 && (e == EAGAIN || e == EWOULDBLOCK));                                          \
    __CPROVER_assert(!leaked, "blocking-mode " #NAME " never fails with EAGAIN/EWOULDBLOCK (it suspends the fiber instead)"); \
    __CPROVER_assert(!(r == -1 && e == EINPROGRESS && KIND == K_CONNECT), "blocking-mode connect never fails with EINPROGRESS"); \
    if (!leaked) {                                                                                          \
      __CPROVER_assert(g_conclusive + (g_connect_inprogress ? 1 : 0) == 1 && g_after == 0,                  \
                       "blocking-mode " #NAME " makes exactly one conclusive real call (no call after a success or hard error, no result without a real call)"); \
      if (KIND == K_CONNECT && g_connect_inprogress)                                                        \
        __CPROVER_assert(CONNECT_OUTCOME_OK(r, e), "blocking-mode connect reports the SO_ERROR outcome of the finished connection"); \
      else {                                                                                                \
        __CPROVER_assert(r == g_last_ret, "blocking-mode " #NAME " returns exactly the value of its last real call (no truncation)"); \
        __CPROVER_assert(r >= 0 || e == g_last_errno, "blocking-mode " #NAME " reports the errno of its last real call"); \
      }                                                                                                     \
      if (KIND == K_IN || KIND == K_OUT)                                                                    \
        __CPROVER_assert(g_consumed == (r > 0 ? (unsigned long)r : 0UL),                                    \
                         "blocking-mode " #NAME ": bytes moved on the stream equal the bytes reported (nothing lost or duplicated)"); \
    }                                                                                                       \
    __CPROVER_assert(g_wait_wrong == 0, #NAME " suspends only on its own descriptor and for its own direction"); \
    __CPROVER_assert(g_wait_out_of_range == 0, #NAME " hands fiber_wait_for_event only descriptors inside [0,max_fd)"); \
    WITNESS_END();                                                                                          \
  }
SHIMS(H_BLK)

/* ------------------------------------------------------------ (c) calls that must not suspend */
enum { NW_FCNTL, NW_FCNTL_OR, NW_FIONBIO, NW_DONTWAIT, NW_LOCKED, NW_UNMANAGED, NW_N };

#define H_NOWAIT(NAME, DIR, HASFL, KIND, SETARGS, CALL)                                                     \
  void h_nowait_##NAME(void) {                                                                              \
    io_env_init();                                                                                          \
    int mode = nondet_int();                                                                                \
    __CPROVER_assume(mode >= 0 && mode < NW_N && (HASFL || mode != NW_DONTWAIT));                           \
    int fl = nondet_int();                                                                                  \
    __CPROVER_assume(((fl & MSG_DONTWAIT) != 0) == (mode == NW_DONTWAIT));                                  \
    int fd;                                                                                                 \
    if (mode == NW_UNMANAGED) {                                                                             \
      fd = nondet_int();                                                                                    \
      __CPROVER_assume(fd >= 0 && fd < MAXFD && g_open[fd] && fd_info[fd].flags_ == 0);                     \
    } else                                                                                                  \
      fd = make_managed_fd();                                                                               \
    long v = nondet_long();                                                                                 \
    __CPROVER_assume(v >= 0 && v <= 0x7fffffff && (v & O_NONBLOCK) && v != O_NONBLOCK);                     \
    int on = nondet_int();                                                                                  \
    __CPROVER_assume(on != 0);                                                                              \
    int rc = 0;                                                                                             \
    if (mode == NW_FCNTL) rc = fcntl(fd, F_SETFL, (long)O_NONBLOCK);                                        \
    if (mode == NW_FCNTL_OR) rc = fcntl(fd, F_SETFL, v);                                                    \
    if (mode == NW_FIONBIO) rc = ioctl(fd, FIONBIO, &on);                                                   \
    if (mode == NW_LOCKED) fiber_io_lock_thread();                                                          \
    if (rc != 0) return; /* the application was told its request failed */                                  \
    SCENARIO_PARAMS();                                                                                      \
    g_tfd = fd; g_dir = DIR;                                                                                \
    SETARGS;                                                                                                \
    call_log_reset(); wait_log_reset();                                                                     \
    errno = nondet_int();                                                                                   \
    long r = CALL;                                                                                          \
    int e = errno;                                                                                          \
    if (mode == NW_FCNTL)                                                                                   \
      __CPROVER_assert(g_waits == 0, #NAME " on a descriptor set non-blocking with fcntl(F_SETFL, O_NONBLOCK) returns immediately, never suspends"); \
    if (mode == NW_FCNTL_OR)                                                                                \
      __CPROVER_assert(g_waits == 0, #NAME " on a descriptor set non-blocking with fcntl(F_SETFL, O_NONBLOCK|other status flags) returns immediately, never suspends"); \
    if (mode == NW_FIONBIO)                                                                                 \
      __CPROVER_assert(g_waits == 0, #NAME " on a descriptor set non-blocking with ioctl(FIONBIO, 1) returns immediately, never suspends"); \
    if (mode == NW_DONTWAIT)                                                                                \
      __CPROVER_assert(g_waits == 0, #NAME " called with MSG_DONTWAIT returns immediately, never suspends"); \
    if (mode == NW_LOCKED)                                                                                  \
      __CPROVER_assert(g_waits == 0, #NAME " on a thread locked with fiber_io_lock_thread() is passed straight through"); \
    if (mode == NW_UNMANAGED)                                                                               \
      __CPROVER_assert(g_waits == 0, #NAME " on a descriptor not created through the shims is passed straight through"); \
    if (g_waits == 0) {                                                                                     \
      __CPROVER_assert(g_calls == 1, "non-suspending " #NAME " makes exactly one real call");               \
      __CPROVER_assert(r == g_last_ret && (r >= 0 || e == g_last_errno),                                    \
                       "non-suspending " #NAME " returns the result and errno of the real call (EAGAIN included)"); \
    }                                                                                                       \
    WITNESS_END();                                                                                          \
  }
SHIMS(H_NOWAIT)

/* ------------------------------------------------------------ descriptor closed while the fiber waits */
#define H_ABORT(NAME, DIR, HASFL, KIND, SETARGS, CALL)                                                      \
  void h_abort_##NAME(void) {                                                                               \
    io_env_init();                                                                                          \
    int fd = make_managed_fd();                                                                             \
    int fl = nondet_int();                                                                                  \
    __CPROVER_assume(!(fl & MSG_DONTWAIT));                                                                 \
    SCENARIO_PARAMS();                                                                                      \
    g_tfd = fd; g_dir = DIR;                                                                                \
    SETARGS;                                                                                                \
    call_log_reset(); wait_log_reset();                                                                     \
    g_wait_policy = WAIT_MAY_ABORT;                                                                         \
    errno = nondet_int();                                                                                   \
    long r = CALL;                                                                                          \
    int e = errno;                                                                                          \
    if (g_wait_aborted) {                                                                                   \
      __CPROVER_assert(r == -1, #NAME " whose descriptor is closed while it waits is resumed with an error return"); \
      __CPROVER_assert(g_calls == g_calls_at_abort, #NAME " makes no real call on a descriptor number that was closed while it waited"); \
      __CPROVER_assert(e != EAGAIN && e != EWOULDBLOCK, #NAME " whose descriptor is closed while it waits does not fail with a stale EAGAIN/EWOULDBLOCK"); \
      WITNESS_END();                                                                                        \
    }                                                                                                       \
  }
SHIMS(H_ABORT)

/* ------------------------------------------------------------ (a) arbitrary descriptor argument */
/* any int (valid, closed, negative, >= max_fd), any bookkeeping state, locked or unlocked thread.
 * CBMC's bounds/pointer checks watch the real fd_info (exactly max_fd entries). */
#define H_ANYFD(NAME, DIR, HASFL, KIND, SETARGS, CALL)                                                      \
  void h_anyfd_##NAME(void) {                                                                               \
    io_env_init();                                                                                          \
    if (nondet_bool()) fiber_io_lock_thread();                                                              \
    int fd = nondet_int();                                                                                  \
    int fl = nondet_int();                                                                                  \
    SCENARIO_PARAMS();                                                                                      \
    g_tfd = fd; g_dir = DIR;                                                                                \
    SETARGS;                                                                                                \
    call_log_reset(); wait_log_reset();                                                                     \
    g_wait_policy = WAIT_MAY_ABORT;                                                                         \
    _Bool invalid = !fd_valid(fd);                                                                          \
    errno = nondet_int();                                                                                   \
    long r = CALL;                                                                                          \
    int e = errno;                                                                                          \
    if (invalid) {                                                                                          \
      __CPROVER_assert(r == -1 && e == EBADF, #NAME " on an invalid descriptor (closed, negative or >= max_fd) returns the plain call's error (-1/EBADF)"); \
      __CPROVER_assert(g_waits == 0, #NAME " on an invalid descriptor never suspends the fiber");           \
      WITNESS_END();                                                                                        \
    }                                                                                                       \
    __CPROVER_assert(g_wait_out_of_range == 0, #NAME " hands fiber_wait_for_event only descriptors inside [0,max_fd), whatever descriptor it is given"); \
  }
SHIMS(H_ANYFD)

/* ------------------------------------------------------------ (d) descriptor creation */
static unsigned flags_of(int fd) { return fd_info[fd].flags_; }

void h_create_socket(void) {
  io_env_init();
  g_create_may_fail = g_fcntl_may_fail = g_sockopt_may_fail = 1;
  call_log_reset();
  g_created[0] = -1;
  int s = socket(nondet_int(), nondet_int(), nondet_int());
  int c = g_created[0];
  if (c < 0)
    __CPROVER_assert(s == -1, "socket() returns the real call's failure");
  else if (s >= 0) {
    __CPROVER_assert(s == c, "socket() returns the descriptor the kernel handed out");
    __CPROVER_assert(flags_of(s) == (FL_B | FL_W), "socket() marks the new descriptor blocking + waitable");
    __CPROVER_assert(g_rnb[s], "socket() puts the real descriptor in O_NONBLOCK mode");
  } else {
    __CPROVER_assert(s == -1 && !g_open[c] && flags_of(c) == 0 && g_fdclosed_calls == 1 && g_fdclosed_fd == c,
                     "socket() whose set-up fails closes the descriptor, forgets it and returns -1");
  }
  WITNESS_END();
}

static void two_created(int ret, const int fds[2], _Bool is_pipe) {
  int a = g_created[0], b = g_created[1];
  if (a < 0) {
    if (is_pipe) __CPROVER_assert(ret == -1, "pipe() returns the real call's failure");
    else __CPROVER_assert(ret == -1, "socketpair() returns the real call's failure");
  } else if (ret == 0) {
    _Bool ok = fds[0] == a && fds[1] == b && flags_of(a) == (FL_B | FL_W) && flags_of(b) == (FL_B | FL_W) && g_rnb[a] && g_rnb[b];
    if (is_pipe) __CPROVER_assert(ok, "pipe() marks both descriptors blocking + waitable and really O_NONBLOCK");
    else __CPROVER_assert(ok, "socketpair() marks both descriptors blocking + waitable and really O_NONBLOCK");
  } else {
    _Bool ok = ret < 0 && !g_open[a] && !g_open[b] && flags_of(a) == 0 && flags_of(b) == 0;
    if (is_pipe) __CPROVER_assert(ok, "pipe() whose set-up fails closes and forgets both descriptors and fails");
    else __CPROVER_assert(ok, "socketpair() whose set-up fails closes and forgets both descriptors and fails");
  }
}

void h_create_socketpair(void) {
  io_env_init();
  g_create_may_fail = g_fcntl_may_fail = g_sockopt_may_fail = 1;
  call_log_reset();
  g_created[0] = g_created[1] = -1;
  int sv[2] = {-1, -1};
  int r = socketpair(nondet_int(), nondet_int(), nondet_int(), sv);
  two_created(r, sv, 0);
  WITNESS_END();
}

void h_create_pipe(void) {
  io_env_init();
  g_create_may_fail = g_fcntl_may_fail = 1;
  call_log_reset();
  g_created[0] = g_created[1] = -1;
  int pfd[2] = {-1, -1};
  int r = pipe(pfd);
  two_created(r, pfd, 1);
  WITNESS_END();
}

/* accept: the connection's descriptor is marked like a fresh socket.  The at-most-one EAGAIN bound
 * keeps this harness independent of the retry behaviour checked by h_blk_accept. */
static void accept_creates(_Bool fd0) {
  io_env_init();
  if (fd0) __CPROVER_assume(!g_open[0]);
  int fd = make_managed_fd();
  if (fd0) __CPROVER_assume(fd != 0);
  g_fcntl_may_fail = g_sockopt_may_fail = 1;
  g_eagain_left = nondet_uint();
  __CPROVER_assume(g_eagain_left <= 1);
  g_allow_fd0 = fd0;
  g_tfd = fd; g_dir = FIBER_POLL_IN; g_p2 = &g_addr; g_p3 = &g_addrlen;
  call_log_reset(); wait_log_reset();
  int r = accept(fd, &g_addr, &g_addrlen);
  int n = g_new_fd;
  if (n >= 0 && (n == 0) == fd0) {
    if (r >= 0) {
      _Bool ok = r == n && flags_of(n) == (FL_B | FL_W) && g_rnb[n];
      if (fd0) __CPROVER_assert(ok, "accept() returning descriptor 0 marks it blocking + waitable and really O_NONBLOCK");
      else __CPROVER_assert(ok, "accept() marks the accepted descriptor blocking + waitable and really O_NONBLOCK");
    } else {
      __CPROVER_assert(r == -1 && !g_open[n] && flags_of(n) == 0, "accept() whose set-up fails closes and forgets the accepted descriptor and returns -1");
    }
    WITNESS_END();
  }
}
void h_create_accept(void) { accept_creates(0); }
void h_create_accept_fd0(void) { accept_creates(1); }

/* ------------------------------------------------------------ (d) back to blocking mode */
void h_mode_restore(void) {
  io_env_init();
  int fd = make_managed_fd();
  /* an arbitrary earlier request of the application (or none) */
  int prev = nondet_int();
  long v1 = nondet_long();
  int x1 = nondet_int();
  __CPROVER_assume(prev >= 0 && prev <= 2 && v1 >= 0 && v1 <= 0x7fffffff);
  if (prev == 1) fcntl(fd, F_SETFL, v1);
  if (prev == 2) ioctl(fd, FIONBIO, &x1);
  /* the request under test: blocking mode */
  _Bool by_fcntl = nondet_bool();
  long v = nondet_long();
  __CPROVER_assume(v >= 0 && v <= 0x7fffffff && !(v & O_NONBLOCK));
  int zero = 0;
  int rc = by_fcntl ? fcntl(fd, F_SETFL, v) : ioctl(fd, FIONBIO, &zero);
  if (rc != 0) return;
  _Bool in = nondet_bool();
  int fl = 0;
  SCENARIO_PARAMS();
  (void)alen;
  g_tfd = fd; g_dir = in ? FIBER_POLL_IN : FIBER_POLL_OUT;
  g_p1 = g_buf; g_n1 = g_len; g_i1 = fl;
  call_log_reset(); wait_log_reset();
  errno = nondet_int();
  long r = in ? read(fd, g_buf, g_len) : send(fd, g_buf, g_len, fl);
  int e = errno;
  _Bool leaked = (r == -1 && (e == EAGAIN || e == EWOULDBLOCK));
  if (by_fcntl)
    __CPROVER_assert(!leaked, "after fcntl(F_SETFL, flags without O_NONBLOCK) the descriptor is in blocking mode again: read/send never fails with EAGAIN/EWOULDBLOCK");
  else
    __CPROVER_assert(!leaked, "after ioctl(FIONBIO, 0) the descriptor is in blocking mode again: read/send never fails with EAGAIN/EWOULDBLOCK");
  __CPROVER_assert(r == g_last_ret, "restored blocking mode: read/send returns the value of its last real call");
  WITNESS_END();
}

/* ------------------------------------------------------------ fcntl / ioctl pass-through */
void h_fcntl_other(void) {
  io_env_init();
  int fd = nondet_int();
  int cmd = nondet_int();
  long val = nondet_long();
  _Bool locked = nondet_bool();
  __CPROVER_assume(locked || (cmd != F_SETFL && cmd != F_GETFL)); /* those two: h_mode_*, h_fcntl_setfl_forward, h_getfl */
  if (locked) fiber_io_lock_thread();
  unsigned char before[MAXFD];
  for (int i = 0; i < MAXFD; ++i) before[i] = fd_info[i].flags_;
  g_fcntl_may_fail = 1;
  call_log_reset();
  int r = fcntl(fd, cmd, val);
  __CPROVER_assert(g_fcntl_calls == 1 && g_fcntl_fd == fd && g_fcntl_cmd == cmd && g_fcntl_val == val && r == g_fcntl_ret,
                   "fcntl() commands other than F_SETFL/F_GETFL (and every command on a locked thread) are forwarded unchanged and their result returned");
  for (int i = 0; i < MAXFD; ++i)
    __CPROVER_assert(before[i] == fd_info[i].flags_, "fcntl() commands other than F_SETFL/F_GETFL leave the blocking-mode bookkeeping alone");
  WITNESS_END();
}

void h_fcntl_setfl_forward(void) {
  io_env_init();
  int fd = make_managed_fd();
  long v = nondet_long();
  __CPROVER_assume(v >= 0 && v <= 0x7fffffff && !(v & O_NONBLOCK));
  call_log_reset();
  int r = fcntl(fd, F_SETFL, v);
  __CPROVER_assert(g_fcntl_calls == 1 && g_fcntl_fd == fd && g_fcntl_cmd == F_SETFL && r == g_fcntl_ret &&
                       (g_fcntl_val & ~(long)O_NONBLOCK) == v,
                   "fcntl(F_SETFL, flags) forwards the other status flags to the kernel and returns its result");
  __CPROVER_assert(g_rnb[fd], "fcntl(F_SETFL, flags without O_NONBLOCK) keeps the real descriptor O_NONBLOCK");
  WITNESS_END();
}

/* what the application reads back with F_GETFL */
void h_getfl(void) {
  io_env_init();
  int fd = make_managed_fd();
  _Bool app_nonblock = nondet_bool();
  if (app_nonblock && fcntl(fd, F_SETFL, (long)O_NONBLOCK) != 0) return;
  call_log_reset();
  int r = fcntl(fd, F_GETFL, 0L);
  if (r < 0) return;
  if (app_nonblock)
    __CPROVER_assert(r & O_NONBLOCK, "fcntl(F_GETFL) reports O_NONBLOCK after the application set it");
  else
    __CPROVER_assert(!(r & O_NONBLOCK), "fcntl(F_GETFL) on a descriptor the application left in blocking mode does not report O_NONBLOCK");
  WITNESS_END();
}

void h_ioctl_other(void) {
  io_env_init();
  int fd = nondet_int();
  unsigned long req = nondet_long();
  _Bool locked = nondet_bool();
  __CPROVER_assume(locked || req != FIONBIO);
  if (locked) fiber_io_lock_thread();
  int x = nondet_int();
  void* arg = nondet_bool() ? (void*)&x : (void*)0;
  unsigned char before[MAXFD];
  for (int i = 0; i < MAXFD; ++i) before[i] = fd_info[i].flags_;
  call_log_reset();
  int r = ioctl(fd, req, arg);
  __CPROVER_assert(g_ioctl_calls == 1 && g_ioctl_fd == fd && g_ioctl_req == req && g_ioctl_arg == arg && r == g_ioctl_ret,
                   "ioctl() requests other than FIONBIO (and every request on a locked thread) are forwarded unchanged and their result returned");
  for (int i = 0; i < MAXFD; ++i)
    __CPROVER_assert(before[i] == fd_info[i].flags_, "ioctl() requests other than FIONBIO leave the blocking-mode bookkeeping alone");
  WITNESS_END();
}

void h_ioctl_fionbio_null(void) {
  io_env_init();
  int fd = make_managed_fd();
  int r = ioctl(fd, FIONBIO, (void*)0);
  __CPROVER_assert(r == -1, "ioctl(FIONBIO, NULL) fails instead of dereferencing the null pointer");
  WITNESS_END();
}

/* ------------------------------------------------------------ close */
void h_close(void) {
  io_env_init();
  int fd = nondet_int();
  __CPROVER_assume(fd >= 0 && fd < MAXFD && g_open[fd]); /* valid descriptor, any mode, managed or not */
  _Bool locked = nondet_bool();
  if (locked) fiber_io_lock_thread();
  call_log_reset();
  int r = close(fd);
  __CPROVER_assert(g_close_calls == 1 && g_close_fd == fd && r == g_close_ret, "close() makes the real close once and returns its result");
  __CPROVER_assert(g_fdclosed_calls == 1 && g_fdclosed_fd == fd && g_fdclosed_after_real_close == 0,
                   "close() wakes the fibers blocked on the descriptor (fiber_fd_closed) exactly once and before the number can be reused");
  /* the number is reused by something the runtime does not manage (e.g. open()): plain pass-through */
  fiber_io_unlock_thread();
  g_open[fd] = 1; g_rnb[fd] = 0; g_managed[fd] = 0;
  int fl = 0;
  SCENARIO_PARAMS();
  (void)alen;
  g_tfd = fd; g_dir = FIBER_POLL_IN; g_p1 = g_buf; g_n1 = g_len;
  call_log_reset(); wait_log_reset();
  long r2 = read(fd, g_buf, g_len);
  __CPROVER_assert(g_waits == 0 && g_calls == 1 && r2 == g_last_ret, "close() forgets the descriptor: a later read() on the reused number is passed straight through");
  WITNESS_END();
}

/* ------------------------------------------------------------ mode requests on a CLOSED descriptor */
void h_closedfd_mode(void) {
  io_env_init();
  int fd = nondet_int();
  __CPROVER_assume(fd >= 0 && fd < MAXFD && !g_open[fd]); /* in range, but not open */
  _Bool by_fcntl = nondet_bool();
  long v = nondet_long();
  __CPROVER_assume(v >= 0 && v <= 0x7fffffff);
  int x = nondet_int();
  int r = by_fcntl ? fcntl(fd, F_SETFL, v) : ioctl(fd, FIONBIO, &x);
  if (by_fcntl)
    __CPROVER_assert(r == -1, "fcntl(F_SETFL) on a closed descriptor fails like the plain call (EBADF)");
  else
    __CPROVER_assert(r == -1, "ioctl(FIONBIO) on a closed descriptor fails like the plain call (EBADF)");
  WITNESS_END();
}
