/* E1 harness for C03 (mutex): ONE real fiber_mutex_lock / _trylock / _unlock_internal / _unlock (src/fiber_mutex.c, unmodified,
 * #included below) as a rely/guarantee step over the counter word.
 *
 * Representation (include/fiber_mutex.h): counter == 1 - n, n = number of fibers that hold or have announced they want the
 * mutex: 1 free, 0 held without waiters, -w held with w announced waiters.
 * Environment (every stub is part of the claim): before every atomic operation of fiber_mutex.c on mutex->counter (macro
 * redirect of the <stdatomic.h> generics; the operation itself is performed unchanged) other fibers act on the counter:
 *   - any number of further lockers announce themselves (counter -= d, d >= 0);
 *   - while the operation under test does NOT hold the mutex, the holder may unlock, hand over, others may lock ...: the
 *     counter becomes any value 1 - n' (n' >= 0); while it DOES hold it, only announcements happen (nobody else can unlock);
 *   - a weak compare-exchange may fail spuriously;
 *   - fiber_manager_wait_in_mpsc_queue / fiber_manager_wake_from_mpsc_queue record their arguments (their own behaviour over
 *     the real queue is what the E2 scenarios of this property check).
 * Bound: n < 2^20 contenders, and the counter must REPRESENT 1 - n for all of them (h_representation).
 * Guarantee asserted:
 *   lock:     decrements exactly once; acquires without sleeping iff the counter was 1 (free), otherwise sleeps exactly once on the
 *             mutex's own queue (it is then handed the mutex by an unlock);
 *   trylock:  never sleeps; succeeds only by moving the counter 1 -> 0; when it fails the counter is left exactly as it was
 *             (a failing trylock must not disturb the waiter count);
 *   unlock:   increments exactly once; wakes exactly one waiter from the mutex's own queue, and waits for it (count >= 1), iff the
 *             counter shows announced waiters (new value != 1); wakes nobody when the mutex becomes free. */
#include <stdint.h>
#include "fiber_mutex.h"
#include "fiber_manager.h"

int nondet_int(void);
_Bool nondet_bool(void);
#define NMAX (1 << 20)

static fiber_mutex_t M;
static fiber_manager_t the_manager;
static int env_on, holding;     /* holding: the operation under test owns the mutex during the call (unlock) */
static long ghost_n;            /* contenders (holder + announced waiters) according to the environment's book-keeping */
static int n_ops, n_changes;
static long own_delta;
static int pre_value, last_old;
static int n_wait, n_wake, wake_count_arg, bad_queue, n_yield;

static int is_counter(volatile void* p) { return p == (volatile void*)&M.counter; }
static void verif_env(volatile void* p) {
  if (!is_counter(p)) return;
  n_ops++;
  __CPROVER_assume(n_ops <= 3);
  if (env_on) {
    if (!holding && nondet_bool()) {            /* arbitrary activity of the others */
      int n = nondet_int();
      __CPROVER_assume(n >= 0 && n < NMAX);
      ghost_n = n;
    } else {                                    /* further announcements only */
      int d = nondet_int();
      __CPROVER_assume(d >= 0 && d < NMAX && ghost_n + d < NMAX);
      ghost_n += d;
    }
    M.counter = (int)(1 - ghost_n);
  }
  pre_value = M.counter;
}
static void verif_after(volatile void* p) {
  if (!is_counter(p)) return;
  int now = M.counter;
  if (now != pre_value) { n_changes++; own_delta += (long)now - (long)pre_value; last_old = pre_value; ghost_n -= (long)now - (long)pre_value; }
}
static int verif_spurious(volatile void* p) { return is_counter(p) && env_on && nondet_bool(); }

#undef atomic_fetch_add
#undef atomic_fetch_sub
#undef atomic_fetch_add_explicit
#undef atomic_fetch_sub_explicit
#undef atomic_exchange
#undef atomic_exchange_explicit
#undef atomic_store
#undef atomic_store_explicit
#undef atomic_load
#undef atomic_load_explicit
#undef atomic_compare_exchange_weak_explicit
#undef atomic_compare_exchange_strong_explicit
#undef atomic_compare_exchange_weak
#undef atomic_compare_exchange_strong
#define V_RMW(o, expr) ({ verif_env(o); __typeof__(expr) _r = (expr); verif_after(o); _r; })
#define atomic_fetch_add(o, v) V_RMW(o, __atomic_fetch_add((o), (v), __ATOMIC_SEQ_CST))
#define atomic_fetch_sub(o, v) V_RMW(o, __atomic_fetch_sub((o), (v), __ATOMIC_SEQ_CST))
#define atomic_fetch_add_explicit(o, v, m) V_RMW(o, __atomic_fetch_add((o), (v), __ATOMIC_SEQ_CST))
#define atomic_fetch_sub_explicit(o, v, m) V_RMW(o, __atomic_fetch_sub((o), (v), __ATOMIC_SEQ_CST))
#define atomic_exchange(o, v) V_RMW(o, __atomic_exchange_n((o), (v), __ATOMIC_SEQ_CST))
#define atomic_exchange_explicit(o, v, m) V_RMW(o, __atomic_exchange_n((o), (v), __ATOMIC_SEQ_CST))
#define atomic_store(o, v) ({ verif_env(o); __atomic_store_n((o), (v), __ATOMIC_SEQ_CST); verif_after(o); })
#define atomic_store_explicit(o, v, m) ({ verif_env(o); __atomic_store_n((o), (v), __ATOMIC_SEQ_CST); verif_after(o); })
#define atomic_load(o) V_RMW(o, __atomic_load_n((o), __ATOMIC_SEQ_CST))
#define atomic_load_explicit(o, m) V_RMW(o, __atomic_load_n((o), __ATOMIC_SEQ_CST))
#define V_CAS(o, e, d, weak) ({ verif_env(o); _Bool _ok; \
    if ((weak) && verif_spurious(o)) { *(e) = __atomic_load_n((o), __ATOMIC_SEQ_CST); _ok = 0; } \
    else _ok = __atomic_compare_exchange_n((o), (e), (d), 0, __ATOMIC_SEQ_CST, __ATOMIC_SEQ_CST); \
    verif_after(o); _ok; })
#define atomic_compare_exchange_weak_explicit(o, e, d, s, f) V_CAS(o, e, d, 1)
#define atomic_compare_exchange_strong_explicit(o, e, d, s, f) V_CAS(o, e, d, 0)
#define atomic_compare_exchange_weak(o, e, d) V_CAS(o, e, d, 1)
#define atomic_compare_exchange_strong(o, e, d) V_CAS(o, e, d, 0)

#include "fiber_mutex.c" /* real source */

fiber_manager_t* fiber_manager_get(void) { return &the_manager; }
int fiber_yield(void) { n_yield++; return 1; }
void fiber_manager_wait_in_mpsc_queue(fiber_manager_t* m, mpsc_fifo_t* f) { n_wait++; if (f != &M.waiters) bad_queue = 1; }
int fiber_manager_wake_from_mpsc_queue(fiber_manager_t* m, mpsc_fifo_t* f, int count) {
  n_wake++; wake_count_arg = count; if (f != &M.waiters) bad_queue = 1; return count > 0 ? count : 1;
}

#ifdef WITNESS
#define WITNESS_END() __CPROVER_assert(0, "witness: end of harness reachable")
#else
#define WITNESS_END()
#endif

static void setup(int hold) {
  __CPROVER_assert(fiber_mutex_init(&M) == FIBER_SUCCESS && M.counter == 1, "C03 mutex: a fresh mutex is free (counter 1)");
  int n = nondet_int();
  __CPROVER_assume(n >= (hold ? 1 : 0) && n < NMAX);
  ghost_n = n;
  M.counter = (int)(1 - ghost_n);
  holding = hold;
  n_ops = 0; n_changes = 0; own_delta = 0;
  env_on = 1;
}

void h_representation(void) {
  __CPROVER_assert(fiber_mutex_init(&M) == FIBER_SUCCESS, "init");
  int n = nondet_int();
  __CPROVER_assume(n >= 0 && n < NMAX);
  M.counter = 1 - n;
  long back = (long)M.counter;
  __CPROVER_assert(back == 1 - (long)n, "C03 mutex: the counter represents 1 - (holder + announced waiters) for every number of contenders below 2^20 (a narrower counter makes a heavily contended mutex look free)");
  WITNESS_END();
}

void h_lock(void) {
  setup(0);
  int r = fiber_mutex_lock(&M);
  env_on = 0;
  __CPROVER_assert(r == FIBER_SUCCESS, "lock reports success");
  __CPROVER_assert(n_changes == 1 && own_delta == -1 && n_ops == 1, "C03 mutex: lock announces itself by decrementing the counter exactly once");
  if (last_old == 1) __CPROVER_assert(n_wait == 0, "C03 mutex: a locker that found the mutex free acquires it without sleeping");
  else __CPROVER_assert(n_wait == 1 && !bad_queue, "C03 mutual exclusion: a locker that found the mutex held (counter != 1) does not enter; it sleeps once on the mutex's queue until an unlock hands the mutex over");
  __CPROVER_assert(n_wake == 0, "lock wakes nobody");
  WITNESS_END();
}

void h_trylock(void) {
  setup(0);
  int r = fiber_mutex_trylock(&M);
  env_on = 0;
  __CPROVER_assert(n_wait == 0 && n_wake == 0, "C03 mutex: trylock never sleeps and wakes nobody");
  if (r == FIBER_SUCCESS) __CPROVER_assert(n_changes == 1 && last_old == 1 && own_delta == -1, "C03 mutual exclusion: trylock succeeds only by taking a free mutex (counter 1 -> 0)");
  else {
    __CPROVER_assert(r == FIBER_ERROR, "trylock returns SUCCESS or ERROR");
    __CPROVER_assert(n_changes == 0, "C03 hand-off: a failing trylock leaves the counter exactly as it was (it must not erase or disturb the announced waiters, not even transiently)");
  }
  WITNESS_END();
}

static void check_unlock(int woke) {
  __CPROVER_assert(n_changes == 1 && own_delta == 1 && n_ops == 1, "C03 mutex: unlock increments the counter exactly once");
  if (last_old != 0) {
    __CPROVER_assert(n_wake == 1 && !bad_queue && wake_count_arg >= 1, "C03 hand-off: unlocking a contended mutex (announced waiters) passes it to exactly one waiter, waiting for a waiter that is still enqueuing");
    __CPROVER_assert(woke, "unlock reports the hand-over");
  } else {
    __CPROVER_assert(n_wake == 0 && !woke, "C03 hand-off: unlocking an uncontended mutex wakes nobody");
  }
  __CPROVER_assert(n_wait == 0, "unlock never sleeps on the mutex");
}
void h_unlock_internal(void) {
  setup(1);
  int r = fiber_mutex_unlock_internal(&M);
  env_on = 0;
  check_unlock(r);
  WITNESS_END();
}
void h_unlock(void) {
  setup(1);
  int r = fiber_mutex_unlock(&M);
  env_on = 0;
  __CPROVER_assert(r == FIBER_SUCCESS, "unlock reports success");
  check_unlock(n_wake);
  WITNESS_END();
}
