/* E1 harness for C12 (barrier): one complete round k of the real fiber_barrier_wait (src/fiber_barrier.c, unmodified, #included
 * below) as seen by its SERIAL fiber, with the wait queue(s) abstracted to FIFOs of round tags.  Every arrival - also the
 * re-entering ones performed by the environment - is a call of the real fiber_barrier_wait, so the harness does not depend on
 * how the barrier lays out its queue(s).
 *
 * Program: the arrival counter starts at a round boundary k*count (k < 2^32).  count-1 participants arrive (real calls); each
 * reaches fiber_manager_wait_in_mpsc_queue(fifo) and either is enqueued at once (tag k) or stays in the window the property
 * names - "arrived but not yet enqueued" - and enqueues later.  Then the count-th participant arrives (real call): it must be
 * told SERIAL and release the others.
 * Stubs (every stub is part of the claim):
 *   - fiber_manager_wake_from_mpsc_queue(manager, fifo, n): its documented behaviour "wake at least n fibers": pop the head of
 *     that fifo, make the fiber runnable, spin while the fifo is empty, until n fibers were woken (the real loop,
 *     src/fiber_manager.c, has this shape; its own correctness is C03/C15's subject).  Before every pop attempt the
 *     environment runs: a participant still in the window may enqueue itself, and a fiber this call has ALREADY released may
 *     run on another kernel thread, return from round k and call the real fiber_barrier_wait again (round k+1, tag k+1).
 *   - fiber_manager_wait_in_mpsc_queue(manager, fifo): enqueues the caller's tag on that fifo (now or later, see above).
 * Asserted: every fiber released by the serial fiber of round k is a waiter of round k (nobody returns from its (k+1)-th wait
 * before count fibers entered their (k+1)-th wait, nobody of round k is left behind in its place); exactly count-1 fibers are
 * released; exactly the count-th arrival is told SERIAL. */
#include <stdint.h>
#include "fiber_barrier.h"
#include "fiber_manager.h"

unsigned nondet_uint(void);
_Bool nondet_bool(void);
uint64_t nondet_u64(void);

#ifndef MAXC
#define MAXC 4
#endif
#define QCAP (2 * MAXC)
static fiber_barrier_t B;
static fiber_manager_t the_manager;
static unsigned count;
static mpsc_fifo_t* qf[2];               /* the (at most two) fifos the barrier uses, in order of first use */
static int q_tag[2][QCAP], q_len[2];
static mpsc_fifo_t* pend_fifo[MAXC];     /* round-k participants that arrived but have not enqueued yet: the fifo each will use */
static unsigned n_pend;
static int cur_tag, defer_enqueue, in_serial_wake, nested;
static unsigned released, reentered, released_next_round, n_serial;
static int n_wake_calls, wake_arg, spins, bad_nested_serial;

fiber_manager_t* fiber_manager_get(void) { return &the_manager; }

static int qidx(mpsc_fifo_t* f) {
  if (qf[0] == f || qf[0] == 0) { qf[0] = f; return 0; }
  if (qf[1] == f || qf[1] == 0) { qf[1] = f; return 1; }
  __CPROVER_assert(0, "harness: the barrier uses more than two fifos");
  return 0;
}
static void q_push(int qi, int tag) { __CPROVER_assume(q_len[qi] < QCAP); q_tag[qi][q_len[qi]++] = tag; }
static int q_pop(int qi) { int t = q_tag[qi][0]; for (int i = 0; i + 1 < QCAP; i++) q_tag[qi][i] = q_tag[qi][i + 1]; q_len[qi]--; return t; }

void fiber_manager_wait_in_mpsc_queue(fiber_manager_t* m, mpsc_fifo_t* f) {
  if (defer_enqueue) { __CPROVER_assume(n_pend < MAXC); pend_fifo[n_pend++] = f; }
  else q_push(qidx(f), cur_tag);
}

static void env(void) {
  if (n_pend > 0 && nondet_bool()) { n_pend--; q_push(qidx(pend_fifo[n_pend]), 0); }
  if (reentered < released && nondet_bool()) {
    /* a released fiber runs elsewhere, returns from round k and enters round k+1 at once: a real call */
    reentered++;
    cur_tag = 1; defer_enqueue = 0; nested = 1;
    int r = fiber_barrier_wait(&B);
    nested = 0;
    if (r == FIBER_BARRIER_SERIAL_FIBER) bad_nested_serial = 1;
  }
}

int fiber_manager_wake_from_mpsc_queue(fiber_manager_t* m, mpsc_fifo_t* fifo, int n) {
  if (nested) { bad_nested_serial = 1; return n; }
  n_wake_calls++;
  wake_arg = n;
  const int qi = qidx(fifo);
  int woken = 0;
  while (woken < n) {
    env();
    if (q_len[qi] > 0) {
      if (q_pop(qi) != 0) released_next_round++;
      released++;
      woken++;
    } else {
      spins++;                       /* fifo empty: the real loop spins until a waiter shows up */
      __CPROVER_assume(spins <= 2);
    }
  }
  return woken;
}

#include "fiber_barrier.c" /* real source */

void h_round(void) {
  count = nondet_uint();
  __CPROVER_assume(count >= 1 && count <= MAXC);
  __CPROVER_assert(fiber_barrier_init(&B, count) == FIBER_SUCCESS && B.count == count && B.counter == 0, "C12 barrier: init");
  uint64_t k = nondet_u64();
  __CPROVER_assume(k < ((uint64_t)1 << 32));                 /* round number; 2^64 arrivals are outside the claim */
  B.counter = k * count;
  for (unsigned i = 0; i < MAXC; i++) {                      /* the count-1 earlier arrivals of round k */
    if (i + 1 >= count) break;
    cur_tag = 0;
    defer_enqueue = nondet_bool();
    int r = fiber_barrier_wait(&B);
    __CPROVER_assert(r == 0, "C12 barrier: an arrival before the count-th is not told SERIAL and waits");
  }
  defer_enqueue = 0;
  int r = fiber_barrier_wait(&B);                            /* the count-th arrival */
  __CPROVER_assert(r == FIBER_BARRIER_SERIAL_FIBER, "C12 barrier: the count-th arrival of a round is told it is the serial fiber");
  if (count > 1) {
    __CPROVER_assert(n_wake_calls == 1 && wake_arg == (int)(count - 1), "C12 barrier: the serial fiber releases count-1 waiters");
    __CPROVER_assert(released == count - 1, "C12 barrier: exactly count-1 fibers are released");
  }
  __CPROVER_assert(!bad_nested_serial, "C12 barrier: a fiber entering round k+1 while round k is being released must wait");
  __CPROVER_assert(released_next_round == 0, "C12 barrier: the serial fiber of round k released a fiber waiting in round k+1 (it returns from its (k+1)-th wait before count fibers entered round k+1) and left a round-k participant that had arrived but not yet enqueued behind");
#ifdef WITNESS
  __CPROVER_assert(!(count == MAXC && spins > 0 && (MAXC < 3 || reentered >= 1)), "witness: end of harness reachable with the largest count, a spin and (count >= 3) a re-entered fiber");
#endif
}
