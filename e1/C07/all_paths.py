#!/usr/bin/env python3
"""Per-branch vacuity guard for the C07 E1 harnesses (a reachability-WITNESS job).

The framework's witness twin only needs ONE `witness:` assertion to be reachable.  The C07
harnesses cover several branches of the real code each (immediate acquire / counted-then-wait,
hand-off to a writer / to all readers / plain release, interfered retries ...).  This job runs
every harness with -DWITNESS and requires that EVERY `witness: path reachable: ...` assertion
is reported FAILURE by the solver (= a concrete execution reaching that branch exists inside
the assumptions), and that every expected path name is present.

It is registered with expect='witness' (like the -DWITNESS twins):
  all branches reachable -> every branch is printed as `OBLIGATION ...: FAILED witness: ...`
                            and `RESULT: FAILED`  (the good outcome for a witness job)
  some branch unreachable -> only the unreachable branches are printed (as PROVED = "assert(0)
                            there cannot be reached") and `RESULT: PROVED`, which the driver
                            reports as BROKEN-CHECK (vacuous harness, exit 2), not as a violation.

usage: all_paths.py <harness.c> <unwind> <max_fail> -- <cbmc defines/includes...>
"""
import re, subprocess, sys

EXPECT = {
    'h_rdlock': ['rdlock immediate acquire', 'rdlock acquire after MAX_FAIL interfered retries',
                 'rdlock counted as waiter then waits'],
    'h_wrlock': ['wrlock immediate acquire', 'wrlock counted as waiter then waits'],
    'h_tryrdlock': ['tryrdlock success', 'tryrdlock failure', 'tryrdlock failure after interfered retries'],
    'h_trywrlock': ['trywrlock success', 'trywrlock failure'],
    'h_rdunlock': ['unlock, last holder, no waiters', 'unlock hands the lock to one writer',
                   'unlock hands the lock to all waiting readers', 'unlock hands the lock to more than one reader',
                   'unlock with both writers and readers waiting hands off to one kind', 'rdunlock, not the last reader',
                   'rdunlock after MAX_FAIL interfered retries'],
    'h_wrunlock': ['unlock, last holder, no waiters', 'unlock hands the lock to one writer',
                   'unlock hands the lock to all waiting readers', 'unlock hands the lock to more than one reader',
                   'unlock with both writers and readers waiting hands off to one kind',
                   'wrunlock after MAX_FAIL interfered retries'],
}


def main():
    src, unwind, max_fail = sys.argv[1], sys.argv[2], sys.argv[3]
    rest = sys.argv[5:] if len(sys.argv) > 4 and sys.argv[4] == '--' else []
    reach, unreach = [], []
    solver = 0.0
    for h, names in EXPECT.items():
        argv = ['cbmc', src, '-DWITNESS', '-DMAX_FAIL=' + max_fail] + rest + [
            '--function', h, '--unwind', unwind, '--unwinding-assertions',
            '--drop-unused-functions', '--no-malloc-may-fail', '--verbosity', '8']
        try:
            out = subprocess.run(argv, capture_output=True, text=True, timeout=120).stdout
        except subprocess.TimeoutExpired:
            unreach.append((h + '.run', 'cbmc timed out'))
            continue
        for a in re.findall(r'Runtime decision procedure: ([\d.]+)s', out):
            solver += float(a)
        seen = dict(re.findall(r'witness: path reachable: (.*?): (SUCCESS|FAILURE)\s*$', out, re.M))
        for i, n in enumerate(names):
            st = seen.get(n)
            if st == 'FAILURE':
                reach.append(('%s.path%d' % (h, i), 'witness: branch [%s] of the real code is reachable in the harness' % n))
            else:
                unreach.append(('%s.path%d' % (h, i), 'branch [%s] is %s' % (
                    n, 'NOT reachable (harness vacuous for it)' if st else 'missing from the harness')))
        for n in seen:
            if n not in names:
                unreach.append((h + '.extra', 'unexpected path name [%s] (update EXPECT)' % n))
        if 'VERIFICATION FAILED' not in out and 'VERIFICATION SUCCESSFUL' not in out:
            unreach.append((h + '.run', 'cbmc produced no verdict: ' + out[-300:].replace('\n', ' | ')))
    if unreach:
        for k, d in unreach:
            print('OBLIGATION %s: PROVED %s' % (k, d))
        print('SOLVER_S: %.2f' % solver)
        print('RESULT: PROVED')   # = assert(0) unreachable somewhere -> driver reports BROKEN-CHECK
        sys.exit(0)
    for k, d in reach:
        print('OBLIGATION %s: FAILED %s' % (k, d))
    print('SOLVER_S: %.2f' % solver)
    print('RESULT: FAILED')       # all witnesses hit: the expected outcome of a witness job
    sys.exit(1)


main()
