#!/usr/bin/env python3
"""hand mutations of a scratch copy of fiber_rwlock.c; runs ./check C07_e1 against each"""
import os, re, shutil, subprocess, sys

ROOT = '/tmp/mut_c07'
FUNCS = ['fiber_rwlock_rdlock', 'fiber_rwlock_wrlock', 'fiber_rwlock_tryrdlock', 'fiber_rwlock_trywrlock',
         'fiber_rwlock_rdunlock', 'fiber_rwlock_wrunlock']


def split(src):
    """returns dict name -> (start, end) of the function body text"""
    pos = {}
    for f in FUNCS:
        i = src.index('int %s(fiber_rwlock_t* rwlock) {' % f)
        pos[f] = i
    order = sorted(pos.items(), key=lambda kv: kv[1])
    out = {}
    for k, (f, i) in enumerate(order):
        j = order[k + 1][1] if k + 1 < len(order) else len(src)
        out[f] = (i, j)
    return out


def mutate(src, func, old, new, count=1, nth=0):
    a, b = split(src)[func]
    body = src[a:b]
    idxs = [m.start() for m in re.finditer(re.escape(old), body)]
    assert idxs, (func, old)
    i = idxs[nth]
    body = body[:i] + new + body[i + len(old):]
    return src[:a] + body + src[b:]


RD_COND = '''if (current_state.state.waiting_writers ||
        current_state.state.write_locked ||
        current_state.state.waiting_readers) {'''

MUTS = [
    ('M01 rdunlock reader hand-off forgets waiting_readers = 0',
     lambda s: mutate(s, 'fiber_rwlock_rdunlock', '        current_state.state.waiting_readers = 0;\n', '')),
    ('M02 wrunlock reader hand-off forgets waiting_readers = 0',
     lambda s: mutate(s, 'fiber_rwlock_wrunlock', '      current_state.state.waiting_readers = 0;\n', '')),
    ('M03 wrunlock reader hand-off wakes reader_count + 1',
     lambda s: mutate(s, 'fiber_rwlock_wrunlock', 'current_state.state.reader_count);', 'current_state.state.reader_count + 1);', nth=1)),
    ('M04 rdunlock reader hand-off wakes reader_count - 1',
     lambda s: mutate(s, 'fiber_rwlock_rdunlock', 'current_state.state.reader_count);', 'current_state.state.reader_count - 1);')),
    ('M05 tryrdlock ignores waiting_writers',
     lambda s: mutate(s, 'fiber_rwlock_tryrdlock', 'if (current_state.state.waiting_writers ||\n        current_state.state.write_locked ||',
                      'if (current_state.state.write_locked ||')),
    ('M06 wrunlock writer hand-off does not re-set write_locked',
     lambda s: mutate(s, 'fiber_rwlock_wrunlock', '      current_state.state.write_locked = 1;\n', '')),
    ('M07 rdlock increments reader_count although write_locked (write_locked dropped from the test)',
     lambda s: mutate(s, 'fiber_rwlock_rdlock', 'if (current_state.state.waiting_writers ||\n        current_state.state.write_locked ||',
                      'if (current_state.state.waiting_writers ||')),
    ('M08 rdlock waits on the write-waiter queue',
     lambda s: mutate(s, 'fiber_rwlock_rdlock', '&rwlock->read_waiters', '&rwlock->write_waiters')),
    ('M09 wrunlock writer hand-off forgets waiting_writers -= 1',
     lambda s: mutate(s, 'fiber_rwlock_wrunlock', '      current_state.state.waiting_writers -= 1;\n', '')),
    ('M10 trywrlock only tests write_locked (succeeds while readers hold)',
     lambda s: mutate(s, 'fiber_rwlock_trywrlock', 'if (current_state.blob != 0) {', 'if (current_state.state.write_locked) {')),
    ('M11 wrlock only tests write_locked (acquires while readers hold)',
     lambda s: mutate(s, 'fiber_rwlock_wrlock', 'if (current_state.blob != 0) {', 'if (current_state.state.write_locked) {')),
    ('M12 rdunlock writer hand-off: wake issued BEFORE the CAS (and again not after)',
     lambda s: mutate(s, 'fiber_rwlock_rdunlock',
                             '        if (__sync_bool_compare_and_swap(&rwlock->state.blob, snapshot,\n                                         current_state.blob)) {\n          fiber_manager_wake_from_mpsc_queue(fiber_manager_get(),\n                                             &rwlock->write_waiters, 1);\n          break;',
                             '        fiber_manager_wake_from_mpsc_queue(fiber_manager_get(),\n                                           &rwlock->write_waiters, 1);\n        if (__sync_bool_compare_and_swap(&rwlock->state.blob, snapshot,\n                                         current_state.blob)) {\n          break;')),
    ('M13 wrunlock reader hand-off wakes only 1 reader',
     lambda s: mutate(s, 'fiber_rwlock_wrunlock', 'current_state.state.reader_count);', '1);', nth=1)),
    ('M14 rdunlock last reader with waiting writer: releases without hand-off (branch disabled)',
     lambda s: mutate(s, 'fiber_rwlock_rdunlock', 'if (current_state.state.waiting_writers) {', 'if (0) {')),
    ('M15 wrunlock hand-off to writer without wake call',
     lambda s: mutate(s, 'fiber_rwlock_wrunlock', '        fiber_manager_wake_from_mpsc_queue(fiber_manager_get(),\n                                           &rwlock->write_waiters, 1);\n', '')),
    ('M16 rdlock wait path: wait without being counted (waiting_readers += 1 removed)',
     lambda s: mutate(s, 'fiber_rwlock_rdlock', '      current_state.state.waiting_readers += 1;\n', '')),
    ('M17 wrlock counts itself in waiting_readers instead of waiting_writers',
     lambda s: mutate(s, 'fiber_rwlock_wrlock', 'current_state.state.waiting_writers += 1;', 'current_state.state.waiting_readers += 1;')),
    ('M18 rdunlock decrements reader_count by 2',
     lambda s: mutate(s, 'fiber_rwlock_rdunlock', 'current_state.state.reader_count -= 1;', 'current_state.state.reader_count -= 2;')),
    ('M19 wrunlock reader hand-off keeps write_locked (sets it back to 1)',
     lambda s: mutate(s, 'fiber_rwlock_wrunlock', '      current_state.state.waiting_readers = 0;\n', '      current_state.state.waiting_readers = 0;\n      current_state.state.write_locked = 1;\n')),
    ('M20 tryrdlock blocks: calls wait on failure instead of returning',
     lambda s: mutate(s, 'fiber_rwlock_tryrdlock', 'return FIBER_ERROR;', 'fiber_manager_wait_in_mpsc_queue(fiber_manager_get(), &rwlock->read_waiters); return FIBER_ERROR;')),
    ('M21 init leaves the word at 1',
     lambda s: s.replace('rwlock->state.blob = 0;', 'rwlock->state.blob = 1;')),
    ('M22 (equivalent under the property) both unlocks prefer readers over writers (branch order swapped)', 'SWAP'),
    ('M23 (equivalent under INV I2) wrlock tests write_locked||reader_count instead of blob != 0',
     lambda s: mutate(s, 'fiber_rwlock_wrlock', 'if (current_state.blob != 0) {', 'if (current_state.state.write_locked || current_state.state.reader_count) {')),
    ('M24 header: reader_count and waiting_readers swapped in the bit-field',
     'HDR'),
]


def swap_pref(s):
    # make the writer branch conditional on "no waiting readers" in both unlocks -> readers preferred
    s = mutate(s, 'fiber_rwlock_rdunlock', 'if (current_state.state.waiting_writers) {',
               'if (current_state.state.waiting_writers && !current_state.state.waiting_readers) {')
    s = mutate(s, 'fiber_rwlock_wrunlock', 'if (current_state.state.waiting_writers) {',
               'if (current_state.state.waiting_writers && !current_state.state.waiting_readers) {')
    return s


def main():
    only = sys.argv[1] if len(sys.argv) > 1 else None
    orig = open('/repo/src/fiber_rwlock.c').read()
    hdr = open('/repo/include/fiber_rwlock.h').read()
    for name, fn in MUTS:
        if only and not name.startswith(only):
            continue
        shutil.rmtree(ROOT, ignore_errors=True)
        os.makedirs(ROOT)
        shutil.copytree('/repo/src', ROOT + '/src')
        shutil.copytree('/repo/include', ROOT + '/include')
        if fn == 'SWAP':
            m = swap_pref(orig)
        elif fn == 'HDR':
            m = orig
            h2 = hdr.replace('unsigned int reader_count : 21;\n    unsigned int waiting_readers : 21;',
                             'unsigned int waiting_readers : 21;\n    unsigned int reader_count : 21;')
            assert h2 != hdr
            open(ROOT + '/include/fiber_rwlock.h', 'w').write(h2)
        else:
            m = fn(orig)
        assert m != orig or fn == 'HDR', name
        open(ROOT + '/src/fiber_rwlock.c', 'w').write(m)
        env = dict(os.environ, VERIF_REPO=ROOT)
        p = subprocess.run(['./check', 'C07_e1'], cwd='/verif', env=env, capture_output=True, text=True, timeout=600)
        out = p.stdout + p.stderr
        fails = re.findall(r'job=(\S+) assertion="(.*?)"', out)
        other = re.findall(r'^(BROKEN-CHECK|INCONCLUSIVE).*?job=(\S+)', out, re.M)
        print('=== %s -> rc=%d %s' % (name, p.returncode, 'CAUGHT' if p.returncode == 1 else ('not caught' if p.returncode == 0 else 'OTHER')))
        seen = set()
        for j, a in fails:
            if '.inv3' in j:
                continue
            if (j, a) in seen:
                continue
            seen.add((j, a))
            print('      %s: %s' % (j, a))
        for k, j in other:
            print('      %s %s' % (k, j))
        sys.stdout.flush()
    shutil.rmtree(ROOT, ignore_errors=True)


main()
