/* E1 harness for C07 (read/write lock): ONE inductive step of each of the six real
 * operations of src/fiber_rwlock.c, started from an ARBITRARY 64-bit lock word that
 * satisfies the representation invariant INV, with arbitrary interference by other
 * kernel threads every time the operation re-reads the word.
 *
 * Real code: fiber_rwlock_{init,rdlock,wrlock,tryrdlock,trywrlock,rdunlock,wrunlock}
 * (the unmodified fiber_rwlock.c is #included below).
 *
 * Environment model
 *   - __sync_bool_compare_and_swap is redirected (macro, no library edit) to verif_cas():
 *       (i)  FAIL: another thread changed the word between the operation's read and its
 *            CAS; the word now holds ANY word satisfying INV/BOUND/HOLD(caller) and the
 *            operation re-reads it at the top of its retry loop.  At most MAX_FAIL such
 *            failures per operation (bound; each retry starts from an arbitrary word
 *            again, so more retries only repeat the same symbolic step);
 *       (ii) SUCCEED: requires *p == expected (always true here unless the operation
 *            wrote the word by other means - asserted), records (old,new) as the single
 *            linearization step of the operation.
 *   - fiber_manager_wait_in_mpsc_queue / fiber_manager_wake_from_mpsc_queue are contract
 *     stubs recording the queue, the count and whether the CAS step had already happened.
 *   - fiber_manager_get returns a dummy manager.
 *
 * Word decoding in the oracle is done with shifts/masks on the uint64 (h_layout proves
 * that this is the same as the bit-field view that the library uses).
 */
#include <stdint.h>
#include "fiber_rwlock.h"
#include "fiber_manager.h"

#ifndef MAX_FAIL
#define MAX_FAIL 2
#endif

uint64_t nondet_u64(void);
unsigned nondet_uint(void);
_Bool nondet_bool(void);

/* ------------------------------------------------------------------ word oracle */
#define F_MASK 0x1FFFFFull /* 21 bits */
#define F_MAX 0x1FFFFFu
typedef struct {
  unsigned wl, rc, wr, ww; /* write_locked, reader_count, waiting_readers, waiting_writers */
} W;
static W dec(uint64_t b) {
  W w;
  w.wl = (unsigned)(b & 1u);
  w.rc = (unsigned)((b >> 1) & F_MASK);
  w.wr = (unsigned)((b >> 22) & F_MASK);
  w.ww = (unsigned)((b >> 43) & F_MASK);
  return w;
}
static uint64_t enc(unsigned wl, unsigned rc, unsigned wr, unsigned ww) {
  return (uint64_t)(wl & 1u) | ((uint64_t)(rc & F_MASK) << 1) | ((uint64_t)(wr & F_MASK) << 22) |
         ((uint64_t)(ww & F_MASK) << 43);
}

/* INV (representation invariant, asserted on every word the real code installs):
 *   I1  write_locked => reader_count == 0          (writer alone)
 *   I2  waiting_readers + waiting_writers > 0 => write_locked || reader_count > 0
 *                                                   (nobody is counted as waiting on a free lock)
 * optional strengthening (-DINV3), also inductive:
 *   I3  waiting_readers > 0 => write_locked || waiting_writers > 0 */
static int INV(uint64_t b) {
  W w = dec(b);
  if (w.wl && w.rc != 0) return 0;
  if ((w.wr != 0 || w.ww != 0) && !(w.wl || w.rc != 0)) return 0;
#ifdef INV3
  if (w.wr != 0 && !(w.wl || w.ww != 0)) return 0;
#endif
  return 1;
}
/* BOUND (stated bound, outside the claim: counters about to overflow their 21 bits) */
static int BOUND(uint64_t b) {
  W w = dec(b);
  return w.rc <= F_MAX - 1 && w.wr <= F_MAX - 1 && w.ww <= F_MAX - 1;
}
/* HOLD: what the caller itself holds constrains what other threads can do to the word */
enum { HOLD_NONE = 0, HOLD_READ = 1, HOLD_WRITE = 2 };
static int HOLD(uint64_t b, int mode) {
  W w = dec(b);
  if (mode == HOLD_READ) return w.rc >= 1 && !w.wl;
  if (mode == HOLD_WRITE) return w.wl && w.rc == 0;
  return 1;
}

/* ------------------------------------------------------------------ recorded environment */
static fiber_rwlock_t L;
static fiber_manager_t the_manager;
static int g_mode;          /* HOLD_* of the caller during the operation */
static uint64_t env_word;   /* last word installed by "the others" (initial word or interference) */
static int n_fail, n_succ;  /* CAS outcomes */
static uint64_t cas_old, cas_new;
static int n_wait, n_wake;
static mpsc_fifo_t* wait_q;
static mpsc_fifo_t* wake_q;
static int wake_count;

static uint64_t pick_word(void) {
  uint64_t b = nondet_u64();
  __CPROVER_assume(INV(b) && BOUND(b) && HOLD(b, g_mode));
  return b;
}

static int verif_cas(uint64_t* p, uint64_t expected, uint64_t desired) {
  __CPROVER_assert(p == &L.state.blob, "CAS targets the lock word");
  __CPROVER_assert(n_succ == 0, "no further CAS after the operation's linearization step");
  __CPROVER_assert(*p == env_word, "the lock word is modified only through CAS");
  __CPROVER_assert(expected == env_word, "CAS expects the word read at the top of this retry iteration");
  if (n_fail < MAX_FAIL && nondet_bool()) {
    /* interference: somebody else's CAS got in between; the word is now any legal word */
    n_fail++;
    env_word = pick_word();
    *p = env_word;
    return 0;
  }
  n_succ++;
  cas_old = expected;
  cas_new = desired;
  *p = desired;
  return 1;
}

fiber_manager_t* fiber_manager_get(void) { return &the_manager; }

void fiber_manager_wait_in_mpsc_queue(fiber_manager_t* manager, mpsc_fifo_t* fifo) {
  __CPROVER_assert(manager == &the_manager, "wait uses the calling thread's manager");
  __CPROVER_assert(n_succ == 1, "a fiber is counted in the lock word BEFORE it enqueues itself (wait only after the counting CAS)");
  n_wait++;
  wait_q = fifo;
}

int fiber_manager_wake_from_mpsc_queue(fiber_manager_t* manager, mpsc_fifo_t* fifo, int count) {
  __CPROVER_assert(manager == &the_manager, "wake uses the calling thread's manager");
  __CPROVER_assert(n_succ == 1, "waiters are woken only after the hand-off CAS gave them the lock");
  __CPROVER_assert(count >= 1, "wake is never called with count 0 (that would pop a waiter that was not handed the lock)");
  n_wake++;
  wake_q = fifo;
  wake_count = count;
  return count;
}

#define __sync_bool_compare_and_swap(p, o, n) verif_cas((p), (o), (n))
#include "fiber_rwlock.c" /* real source, found via -I$REPO/src */
#undef __sync_bool_compare_and_swap

#ifdef WITNESS
#define WITNESS_END() __CPROVER_assert(0, "witness: end of harness reachable")
#define WITNESS_PATH(c, name) __CPROVER_assert(!(c), "witness: path reachable: " name)
#else
#define WITNESS_END()
#define WITNESS_PATH(c, name)
#endif

static void start(int mode) {
  g_mode = mode;
  n_fail = n_succ = n_wait = n_wake = 0;
  wait_q = wake_q = 0;
  wake_count = 0;
  env_word = pick_word();
  L.state.blob = env_word;
}

/* Ghost-count induction step.  Hypothesis (at the linearization CAS, on `cas_old`):
 *   #fibers holding a read lock  == reader_count      #fibers holding the write lock == write_locked
 *   #fibers counted as read-waiters == waiting_readers #... write-waiters == waiting_writers
 * The ghost deltas are taken from what the operation DID (return value, wait/wake calls), never
 * from the word; woken waiters count as holders from the hand-off CAS on.  Conclusion: the same
 * equalities hold for `cas_new`, plus mutual exclusion and "nobody waits on a free lock". */
static void ghost_step(int took_read, int took_write, int rel_read, int rel_write) {
  W o = dec(cas_old), n = dec(cas_new);
  long woke_r = (n_wake && wake_q == &L.read_waiters) ? wake_count : 0;
  long woke_w = (n_wake && wake_q == &L.write_waiters) ? wake_count : 0;
  long wait_r = (n_wait && wait_q == &L.read_waiters) ? n_wait : 0;
  long wait_w = (n_wait && wait_q == &L.write_waiters) ? n_wait : 0;
  long HR = (long)o.rc + took_read - rel_read + woke_r;
  long HW = (long)o.wl + took_write - rel_write + woke_w;
  long QR = (long)o.wr + wait_r - woke_r;
  long QW = (long)o.ww + wait_w - woke_w;
  __CPROVER_assert(n_wake == 0 || wake_q == &L.read_waiters || wake_q == &L.write_waiters, "wake targets one of the lock's two waiter queues");
  __CPROVER_assert(n_wait == 0 || wait_q == &L.read_waiters || wait_q == &L.write_waiters, "wait targets one of the lock's two waiter queues");
  __CPROVER_assert(HR == (long)n.rc, "ghost: number of read holders (incl. readers just handed the lock) equals reader_count after the step");
  __CPROVER_assert(HW == (long)n.wl, "ghost: number of write holders (incl. a writer just handed the lock) equals write_locked after the step");
  __CPROVER_assert(QR == (long)n.wr, "ghost: number of counted read-waiters equals waiting_readers after the step (no wake without transfer, no transfer without wake)");
  __CPROVER_assert(QW == (long)n.ww, "ghost: number of counted write-waiters equals waiting_writers after the step (no wake without transfer, no transfer without wake)");
  __CPROVER_assert(HW <= 1 && HW >= 0 && HR >= 0, "mutual exclusion: at most one writer holds the lock");
  __CPROVER_assert(!(HW == 1 && HR != 0), "mutual exclusion: a writer never holds the lock together with a reader");
  __CPROVER_assert(!(QR + QW > 0 && HR + HW == 0), "no fiber stays blocked on a lock nobody holds");
}

static void common_success(void) {
  __CPROVER_assert(n_succ == 1, "the operation changes the lock word in exactly one CAS step");
  __CPROVER_assert(L.state.blob == cas_new, "the lock word after the operation is the one installed by its CAS");
  __CPROVER_assert(INV(cas_old) && BOUND(cas_old) && HOLD(cas_old, g_mode), "harness sanity: the linearization step starts from an INV word");
  __CPROVER_assert(INV(cas_new), "representation invariant preserved (writer alone; waiters only on a held lock)");
}

/* ================================================================== acquire operations */
void h_rdlock(void) {
  start(HOLD_NONE);
  int r = fiber_rwlock_rdlock(&L);
  __CPROVER_assert(r == FIBER_SUCCESS, "rdlock returns FIBER_SUCCESS");
  common_success();
  W o = dec(cas_old), n = dec(cas_new);
  __CPROVER_assert(n_wake == 0, "rdlock wakes nobody");
  if (n_wait == 0) { /* returned holding a read lock without blocking */
    __CPROVER_assert(!o.wl, "rdlock takes a read hold only when no writer holds the lock");
    __CPROVER_assert(o.ww == 0 && o.wr == 0, "implemented policy: rdlock does not overtake counted waiters");
    __CPROVER_assert(cas_new == enc(0, o.rc + 1, o.wr, o.ww), "rdlock acquire: reader_count+1 and nothing else changes");
    ghost_step(1, 0, 0, 0);
    WITNESS_PATH(1, "rdlock immediate acquire");
    WITNESS_PATH(n_fail == MAX_FAIL, "rdlock acquire after MAX_FAIL interfered retries");
  } else {
    __CPROVER_assert(n_wait == 1 && wait_q == &L.read_waiters, "rdlock blocks exactly once, on the read-waiter queue");
    __CPROVER_assert(o.wl || o.ww != 0 || o.wr != 0, "rdlock blocks only if a writer holds the lock or waiters are counted");
    __CPROVER_assert(cas_new == enc(o.wl, o.rc, o.wr + 1, o.ww), "rdlock wait: waiting_readers+1 and nothing else changes");
    ghost_step(0, 0, 0, 0);
    WITNESS_PATH(1, "rdlock counted as waiter then waits");
  }
  WITNESS_END();
}

void h_wrlock(void) {
  start(HOLD_NONE);
  int r = fiber_rwlock_wrlock(&L);
  __CPROVER_assert(r == FIBER_SUCCESS, "wrlock returns FIBER_SUCCESS");
  common_success();
  W o = dec(cas_old);
  __CPROVER_assert(n_wake == 0, "wrlock wakes nobody");
  if (n_wait == 0) {
    __CPROVER_assert(!o.wl && o.rc == 0, "wrlock takes the write hold only when nobody holds the lock");
    __CPROVER_assert(cas_old == 0 && cas_new == enc(1, 0, 0, 0), "wrlock acquire: free word (no waiters) becomes write_locked only");
    ghost_step(0, 1, 0, 0);
    WITNESS_PATH(1, "wrlock immediate acquire");
  } else {
    __CPROVER_assert(n_wait == 1 && wait_q == &L.write_waiters, "wrlock blocks exactly once, on the write-waiter queue");
    __CPROVER_assert(cas_old != 0, "wrlock blocks only if the lock is held or waiters are counted");
    __CPROVER_assert(cas_new == enc(o.wl, o.rc, o.wr, o.ww + 1), "wrlock wait: waiting_writers+1 and nothing else changes");
    ghost_step(0, 0, 0, 0);
    WITNESS_PATH(1, "wrlock counted as waiter then waits");
  }
  WITNESS_END();
}

void h_tryrdlock(void) {
  start(HOLD_NONE);
  int r = fiber_rwlock_tryrdlock(&L);
  __CPROVER_assert(n_wait == 0 && n_wake == 0, "tryrdlock never blocks and wakes nobody");
  if (r == FIBER_SUCCESS) {
    common_success();
    W o = dec(cas_old);
    __CPROVER_assert(!o.wl, "tryrdlock succeeds only when no writer holds the lock");
    __CPROVER_assert(o.ww == 0 && o.wr == 0, "implemented policy: tryrdlock does not overtake counted waiters");
    __CPROVER_assert(cas_new == enc(0, o.rc + 1, o.wr, o.ww), "tryrdlock success: reader_count+1 and nothing else changes");
    ghost_step(1, 0, 0, 0);
    WITNESS_PATH(1, "tryrdlock success");
  } else {
    W e = dec(env_word);
    __CPROVER_assert(r == FIBER_ERROR, "tryrdlock returns SUCCESS or ERROR");
    __CPROVER_assert(n_succ == 0 && L.state.blob == env_word, "failed tryrdlock leaves the lock word unchanged");
    __CPROVER_assert(e.wl || e.ww != 0 || e.wr != 0, "tryrdlock fails only on a word with a writer or counted waiters");
    WITNESS_PATH(1, "tryrdlock failure");
    WITNESS_PATH(n_fail == MAX_FAIL, "tryrdlock failure after interfered retries");
  }
  WITNESS_END();
}

void h_trywrlock(void) {
  start(HOLD_NONE);
  int r = fiber_rwlock_trywrlock(&L);
  __CPROVER_assert(n_wait == 0 && n_wake == 0, "trywrlock never blocks and wakes nobody");
  if (r == FIBER_SUCCESS) {
    common_success();
    W o = dec(cas_old);
    __CPROVER_assert(!o.wl && o.rc == 0, "trywrlock succeeds only when nobody holds the lock");
    __CPROVER_assert(cas_old == 0 && cas_new == enc(1, 0, 0, 0), "trywrlock success: free word (no waiters) becomes write_locked only");
    ghost_step(0, 1, 0, 0);
    WITNESS_PATH(1, "trywrlock success");
  } else {
    __CPROVER_assert(r == FIBER_ERROR, "trywrlock returns SUCCESS or ERROR");
    __CPROVER_assert(n_succ == 0 && L.state.blob == env_word, "failed trywrlock leaves the lock word unchanged");
    __CPROVER_assert(env_word != 0, "trywrlock fails only on a held lock");
    WITNESS_PATH(1, "trywrlock failure");
  }
  WITNESS_END();
}

/* ================================================================== release operations */
/* shared oracle for "release by the last holder": old word seen with the caller's hold already
 * removed is (wl=0, rc=0, wr, ww).  Exactly one admissible hand-off when waiters exist. */
static void check_release_by_last_holder(W o) {
  int to_writer = o.ww != 0 && cas_new == enc(1, 0, o.wr, o.ww - 1) && n_wake == 1 &&
                  wake_q == &L.write_waiters && wake_count == 1;
  int to_readers = o.wr != 0 && cas_new == enc(0, o.wr, 0, o.ww) && n_wake == 1 &&
                   wake_q == &L.read_waiters && wake_count == (int)o.wr;
  if (o.ww == 0 && o.wr == 0) {
    __CPROVER_assert(cas_new == 0 && n_wake == 0, "unlock by the last holder with no waiters frees the lock and wakes nobody");
    WITNESS_PATH(1, "unlock, last holder, no waiters");
  } else {
    __CPROVER_assert(n_wake == 1, "an unlock that leaves waiters issues exactly one wake call");
    __CPROVER_assert((to_writer || to_readers) && !(to_writer && to_readers),
                     "an unlock that leaves waiters hands the lock, in the same CAS, to exactly one waiting writer or to all currently counted waiting readers and wakes exactly those");
    WITNESS_PATH(to_writer, "unlock hands the lock to one writer");
    WITNESS_PATH(to_readers, "unlock hands the lock to all waiting readers");
    WITNESS_PATH(to_readers && o.wr > 1, "unlock hands the lock to more than one reader");
    WITNESS_PATH((to_writer || to_readers) && o.wr != 0 && o.ww != 0, "unlock with both writers and readers waiting hands off to one kind");
  }
}

void h_rdunlock(void) {
  start(HOLD_READ); /* documented precondition: the caller holds a read lock */
  int r = fiber_rwlock_rdunlock(&L);
  __CPROVER_assert(r == FIBER_SUCCESS, "rdunlock returns FIBER_SUCCESS");
  common_success();
  __CPROVER_assert(n_wait == 0, "rdunlock never blocks");
  W o = dec(cas_old);
  if (o.rc > 1) {
    __CPROVER_assert(cas_new == enc(0, o.rc - 1, o.wr, o.ww) && n_wake == 0, "rdunlock by a non-last reader only decrements reader_count and wakes nobody");
    WITNESS_PATH(1, "rdunlock, not the last reader");
  } else {
    check_release_by_last_holder(o);
  }
  ghost_step(0, 0, 1, 0);
  WITNESS_PATH(n_fail == MAX_FAIL, "rdunlock after MAX_FAIL interfered retries");
  WITNESS_END();
}

void h_wrunlock(void) {
  start(HOLD_WRITE); /* documented precondition: the caller holds the write lock */
  int r = fiber_rwlock_wrunlock(&L);
  __CPROVER_assert(r == FIBER_SUCCESS, "wrunlock returns FIBER_SUCCESS");
  common_success();
  __CPROVER_assert(n_wait == 0, "wrunlock never blocks");
  W o = dec(cas_old);
  check_release_by_last_holder(o);
  ghost_step(0, 0, 0, 1);
  WITNESS_PATH(n_fail == MAX_FAIL, "wrunlock after MAX_FAIL interfered retries");
  WITNESS_END();
}

/* ================================================================== base case and layout */
/* induction base: fiber_rwlock_init leaves the all-zero word, which satisfies INV with all
 * ghost counts 0 (real mpsc_fifo_init is executed too) */
void h_init(void) {
  fiber_rwlock_t l;
  l.state.blob = nondet_u64();
  int r = fiber_rwlock_init(&l);
  __CPROVER_assert(r == FIBER_SUCCESS, "init succeeds when allocation succeeds");
  __CPROVER_assert(l.state.blob == 0, "init leaves the all-zero lock word (nobody holds, nobody waits)");
  __CPROVER_assert(INV(l.state.blob) && BOUND(l.state.blob), "induction base: the initial word satisfies INV");
  __CPROVER_assert(l.read_waiters.head != 0 && l.write_waiters.head != 0 && l.read_waiters.head != l.write_waiters.head,
                   "init creates two distinct waiter queues");
  WITNESS_END();
}

/* bit-field layout: write_locked is bit 0, then reader_count, waiting_readers, waiting_writers
 * of 21 bits each; the union is 8 bytes; blob==0 iff all four fields are 0 */
void h_layout(void) {
  fiber_rwlock_state_t s;
  __CPROVER_assert(sizeof(fiber_rwlock_state_t) == 8 && sizeof(s.state) == 8 && sizeof(s.blob) == 8, "lock state union is exactly 8 bytes");
  uint64_t b = nondet_u64();
  s.blob = b;
  W w = dec(b);
  __CPROVER_assert(s.state.write_locked == w.wl, "layout: write_locked is bit 0 of the word");
  __CPROVER_assert(s.state.reader_count == w.rc, "layout: reader_count is bits 1..21");
  __CPROVER_assert(s.state.waiting_readers == w.wr, "layout: waiting_readers is bits 22..42");
  __CPROVER_assert(s.state.waiting_writers == w.ww, "layout: waiting_writers is bits 43..63");
  __CPROVER_assert((b == 0) == (s.state.write_locked == 0 && s.state.reader_count == 0 && s.state.waiting_readers == 0 && s.state.waiting_writers == 0),
                   "layout: blob == 0 iff all four fields are 0");
  __CPROVER_assert(enc(w.wl, w.rc, w.wr, w.ww) == b, "layout: the four fields cover all 64 bits");
  /* writing through the fields gives the composed word */
  fiber_rwlock_state_t t;
  unsigned a = nondet_uint(), c = nondet_uint(), d = nondet_uint(), e = nondet_uint();
  t.blob = nondet_u64();
  t.state.write_locked = a;
  t.state.reader_count = c;
  t.state.waiting_readers = d;
  t.state.waiting_writers = e;
  __CPROVER_assert(t.blob == enc(a, c, d, e), "layout: field writes compose the word (each field truncated to its width, no spill into neighbours)");
  WITNESS_END();
}
