/* E1 harnesses for C14 (hazard pointers: nothing reclaimed while protected, garbage bounded) -
 * sequential part.  Real code under test (unmodified, #include of the real .c / .h):
 *   src/hazard_pointer.c     : hazard_pointer_scan, binary_search, hazard_pointer_compare,
 *                              hazard_pointer_thread_record_create_and_push
 *   include/hazard_pointer.h : hazard_pointer_free (inline), hazard_pointer_using (inline)
 *
 * ADDRESS MODEL.  CBMC compares pointers into DIFFERENT objects by offset only (measured with cbmc 6.11:
 * `p < q` and `(uintptr_t)p < (uintptr_t)q` disagree for two distinct objects), which would make the
 * address sort / binary search meaningless.  Therefore every address that is sorted or searched lies
 * inside ONE array object `pool[PM]` of hazard_node_t:
 *   - retired nodes are pool elements 1..PM-1 (which ones, and in which retirement order, is nondet);
 *   - a hazard slot holds NULL or ANY byte address inside the pool object, (char*)pool + off with nondet
 *     off: the address of a retired node (off = 24*i), or one of the 23 addresses between two
 *     neighbouring nodes, below the first (element 0 is never retired) or above the last.  Slot contents
 *     are only compared by the library, never dereferenced.
 * Inside one object CBMC's `<`, `>`, `==` and the uintptr_t view used by hazard_pointer_compare are the
 * ordinary address order, so every relative order / equality pattern between <= 6 slot values and the
 * retired nodes is covered (23 >= 6 distinct addresses fit in every gap).
 *
 * qsort: cbmc 6.11 ships no body for qsort.  Stub = insertion sort over the (<= N*K) pointer-sized
 * elements that calls the comparison function it is given, i.e. the REAL hazard_pointer_compare.
 * calloc: see below.  malloc/free: CBMC's model (exact object sizes; the default pointer/bounds checks
 * of cbmc 6 flag any access outside the scratch list `plist` inside the real code).
 */
#include <stdint.h>
#include <stdlib.h>
#include <string.h>

/* checker's stand-in for libc qsort (not code under test) */
void qsort(void* base, size_t nmemb, size_t size, int (*compar)(const void*, const void*)) {
  __CPROVER_assert(size == sizeof(void*), "qsort stub: elements are pointer sized");
  void** a = (void**)base;
  for (size_t i = 1; i < nmemb; ++i) {
    for (size_t j = i; j > 0; --j) {
      if (compar(&a[j - 1], &a[j]) > 0) {
        void* t = a[j - 1];
        a[j - 1] = a[j];
        a[j] = t;
      } else {
        break;
      }
    }
  }
}

#include "hazard_pointer.h"

/* one job per configuration: N records with K hazard slots each are compile-time constants (the plan
 * enumerates all pairs), which keeps allocation sizes and loop bounds concrete */
#ifndef CFG_N
#define CFG_N 2
#endif
#ifndef CFG_K
#define CFG_K 2
#endif

/* checker's stand-in for calloc (not code under test): thread records come from TYPED static storage of
 * exactly the requested size (record header + K slots).  With CBMC's own calloc a record with a flexible
 * array member is an untyped byte array, every pointer read back from it may point anywhere and the
 * formula explodes (measured: > 100 s for a single record).  Size and zero-initialisation are kept. */
struct rec_storage {
  hazard_pointer_thread_record_t r;
  hazard_node_t* slots[CFG_K]; /* the flexible array member r.hazard_pointers[] lives here */
};
static struct rec_storage rec_store[CFG_N];
static const struct rec_storage rec_zero;
static unsigned rec_used;
void* calloc(size_t nmemb, size_t size) {
  __CPROVER_assert(nmemb * size == sizeof(struct rec_storage) && rec_used < CFG_N,
                   "calloc stub: a thread record of exactly header + K slots is requested, at most N times");
  rec_store[rec_used] = rec_zero;
  return &rec_store[rec_used++].r;
}

/* publication point of a new record: the compare-exchange on the list head inside the real create_and_push is routed
 * through a checker function (macro redirect, library untouched) that performs the same compare-exchange and asserts what
 * concurrent scanners rely on: the record that becomes the visible head already carries a retire_threshold of at
 * least 2*N*K for the list it heads ("head always has a correct retired_threshold", hazard_pointer_scan sizes its snapshot from
 * it).  With publish_may_fail set the weak CAS may also fail once spuriously (the loop must recompute and retry). */
static int publish_may_fail, publish_failed, publish_count;
_Bool nondet_bool(void);
static int verif_publish_cas(_Atomic(hazard_pointer_thread_record_t*)* head, hazard_pointer_thread_record_t** expected,
                             hazard_pointer_thread_record_t* desired) {
  if (publish_may_fail && !publish_failed && nondet_bool()) {
    publish_failed = 1;
    return 0; /* spurious failure of the weak compare-exchange: *expected keeps the current head */
  }
  if (*head != *expected) {
    *expected = *head;
    return 0;
  }
  size_t n = 1;
  for (hazard_pointer_thread_record_t* c = desired->next; c; c = c->next) ++n;
  __CPROVER_assert(desired->next == *expected, "C14 registration: the new record links to the head it replaces");
  __CPROVER_assert(desired->retire_threshold >= 2 * n * desired->hazard_pointers_count,
                   "C14 registration: a record becomes the visible list head only with a retire_threshold of at least 2*N*K already set (scans size their snapshot from head->retire_threshold)");
  *head = desired;
  publish_count++;
  return 1;
}
#undef atomic_compare_exchange_weak_explicit
#undef atomic_compare_exchange_strong_explicit
#undef atomic_compare_exchange_weak
#undef atomic_compare_exchange_strong
#define atomic_compare_exchange_weak_explicit(obj, exp, des, so, fo) verif_publish_cas((obj), (exp), (des))
#define atomic_compare_exchange_strong_explicit(obj, exp, des, so, fo) verif_publish_cas((obj), (exp), (des))
#define atomic_compare_exchange_weak(obj, exp, des) verif_publish_cas((obj), (exp), (des))
#define atomic_compare_exchange_strong(obj, exp, des) verif_publish_cas((obj), (exp), (des))

#include "hazard_pointer.c" /* real source */

int nondet_int(void);
unsigned nondet_unsigned(void);
_Bool nondet_bool(void);
size_t nondet_size(void);

#ifdef WITNESS
#define WITNESS_END() __CPROVER_assert(0, "witness: end of harness reachable")
#else
#define WITNESS_END()
#endif

#ifndef RMAX
#define RMAX 4 /* retired nodes handled in one harness run */
#endif
#define PM (RMAX + 1) /* pool elements; element 0 is never retired */

static hazard_node_t pool[PM];
static unsigned gc_calls[PM]; /* how often pool[i] was handed to the reclamation callback */
static unsigned gc_foreign;   /* callback invoked with something else / with the wrong gc_data */
static char cookie[PM];

static void the_gc(void* gc_data, hazard_node_t* node) {
  _Bool hit = 0;
  for (int i = 1; i < PM; ++i) {
    if (node == &pool[i]) {
      hit = 1;
      gc_calls[i]++;
      if (gc_data != (void*)&cookie[i]) gc_foreign++;
    }
  }
  if (!hit) gc_foreign++;
}

static _Atomic(hazard_pointer_thread_record_t*) g_head;
static hazard_pointer_thread_record_t* recs[CFG_N];

/* N records with K slots each, built by the REAL create_and_push, called one after the other */
static void build_records(void) {
  rec_used = 0;
  g_head = NULL;
  for (int i = 0; i < CFG_N; ++i) {
    recs[i] = hazard_pointer_thread_record_create_and_push(&g_head, (size_t)CFG_K); /* REAL */
#ifdef PRESCAN
    /* the oldest record already scanned once while it was alone: it owns a scratch list sized for ONE
     * record; records joining later make the next scan take the re-allocation path */
    if (i == 0) hazard_pointer_scan(recs[0]); /* REAL */
#endif
  }
  for (int i = 0; i < PM; ++i) gc_calls[i] = 0;
  gc_foreign = 0;
}

/* arbitrary hazard slot contents: NULL or any address inside the pool (duplicates allowed);
 * `forbidden` >= 1: no slot holds the address of pool[forbidden] */
static void havoc_slots(int forbidden) {
  for (int i = 0; i < CFG_N; ++i) {
    for (int k = 0; k < CFG_K; ++k) {
      hazard_node_t* v = NULL;
      if (nondet_bool()) {
        size_t off = nondet_size();
        __CPROVER_assume(off < sizeof(pool));
        v = (hazard_node_t*)((char*)pool + off);
        if (forbidden >= 1) __CPROVER_assume(v != &pool[forbidden]);
      }
      if (nondet_bool()) hazard_pointer_using(recs[i], v, (size_t)k); /* REAL publish */
      else recs[i]->hazard_pointers[k] = v;
    }
  }
}

static _Bool is_protected(const hazard_node_t* p) {
  _Bool prot = 0;
  for (int i = 0; i < CFG_N; ++i)
    for (int k = 0; k < CFG_K; ++k)
      if (recs[i]->hazard_pointers[k] == p) prot = 1;
  return prot;
}

/* the acting record is any of the N records (head, middle, tail of the list): CFG_ME = creation index,
 * compile-time per job (the plan enumerates 0..N-1), so that symbolic execution works with a concrete
 * record pointer and every job stays small */
#ifndef CFG_ME
#define CFG_ME 0
#endif
#define FOR_EACH_RECORD(body) body(recs[CFG_ME % CFG_N])

/* ------------------------------------------------------------------ 2. threshold arithmetic */
void h_threshold(void) {
  build_records();
  size_t len = 0;
  hazard_pointer_thread_record_t* cur = g_head;
  for (int i = 0; i <= CFG_N && cur; ++i) {
    ++len;
    __CPROVER_assert(cur->retire_threshold == 2 * (size_t)CFG_N * (size_t)CFG_K,
                     "after N sequential registrations every record has retire_threshold == 2*N*K");
    __CPROVER_assert(cur->hazard_pointers_count == (size_t)CFG_K, "record keeps its K");
    __CPROVER_assert(cur->head == &g_head, "record points to the list head");
    __CPROVER_assert(cur->retired_count == 0 && cur->retired_list == NULL && cur->plist == NULL && cur->plist_size == 0,
                     "fresh record has no retired nodes and no scratch list");
    for (int k = 0; k < CFG_K; ++k) __CPROVER_assert(cur->hazard_pointers[k] == NULL, "fresh record protects nothing");
    if (i < CFG_N) __CPROVER_assert(cur == recs[CFG_N - 1 - i], "records are linked newest first");
    cur = cur->next;
  }
  __CPROVER_assert(cur == NULL && len == (size_t)CFG_N, "record list holds exactly the N registered records");
  WITNESS_END();
}

/* ------------------------------------------------------------------ retired-list construction */
/* registration with one spurious failure of the weak compare-exchange: same end state, exact threshold at publication */
void h_publish(void) {
  publish_may_fail = 1;
  build_records();
  __CPROVER_assert(publish_count == CFG_N, "every registration published exactly one record");
  size_t len = 0;
  for (hazard_pointer_thread_record_t* cur = g_head; cur; cur = cur->next) {
    ++len;
    __CPROVER_assert(cur->retire_threshold == 2 * (size_t)CFG_N * (size_t)CFG_K, "after N registrations (one weak-CAS failure allowed) every record has retire_threshold 2*N*K");
  }
  __CPROVER_assert(len == (size_t)CFG_N, "record list holds exactly the N registered records");
#ifdef WITNESS
  __CPROVER_assert(!publish_failed, "witness: end of harness reachable after a failed compare-exchange");
#endif
}

static _Bool retired[PM]; /* ghost: pool[i] is currently retired (in the record's retired list) */

static void prepare_node(unsigned j) {
  pool[j].gc_function = the_gc;
  pool[j].gc_data = &cookie[j];
}

/* push `cnt` pairwise distinct pool nodes onto hptr's retired list exactly as hazard_pointer_free does
 * (minus its threshold test).  Representation invariant of a record: NULL-terminated list of pairwise
 * distinct nodes, retired_count == its length, gc_function set. */
static void retire_directly(hazard_pointer_thread_record_t* hptr, int cnt) {
  for (int i = 0; i < PM; ++i) retired[i] = 0;
  for (int r = 0; r < RMAX; ++r) {
    if (r < cnt) {
#ifdef CFG_CNT
      /* "fixed" variant for the large configurations: the retired nodes are pool[1..cnt], retired in
       * ascending (or, with CFG_DESC, descending) address order; slot addresses stay fully symbolic */
#ifdef CFG_DESC
      unsigned j = (unsigned)(cnt - r);
#else
      unsigned j = (unsigned)(r + 1);
#endif
#else
      unsigned j = nondet_unsigned();
      __CPROVER_assume(j >= 1 && j < PM && !retired[j]); /* a node is retired once */
#endif
      retired[j] = 1;
      prepare_node(j);
      pool[j].next = hptr->retired_list;
      hptr->retired_list = &pool[j];
      ++hptr->retired_count;
    }
  }
}

/* post-state of a scan: reclaimed iff unprotected, the rest is exactly the retired list */
static void check_after_scan(hazard_pointer_thread_record_t* hptr) {
  __CPROVER_assert(gc_foreign == 0, "reclamation callback only receives retired nodes with their own gc_data");
  unsigned expect_left = 0;
  for (int i = 1; i < PM; ++i) {
    if (retired[i]) {
      if (is_protected(&pool[i])) {
        ++expect_left;
        __CPROVER_assert(gc_calls[i] == 0, "a retired node that is in some hazard slot is NOT handed to its reclamation callback");
      } else {
        __CPROVER_assert(gc_calls[i] == 1, "a retired node that is in no hazard slot is reclaimed exactly once by the scan");
      }
    } else {
      __CPROVER_assert(gc_calls[i] == 0, "nodes that were not retired are not reclaimed");
    }
  }
  unsigned seen[PM];
  for (int i = 0; i < PM; ++i) seen[i] = 0;
  unsigned len = 0;
  hazard_node_t* cur = hptr->retired_list;
  for (int s = 0; s < PM && cur; ++s) {
    _Bool in_pool = 0;
    for (int i = 1; i < PM; ++i)
      if (cur == &pool[i]) {
        in_pool = 1;
        seen[i]++;
      }
    __CPROVER_assert(in_pool, "retired list links lead to retired nodes only");
    ++len;
    cur = cur->next;
  }
  __CPROVER_assert(cur == NULL, "retired list is NULL terminated and acyclic");
  for (int i = 1; i < PM; ++i) {
    const _Bool should = retired[i] && is_protected(&pool[i]);
    __CPROVER_assert(seen[i] == (should ? 1u : 0u), "after a scan the retired list holds exactly the still protected retired nodes, each once");
  }
  __CPROVER_assert(hptr->retired_count == len && len == expect_left, "retired_count equals the length of the retired list");
}

/* ------------------------------------------------------------------ 1. hazard_pointer_scan */
static void scan_body(hazard_pointer_thread_record_t* hptr) {
  havoc_slots(-1);
#ifdef CFG_CNT
  int cnt = CFG_CNT;
#else
  int cnt = nondet_int();
  __CPROVER_assume(cnt >= 0 && cnt <= RMAX);
#endif
  retire_directly(hptr, cnt);

  hazard_pointer_scan(hptr); /* REAL */

  check_after_scan(hptr);
  __CPROVER_assert(hptr->plist != NULL && hptr->plist_size == (size_t)CFG_N * (size_t)CFG_K,
                   "scan sizes its scratch list for all N*K hazard slots");
  WITNESS_END();
}

void h_scan(void) {
  build_records();
  FOR_EACH_RECORD(scan_body);
}

/* ------------------------------------------------------------------ 2b. hazard_pointer_free, one step */
/* From ANY state satisfying the record invariant (c retired nodes, c < retire_threshold) one more
 * retirement: either the count grows by one (no scan, nothing reclaimed), or the threshold is reached
 * and the scan reclaims every unprotected retired node.  Either way retired_count < retire_threshold
 * again.  Since the count grows by exactly one per retirement until it hits the threshold, an unprotected
 * retired node survives at most retire_threshold-1 further retirements by the same record.
 * Needs RMAX >= 2*N*K (all retire_threshold nodes live in the pool). */
static void free_step_body(hazard_pointer_thread_record_t* hptr) {
  const size_t R = hptr->retire_threshold;
  __CPROVER_assert(R == 2 * (size_t)CFG_N * (size_t)CFG_K && R <= RMAX, "harness bound: pool holds retire_threshold nodes");
  havoc_slots(-1);
  int c = nondet_int();
  __CPROVER_assume(c >= 0 && (size_t)c < R);
  retire_directly(hptr, c);

  unsigned x = nondet_unsigned(); /* the node retired now: distinct from all retired ones */
  __CPROVER_assume(x >= 1 && x < PM && !retired[x]);
  prepare_node(x);
  retired[x] = 1;
  hazard_node_t* const old_list = hptr->retired_list;

  hazard_pointer_free(hptr, &pool[x]); /* REAL */

  __CPROVER_assert(hptr->retired_count < R, "after hazard_pointer_free the record holds fewer than retire_threshold retired nodes");
  if ((size_t)c + 1 < R) {
    __CPROVER_assert(hptr->retired_count == (size_t)c + 1 && hptr->retired_list == &pool[x] && pool[x].next == old_list,
                     "below the threshold a retirement only pushes the node (count + 1)");
    for (int i = 0; i < PM; ++i) __CPROVER_assert(gc_calls[i] == 0 && gc_foreign == 0, "below the threshold nothing is reclaimed");
  } else {
    check_after_scan(hptr);
    __CPROVER_assert(hptr->retired_count <= (size_t)CFG_N * (size_t)CFG_K,
                     "a scan leaves at most N*K (= retire_threshold/2) retired nodes, all of them protected");
  }
  WITNESS_END();
}

void h_free_step(void) {
  build_records();
  FOR_EACH_RECORD(free_step_body);
}

/* ------------------------------------------------------------------ 2c. bounded garbage, multi-step */
/* X is retired while unprotected and stays unprotected; all other slot contents change arbitrarily
 * between retirements; earlier retired nodes may be protected or not.  After at most retire_threshold-1
 * further retirements by the same record X has been reclaimed (exactly once).  Nodes reclaimed by a scan
 * may be retired again later (address reuse).  Needs RMAX >= 2*R - 1 so that a fresh node always exists. */
static void bounded_garbage_body(hazard_pointer_thread_record_t* hptr) {
  const size_t R = hptr->retire_threshold;
  __CPROVER_assert(2 * R - 1 <= RMAX, "harness bound: pool holds 2*retire_threshold-1 nodes");
  int c = nondet_int();
  __CPROVER_assume(c >= 0 && (size_t)c < R);
  unsigned x = nondet_unsigned();
  __CPROVER_assume(x >= 1 && x < PM);
  havoc_slots((int)x);
  retire_directly(hptr, c);
  __CPROVER_assume(!retired[x]);
  prepare_node(x);
  retired[x] = 1;
  hazard_pointer_free(hptr, &pool[x]); /* REAL: retire X */
  for (size_t s = 0; s + 1 < 2 * (size_t)CFG_N * (size_t)CFG_K; ++s) { /* at most R-1 further retirements */
    if (gc_calls[x] == 0) {
      /* ghost bookkeeping: whatever a scan reclaimed is no longer retired */
      for (int i = 1; i < PM; ++i)
        if (gc_calls[i]) retired[i] = 0;
      havoc_slots((int)x); /* other threads publish / clear hazard pointers, never to X */
      unsigned y = nondet_unsigned();
      __CPROVER_assume(y >= 1 && y < PM && !retired[y] && gc_calls[y] == 0);
      prepare_node(y);
      retired[y] = 1;
      hazard_pointer_free(hptr, &pool[y]); /* REAL */
    }
  }
  __CPROVER_assert(gc_calls[x] == 1, "a retired, unprotected node is reclaimed (once) within retire_threshold-1 further retirements by the same record");
  __CPROVER_assert(gc_foreign == 0, "reclamation callback only receives retired nodes with their own gc_data");
  for (int i = 1; i < PM; ++i) __CPROVER_assert(gc_calls[i] <= 1, "no node is reclaimed twice");
  WITNESS_END();
}

void h_bounded_garbage(void) {
  build_records();
  FOR_EACH_RECORD(bounded_garbage_body);
}

/* ------------------------------------------------------------------ 3. binary_search alone */
#ifndef BN
#define BN 6
#endif
static char bpool[16]; /* 16 addresses: every order / equality pattern of BN elements and a needle */

void h_binary_search(void) {
  size_t n = nondet_size();
  __CPROVER_assume(n <= BN);
  void** hay = (void**)malloc(n * sizeof(void*)); /* exact size: any out-of-bounds index is a pointer-check failure */
  unsigned prev = 0;
  for (size_t i = 0; i < BN; ++i) {
    if (i < n) {
      unsigned j = nondet_unsigned();
      __CPROVER_assume(j < 16 && j >= prev); /* sorted, duplicates allowed (two slots may protect the same node) */
      prev = j;
      hay[i] = &bpool[j];
    }
  }
  unsigned nj = nondet_unsigned();
  __CPROVER_assume(nj < 16);
  void* needle = &bpool[nj];
  _Bool present = 0;
  for (size_t i = 0; i < BN; ++i)
    if (i < n && hay[i] == needle) present = 1;

  int r = binary_search(hay, (ssize_t)n, needle); /* REAL */

  __CPROVER_assert(r == (present ? 1 : 0), "binary_search over a sorted pointer array returns 1 iff the needle is present");
  WITNESS_END();
}
