/* E1 harnesses for C14 (hazard pointers: nothing reclaimed while protected, garbage bounded) -
 * sequential part.  Real code under test (unmodified, #include of the real .c / .h):
 *   src/hazard_pointer.c  : hazard_pointer_scan, binary_search, hazard_pointer_compare,
 *                           hazard_pointer_thread_record_create_and_push
 *   include/hazard_pointer.h : hazard_pointer_free (inline), hazard_pointer_using / _done_using
 *
 * ADDRESS MODEL.  CBMC compares pointers into DIFFERENT objects by offset only (measured with cbmc 6.11:
 * `p < q` and `(uintptr_t)p < (uintptr_t)q` disagree for two distinct objects), which would make the
 * address sort / binary search meaningless.  Therefore every address that is sorted or searched - all
 * retired nodes and all hazard-slot contents - lies inside ONE array object `pool[PM]`; which element is
 * a nondeterministic index.  Inside one object CBMC's `<`, `>`, `==` and the uintptr_t view used by
 * hazard_pointer_compare are the ordinary address order, and with PM >= (#retired + #slots) every
 * relative order / equality pattern between retired and protected addresses is realised.
 *
 * qsort: cbmc 6.11 ships no body for qsort.  Stub below = insertion sort over the (<= 6) pointer-sized
 * elements that calls the comparison function it is given, i.e. the REAL hazard_pointer_compare.
 */
#include <stdint.h>
#include <stdlib.h>
#include <string.h>

/* checker's stand-in for libc qsort (not code under test) */
void qsort(void* base, size_t nmemb, size_t size, int (*compar)(const void*, const void*)) {
  __CPROVER_assert(size == sizeof(void*), "qsort stub: elements are pointer sized");
  void** a = (void**)base;
  for (size_t i = 1; i < nmemb; ++i) {
    for (size_t j = i; j > 0; --j) {
      if (compar(&a[j - 1], &a[j]) > 0) {
        void* t = a[j - 1];
        a[j - 1] = a[j];
        a[j] = t;
      } else {
        break;
      }
    }
  }
}

#include "hazard_pointer.h"

#ifndef CFG_N
#define CFG_N 2
#endif
#ifndef CFG_K
#define CFG_K 2
#endif
/* checker's stand-in for calloc (not code under test): thread records come from TYPED static storage of
 * exactly the requested size (record header + K slots).  With CBMC's own calloc a record with a flexible
 * array member is an untyped byte array, every pointer read back from it may point anywhere and the
 * formula explodes (measured: > 100 s for one record).  Size and zero-initialisation are checked/kept. */
struct rec_storage {
  hazard_pointer_thread_record_t r;
  hazard_node_t* slots[CFG_K]; /* the flexible array member r.hazard_pointers[] lives here */
};
static struct rec_storage rec_store[CFG_N];
static const struct rec_storage rec_zero;
static unsigned rec_used;
void* calloc(size_t nmemb, size_t size) {
  __CPROVER_assert(nmemb * size == sizeof(struct rec_storage) && rec_used < CFG_N,
                   "calloc stub: a thread record of exactly header + K slots is requested, at most N times");
  rec_store[rec_used] = rec_zero;
  return &rec_store[rec_used++].r;
}

#include "hazard_pointer.c" /* real source */

int nondet_int(void);
unsigned nondet_unsigned(void);
_Bool nondet_bool(void);
size_t nondet_size(void);

#ifdef WITNESS
#define WITNESS_END() __CPROVER_assert(0, "witness: end of harness reachable")
#else
#define WITNESS_END()
#endif

/* one job per configuration: N records with K hazard slots each are compile-time constants (the plan
 * enumerates all pairs), which keeps allocation sizes and loop bounds concrete */
#ifndef CFG_N
#define CFG_N 2
#endif
#ifndef CFG_K
#define CFG_K 2
#endif
#define NMAX CFG_N
#define KMAX CFG_K
#ifndef RMAX
#define RMAX 4 /* retired nodes */
#endif
#ifndef PM
#define PM 10 /* pool size = number of distinct addresses */
#endif

static hazard_node_t pool[PM];
static unsigned gc_calls[PM];  /* how often pool[i] was handed to the reclamation callback */
static unsigned gc_foreign;    /* callback invoked with a pointer outside the pool / wrong cookie */
static char cookie[PM];

static void the_gc(void* gc_data, hazard_node_t* node) {
  _Bool hit = 0;
  for (int i = 0; i < PM; ++i) {
    if (node == &pool[i]) {
      hit = 1;
      gc_calls[i]++;
      if (gc_data != (void*)&cookie[i]) gc_foreign++;
    }
  }
  if (!hit) gc_foreign++;
}

static _Atomic(hazard_pointer_thread_record_t*) g_head;
static hazard_pointer_thread_record_t* recs[NMAX];
static int g_n, g_k;

/* N records with K slots each, built by the REAL create_and_push, called one after the other */
static void build_records(void) {
  g_n = CFG_N;
  g_k = CFG_K;
  rec_used = 0;
  g_head = NULL;
  for (int i = 0; i < NMAX; ++i) {
    recs[i] = NULL;
    if (i < g_n) recs[i] = hazard_pointer_thread_record_create_and_push(&g_head, (size_t)g_k); /* REAL */
  }
}

/* arbitrary hazard slot contents: NULL or the address of ANY pool element (duplicates allowed) */
static void havoc_slots(int forbidden /* pool index no slot may hold, or -1 */) {
  for (int i = 0; i < NMAX; ++i) {
    if (i < g_n) {
      for (int k = 0; k < KMAX; ++k) {
        if (k < g_k) {
          hazard_node_t* v = NULL;
          if (nondet_bool()) {
            unsigned j = nondet_unsigned();
            __CPROVER_assume(j < PM && (int)j != forbidden);
            v = &pool[j];
          }
          if (nondet_bool()) hazard_pointer_using(recs[i], v, (size_t)k); /* REAL publish */
          else recs[i]->hazard_pointers[k] = v;
        }
      }
    }
  }
}

static _Bool is_protected(const hazard_node_t* p) {
  _Bool prot = 0;
  for (int i = 0; i < NMAX; ++i)
    if (i < g_n)
      for (int k = 0; k < KMAX; ++k)
        if (k < g_k && recs[i]->hazard_pointers[k] == p) prot = 1;
  return prot;
}

static void reset_ghost(void) {
  for (int i = 0; i < PM; ++i) gc_calls[i] = 0;
  gc_foreign = 0;
}

/* ------------------------------------------------------------------ 2. threshold arithmetic */
void h_threshold(void) {
  build_records();
  size_t len = 0;
  hazard_pointer_thread_record_t* cur = g_head;
  for (int i = 0; i <= NMAX && cur; ++i) {
    ++len;
    __CPROVER_assert(cur->retire_threshold == 2 * (size_t)g_n * (size_t)g_k,
                     "after N sequential registrations every record has retire_threshold == 2*N*K");
    __CPROVER_assert(cur->hazard_pointers_count == (size_t)g_k, "record keeps its K");
    __CPROVER_assert(cur->head == &g_head, "record points to the list head");
    __CPROVER_assert(cur->retired_count == 0 && cur->retired_list == NULL && cur->plist == NULL && cur->plist_size == 0,
                     "fresh record has no retired nodes and no scratch list");
    for (int k = 0; k < KMAX; ++k)
      if (k < g_k) __CPROVER_assert(cur->hazard_pointers[k] == NULL, "fresh record protects nothing");
    cur = cur->next;
  }
  __CPROVER_assert(cur == NULL && len == (size_t)g_n, "record list holds exactly the N registered records");
  for (int i = 0; i < NMAX; ++i)
    if (i < g_n) __CPROVER_assert(recs[g_n - 1] == g_head, "the last registered record is the head");
  WITNESS_END();
}

/* ------------------------------------------------------------------ retired-list construction */
static int ridx[2 * RMAX]; /* pool indices of the retired nodes, in retirement order */

/* push `cnt` distinct pool nodes onto hptr's retired list exactly as hazard_pointer_free does
 * (without its threshold test): representation invariant of a record = NULL-terminated list of
 * pairwise distinct nodes, retired_count == its length, gc_function set */
static void retire_directly(hazard_pointer_thread_record_t* hptr, int first, int cnt) {
  for (int r = 0; r < RMAX; ++r) {
    if (r < cnt) {
      unsigned j = nondet_unsigned();
      __CPROVER_assume(j < PM);
      for (int q = 0; q < first + r; ++q) __CPROVER_assume(ridx[q] != (int)j); /* a node is retired once */
      ridx[first + r] = (int)j;
      hazard_node_t* node = &pool[j];
      node->gc_function = the_gc;
      node->gc_data = &cookie[j];
      node->next = hptr->retired_list;
      hptr->retired_list = node;
      ++hptr->retired_count;
    }
  }
}

/* post-state of a scan: reclaimed iff unprotected, the rest is exactly the retired list */
static void check_after_scan(hazard_pointer_thread_record_t* hptr, int total) {
  __CPROVER_assert(gc_foreign == 0, "reclamation callback only receives retired nodes with their own gc_data");
  unsigned expect_left = 0;
  _Bool retired[PM];
  for (int i = 0; i < PM; ++i) retired[i] = 0;
  for (int r = 0; r < 2 * RMAX; ++r) {
    if (r < total) {
      const int j = ridx[r];
      retired[j] = 1;
      const _Bool prot = is_protected(&pool[j]);
      if (prot) {
        ++expect_left;
        __CPROVER_assert(gc_calls[j] == 0, "a retired node that is in some hazard slot is NOT handed to its reclamation callback");
      } else {
        __CPROVER_assert(gc_calls[j] == 1, "a retired node that is in no hazard slot is reclaimed exactly once by the scan");
      }
    }
  }
  for (int i = 0; i < PM; ++i)
    if (!retired[i]) __CPROVER_assert(gc_calls[i] == 0, "nodes that were never retired are never reclaimed");
  /* remaining list */
  unsigned seen[PM];
  for (int i = 0; i < PM; ++i) seen[i] = 0;
  unsigned len = 0;
  hazard_node_t* cur = hptr->retired_list;
  for (int s = 0; s <= 2 * RMAX && cur; ++s) {
    _Bool in_pool = 0;
    for (int i = 0; i < PM; ++i)
      if (cur == &pool[i]) {
        in_pool = 1;
        seen[i]++;
      }
    __CPROVER_assert(in_pool, "retired list links lead to retired nodes only");
    ++len;
    cur = cur->next;
  }
  __CPROVER_assert(cur == NULL, "retired list is NULL terminated and acyclic");
  for (int i = 0; i < PM; ++i) {
    const _Bool should = retired[i] && is_protected(&pool[i]);
    __CPROVER_assert(seen[i] == (should ? 1u : 0u), "after a scan the retired list holds exactly the still protected retired nodes, each once");
  }
  __CPROVER_assert(hptr->retired_count == len && len == expect_left, "retired_count equals the length of the retired list");
}

/* ------------------------------------------------------------------ 1. hazard_pointer_scan */
void h_scan(void) {
  build_records();
  reset_ghost();
  int me = nondet_int();
  __CPROVER_assume(me >= 0 && me < g_n);
  hazard_pointer_thread_record_t* hptr = recs[me];
#ifdef PRESCAN
  /* the scanning record may already own a scratch list from an earlier scan (here: with nothing retired) */
  if (nondet_bool()) hazard_pointer_scan(hptr); /* REAL */
#endif
  havoc_slots(-1);
  int cnt = nondet_int();
  __CPROVER_assume(cnt >= 0 && cnt <= RMAX);
  retire_directly(hptr, 0, cnt);

  hazard_pointer_scan(hptr); /* REAL */

  check_after_scan(hptr, cnt);
  /* scratch list: sized for every slot of every record (CBMC's bounds / pointer checks, on by default,
   * flag any write beyond it inside the real code) */
  __CPROVER_assert(hptr->plist != NULL && hptr->plist_size == (size_t)g_n * (size_t)g_k,
                   "scan sizes its scratch list for all N*K hazard slots");
  WITNESS_END();
}

/* ------------------------------------------------------------------ 2b. hazard_pointer_free, one step */
/* from ANY state satisfying the record invariant (c retired nodes, c < retire_threshold) one more
 * retirement: either the count grows by one (no scan, nothing reclaimed), or the threshold is reached
 * and the scan reclaims every unprotected retired node.  In both cases retired_count < retire_threshold
 * again and retired_count grows by at most one per retirement, hence: an unprotected retired node
 * survives fewer than retire_threshold further retirements by the same record. */
void h_free_step(void) {
  build_records();
  reset_ghost();
  int me = nondet_int();
  __CPROVER_assume(me >= 0 && me < g_n);
  hazard_pointer_thread_record_t* hptr = recs[me];
  const size_t R = hptr->retire_threshold;
  __CPROVER_assume(R <= RMAX); /* bound: configurations with 2*N*K <= RMAX */
  havoc_slots(-1);
  int c = nondet_int();
  __CPROVER_assume(c >= 0 && (size_t)c < R);
  retire_directly(hptr, 0, c);

  /* the node being retired now: distinct from all retired ones (a node is retired once) */
  unsigned x = nondet_unsigned();
  __CPROVER_assume(x < PM);
  for (int q = 0; q < RMAX; ++q)
    if (q < c) __CPROVER_assume(ridx[q] != (int)x);
  ridx[c] = (int)x;
  pool[x].gc_function = the_gc;
  pool[x].gc_data = &cookie[x];
  hazard_node_t* const old_list = hptr->retired_list;

  hazard_pointer_free(hptr, &pool[x]); /* REAL */

  __CPROVER_assert(hptr->retired_count < R, "after hazard_pointer_free the record holds fewer than retire_threshold retired nodes");
  if ((size_t)c + 1 < R) {
    __CPROVER_assert(hptr->retired_count == (size_t)c + 1 && hptr->retired_list == &pool[x] && pool[x].next == old_list,
                     "below the threshold a retirement only pushes the node (count + 1)");
    for (int i = 0; i < PM; ++i) __CPROVER_assert(gc_calls[i] == 0 && gc_foreign == 0, "below the threshold nothing is reclaimed");
  } else {
    check_after_scan(hptr, c + 1);
    __CPROVER_assert(hptr->retired_count <= (size_t)g_n * (size_t)g_k,
                     "a scan leaves at most N*K (= retire_threshold/2) retired nodes, all of them protected");
  }
  WITNESS_END();
}

/* ------------------------------------------------------------------ 2c. bounded garbage, multi-step */
/* X is retired while unprotected and stays unprotected; slot contents otherwise change arbitrarily
 * between retirements; after at most retire_threshold-1 further retirements X has been reclaimed
 * (exactly once), whatever the earlier retired nodes and their protection. */
void h_bounded_garbage(void) {
  build_records();
  reset_ghost();
  int me = nondet_int();
  __CPROVER_assume(me >= 0 && me < g_n);
  hazard_pointer_thread_record_t* hptr = recs[me];
  const size_t R = hptr->retire_threshold;
  __CPROVER_assume(R <= RMAX);
  int c = nondet_int();
  __CPROVER_assume(c >= 0 && (size_t)c < R);
  unsigned x = nondet_unsigned();
  __CPROVER_assume(x < PM);
  havoc_slots((int)x);
  retire_directly(hptr, 0, c);
  for (int q = 0; q < RMAX; ++q)
    if (q < c) __CPROVER_assume(ridx[q] != (int)x);
  ridx[c] = (int)x;
  pool[x].gc_function = the_gc;
  pool[x].gc_data = &cookie[x];
  hazard_pointer_free(hptr, &pool[x]); /* REAL: retire X */
  int total = c + 1;
  unsigned further = 0;
  for (int s = 0; s < RMAX - 1; ++s) {
    if (gc_calls[x] == 0 && further + 1 < R) {
      havoc_slots((int)x); /* other threads publish / clear hazard pointers, never to X */
      unsigned y = nondet_unsigned();
      __CPROVER_assume(y < PM && gc_calls[y] == 0);
      for (int q = 0; q < 2 * RMAX; ++q)
        if (q < total) __CPROVER_assume(ridx[q] != (int)y);
      ridx[total++] = (int)y;
      pool[y].gc_function = the_gc;
      pool[y].gc_data = &cookie[y];
      hazard_pointer_free(hptr, &pool[y]); /* REAL */
      ++further;
    }
  }
  __CPROVER_assert(gc_calls[x] == 1, "a retired, unprotected node is reclaimed (once) within retire_threshold-1 further retirements by the same record");
  __CPROVER_assert(gc_foreign == 0, "reclamation callback only receives retired nodes with their own gc_data");
  WITNESS_END();
}

/* ------------------------------------------------------------------ 3. binary_search alone */
#ifndef BN
#define BN 6
#endif
static char bpool[16]; /* 16 addresses: every order / equality pattern of BN elements and a needle */

void h_binary_search(void) {
  size_t n = nondet_size();
  __CPROVER_assume(n <= BN);
  void** hay = (void**)malloc(n * sizeof(void*)); /* exact size: any out-of-bounds index is a pointer-check failure */
  unsigned prev = 0;
  for (size_t i = 0; i < BN; ++i) {
    if (i < n) {
      unsigned j = nondet_unsigned();
      __CPROVER_assume(j < 16 && j >= prev); /* sorted, duplicates allowed (two slots may protect the same node) */
      prev = j;
      hay[i] = &bpool[j];
    }
  }
  unsigned nj = nondet_unsigned();
  __CPROVER_assume(nj < 16);
  void* needle = &bpool[nj];
  _Bool present = 0;
  for (size_t i = 0; i < BN; ++i)
    if (i < n && hay[i] == needle) present = 1;

  int r = binary_search(hay, (ssize_t)n, needle); /* REAL */

  __CPROVER_assert(r == (present ? 1 : 0), "binary_search over a sorted pointer array returns 1 iff the needle is present");
  WITNESS_END();
}
