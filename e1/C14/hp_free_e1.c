/* E1 harness for C14, threshold logic of hazard_pointer_free in isolation: the REAL inline
 * hazard_pointer_free (include/hazard_pointer.h) with hazard_pointer_scan replaced by a spy, for an
 * ARBITRARY retired_count / retire_threshold (all size_t values), i.e. for every N and K at once.
 * Together with h_scan's post-condition ("after a scan only protected nodes remain, at most N*K =
 * retire_threshold/2 of them") this gives the garbage bound for all N, K: the count grows by exactly one
 * per retirement and the scan runs exactly when it reaches retire_threshold. */
#include <stdint.h>
#include <stdlib.h>
#include "hazard_pointer.h" /* real header: hazard_pointer_free is the code under test */

size_t nondet_size(void);

#ifdef WITNESS
#define WITNESS_END() __CPROVER_assert(0, "witness: end of harness reachable")
#else
#define WITNESS_END()
#endif

static unsigned scan_calls;
static hazard_pointer_thread_record_t* scan_arg;
static size_t count_at_scan;
static hazard_node_t* list_at_scan;

/* spy */
void hazard_pointer_scan(hazard_pointer_thread_record_t* hptr) {
  scan_calls++;
  scan_arg = hptr;
  count_at_scan = hptr->retired_count;
  list_at_scan = hptr->retired_list;
}

void h_free_calls_scan(void) {
  static hazard_pointer_thread_record_t rec; /* no slots needed: free never looks at them */
  static hazard_node_t old_head, node;
  const size_t c = nondet_size(), T = nondet_size();
  /* record invariant: fewer than retire_threshold retired nodes (threshold = 2*N*K >= 2) */
  __CPROVER_assume(T >= 2 && c < T);
  rec.retired_count = c;
  rec.retire_threshold = T;
  rec.retired_list = c ? &old_head : NULL;
  scan_calls = 0;

  hazard_pointer_free(&rec, &node); /* REAL */

  __CPROVER_assert(node.next == (c ? &old_head : NULL), "hazard_pointer_free links the node in front of the retired list");
  if (c + 1 >= T) {
    __CPROVER_assert(scan_calls == 1 && scan_arg == &rec, "reaching retire_threshold triggers exactly one scan of this record");
    __CPROVER_assert(count_at_scan == c + 1 && list_at_scan == &node, "the scan sees the node just retired (pushed and counted before the scan)");
  } else {
    __CPROVER_assert(scan_calls == 0, "below retire_threshold no scan runs");
    __CPROVER_assert(rec.retired_count == c + 1 && rec.retired_list == &node, "below retire_threshold the retirement only pushes the node (count + 1)");
    __CPROVER_assert(rec.retired_count < T, "retired_count stays below retire_threshold without a scan");
  }
  WITNESS_END();
}
