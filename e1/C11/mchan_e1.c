/* E1 harness for C11 (multi channel): ONE real fiber_multi_channel_send / _receive (include/fiber_multi_channel.h, unmodified),
 * rely/guarantee style.  The channel is created by the real fiber_multi_channel_create (capacity 2^CAP_POW, one job per capacity).
 *
 * Environment model (every stub is part of the claim):
 *   - fiber_mutex_lock(&ch->lock): the caller did not hold the lock, so other fibers may have run: the channel is replaced by an
 *     ARBITRARY state satisfying the representation invariant INV (any high >= low below 2^64-1, any message
 *     values, any waiter list of up to 2 other fibers); a snapshot is taken.  (C03 is the mutex's own property.)
 *   - fiber_manager_yield (the sleep inside internal_wait): checks the documented hand-off (fiber pushed on channel->waiters,
 *     state WAITING, manager->mutex_to_unlock == &ch->lock, channel data untouched), releases the lock on behalf of the manager
 *     and returns as if a later peer had woken the fiber; at most MAX_BLOCK sleeps per operation (bound).
 *   - fiber_scheduler_schedule: records the woken fiber.
 *   - fiber_mutex_unlock: end of the critical section: the operation's guarantee is asserted against the snapshot.
 * Guarantee asserted for send:   the channel was not full when the message was stored; exactly slot high&mask changed, to the
 *   message; high advanced by one; every unreceived message is intact; INV holds again (never more than capacity);
 *   one waiter is woken iff there was one (so a blocked receiver/sender is resumed by the next send/receive).
 * Guarantee for receive: returns exactly the oldest message (slot low&mask of the snapshot), clears it, low advances by one, ...
 * INV: low <= high < 2^64-1, high-low <= size; slot (low+i)&mask != 0 for i < high-low and == 0 otherwise. */
#include <stdint.h>
#include <stdlib.h>
#include "fiber_multi_channel.h"

#ifndef MAX_BLOCK
#define MAX_BLOCK 2
#endif
#ifndef CAP_POW
#define CAP_POW 1
#endif
#define MAXSZ (1u << CAP_POW)
uint64_t nondet_u64(void);
unsigned nondet_uint(void);
_Bool nondet_bool(void);
void* nondet_ptr(void);

static fiber_multi_channel_t* ch;
static fiber_manager_t the_manager;
static fiber_scheduler_t* const the_sched = (fiber_scheduler_t*)&the_manager; /* opaque token */
static fiber_t self_fiber, others[2];
static int lock_held, n_lock, n_unlock, n_yield, n_sched, post_checked;
static fiber_t* woken;
static uint64_t s_high, s_low;
static void* s_buf[MAXSZ];
static fiber_t* s_waiters;
static fiber_t* s_waiters_next;
static int op_is_send;
static void* op_msg;
static int lock_ok_init;

static int INV(void) {
  if (ch->high < ch->low) return 0;   /* the counters have not wrapped (see the bound assumed in fiber_mutex_lock) */
  uint64_t n = ch->high - ch->low;
  if (n > ch->size) return 0;
  for (uint32_t i = 0; i < MAXSZ; i++) {
    if (i >= ch->size) break;
    uint32_t idx = (uint32_t)((ch->low + i) & ch->power_of_2_mod);
    if (i < n) { if (ch->buffer[idx] == 0) return 0; }
    else       { if (ch->buffer[idx] != 0) return 0; }
  }
  return 1;
}

int fiber_mutex_init(fiber_mutex_t* m) { lock_ok_init = 1; return 1; }
int fiber_mutex_destroy(fiber_mutex_t* m) { return 1; }
fiber_manager_t* fiber_manager_get(void) { return &the_manager; }

int fiber_mutex_lock(fiber_mutex_t* m) {
  __CPROVER_assert(m == &ch->lock, "the operation locks the channel's own mutex");
  __CPROVER_assert(!lock_held, "the channel mutex is not locked twice by the same operation");
  /* other fibers ran while we did not hold the lock: arbitrary INV state */
  ch->high = nondet_u64();
  ch->low = nondet_u64();
  for (uint32_t i = 0; i < MAXSZ; i++) { if (i >= ch->size) break; ch->buffer[i] = nondet_ptr(); }
  unsigned nw = nondet_uint();
  __CPROVER_assume(nw <= 2);
  others[0].state = others[1].state = FIBER_STATE_WAITING;
  others[0].scratch = nw >= 2 ? (void*)&others[1] : 0;
  others[1].scratch = 0;
  ch->waiters = nw >= 1 ? &others[0] : 0;
  __CPROVER_assume(INV());
  __CPROVER_assume(ch->high < UINT64_MAX);   /* stated bound: fewer than 2^64-1 messages ever sent (the real code compares high > low) */
  /* a fiber sleeps on the channel only for a reason: senders on a full channel, receivers on an empty one; a state with
     waiters is therefore full or empty or in transit between them; no constraint needed for the step guarantee */
  lock_held = 1;
  n_lock++;
  s_high = ch->high; s_low = ch->low; s_waiters = ch->waiters; s_waiters_next = ch->waiters ? (fiber_t*)ch->waiters->scratch : 0;
  for (uint32_t i = 0; i < MAXSZ; i++) s_buf[i] = i < ch->size ? ch->buffer[i] : 0;
  return 1;
}

static int data_unchanged(void) {
  if (ch->high != s_high || ch->low != s_low) return 0;
  for (uint32_t i = 0; i < MAXSZ; i++) { if (i >= ch->size) break; if (ch->buffer[i] != s_buf[i]) return 0; }
  return 1;
}

void fiber_manager_yield(fiber_manager_t* manager) {
  __CPROVER_assert(manager == &the_manager, "yield on the calling thread's manager");
  __CPROVER_assert(lock_held, "C11 multi channel: a fiber registers as waiter only while holding the channel lock");
  __CPROVER_assert(manager->mutex_to_unlock == &ch->lock, "C11 multi channel: the sleeping fiber hands the channel lock to the manager to unlock after the switch");
  __CPROVER_assert(self_fiber.state == FIBER_STATE_WAITING, "C11 multi channel: sleeping fiber is WAITING");
  __CPROVER_assert(ch->waiters == &self_fiber && self_fiber.scratch == (void*)s_waiters, "C11 multi channel: the sleeping fiber is pushed on the waiter list, keeping the earlier waiters");
  __CPROVER_assert(data_unchanged(), "C11 multi channel: an operation that has to wait leaves the messages untouched");
  if (op_is_send) __CPROVER_assert(s_high - s_low >= ch->size, "C11 multi channel: a sender sleeps only on a full channel");
  else __CPROVER_assert(s_high == s_low, "C11 multi channel: a receiver sleeps only on an empty channel");
  n_yield++;
  __CPROVER_assume(n_yield <= MAX_BLOCK);
  /* the manager unlocks after the switch; later a peer's internal_wake pops us, clears scratch, marks us READY, we run again */
  manager->mutex_to_unlock = 0;
  lock_held = 0;
  self_fiber.scratch = 0;
  self_fiber.state = FIBER_STATE_RUNNING;
}

void fiber_scheduler_schedule(fiber_scheduler_t* scheduler, fiber_t* the_fiber) {
  __CPROVER_assert(lock_held, "C11 multi channel: waiters are woken under the channel lock");
  __CPROVER_assert(the_fiber == s_waiters && the_fiber != 0, "C11 multi channel: the fiber woken is the head of the waiter list");
  __CPROVER_assert(the_fiber->state == FIBER_STATE_READY && the_fiber->scratch == 0, "C11 multi channel: the woken fiber is READY and unlinked");
  __CPROVER_assert(ch->waiters == s_waiters_next, "C11 multi channel: the remaining waiters stay registered");
  n_sched++;
  woken = the_fiber;
}

int fiber_mutex_unlock(fiber_mutex_t* m) {
  __CPROVER_assert(m == &ch->lock && lock_held, "unlock of the held channel lock");
  lock_held = 0;
  n_unlock++;
  const uint32_t mask = ch->power_of_2_mod;
  if (op_is_send) {
    __CPROVER_assert(s_high - s_low < ch->size, "C11 multi channel: a message is stored only when the channel is not full (never more than capacity, no unreceived message overwritten)");
    __CPROVER_assert(ch->high == s_high + 1 && ch->low == s_low, "C11 multi channel: send advances high by one");
    __CPROVER_assert(ch->buffer[s_high & mask] == op_msg, "C11 multi channel: the message is stored in the slot after the newest message");
    for (uint32_t i = 0; i < MAXSZ; i++) { if (i >= ch->size) break;
      if (i != (uint32_t)(s_high & mask)) __CPROVER_assert(ch->buffer[i] == s_buf[i], "C11 multi channel: send leaves all other slots intact"); }
  } else {
    __CPROVER_assert(s_high != s_low, "C11 multi channel: a message is taken only from a non-empty channel");
    __CPROVER_assert(ch->low == s_low + 1 && ch->high == s_high, "C11 multi channel: receive advances low by one");
    __CPROVER_assert(ch->buffer[s_low & mask] == 0, "C11 multi channel: the received slot is cleared");
    for (uint32_t i = 0; i < MAXSZ; i++) { if (i >= ch->size) break;
      if (i != (uint32_t)(s_low & mask)) __CPROVER_assert(ch->buffer[i] == s_buf[i], "C11 multi channel: receive leaves all other slots intact"); }
  }
  __CPROVER_assert(INV(), "C11 multi channel: the channel invariant (at most capacity messages, exactly the slots low..high-1 occupied) holds after the operation");
  __CPROVER_assert(n_sched == (s_waiters != 0), "C11 multi channel: a completed send/receive wakes exactly one waiter if there is one (a blocked peer is resumed by the next operation)");
  post_checked = 1;
  return 1;
}

static void setup(void) {
  const unsigned p = CAP_POW;   /* capacity 2^CAP_POW: one job per capacity (a symbolic allocation size exhausts the SAT back end) */
  ch = fiber_multi_channel_create(p);
  __CPROVER_assume(ch != 0);
  __CPROVER_assert(lock_ok_init && ch->size == (1u << p) && ch->power_of_2_mod == ch->size - 1 && ch->high == 0 && ch->low == 0 && ch->waiters == 0,
                   "C11 multi channel: create yields an empty channel of the requested capacity");
  __CPROVER_assert(INV(), "C11 multi channel: the fresh channel satisfies the invariant (induction base)");
  the_manager.current_fiber = &self_fiber;
  the_manager.scheduler = the_sched;
  self_fiber.state = FIBER_STATE_RUNNING;
}

void h_send(void) {
  setup();
  op_is_send = 1;
  op_msg = nondet_ptr();
  __CPROVER_assume(op_msg != 0);   /* 0 is the "empty slot" value: messages are non-null (documented by receive clearing to 0) */
  fiber_multi_channel_send(ch, op_msg);
  __CPROVER_assert(post_checked && n_unlock == 1 && !lock_held && n_lock == n_yield + 1, "C11 multi channel: send completes with the lock released, one critical section per attempt");
#ifdef WITNESS
  __CPROVER_assert(n_yield != MAX_BLOCK, "witness: end of harness reachable after MAX_BLOCK sleeps");
#endif
}

void h_receive(void) {
  setup();
  op_is_send = 0;
  void* r = fiber_multi_channel_receive(ch);
  __CPROVER_assert(post_checked && n_unlock == 1 && !lock_held && n_lock == n_yield + 1, "C11 multi channel: receive completes with the lock released");
  __CPROVER_assert(r == s_buf[s_low & ch->power_of_2_mod] && r != 0, "C11 multi channel: receive returns the oldest unreceived message (FIFO)");
#ifdef WITNESS
  __CPROVER_assert(n_yield != MAX_BLOCK, "witness: end of harness reachable after MAX_BLOCK sleeps");
#endif
}
