/* E1 harness for C20 (multi-waiter signal): ONE real fiber_multi_signal_wait / fiber_multi_signal_raise (include/fiber_signal.h,
 * unmodified) as a rely/guarantee step over the double word (counter, head).
 *
 * Protocol (the ABA defence the property is about): every modification of the signal is ONE atomic transition of the whole
 * pair that bumps the counter:   wait:  (c, RAISED) -> (c+1, NULL)  [accept, return at once]
 *                                       (c, h)      -> (c+1, node), node->next == h, h != RAISED  [enqueue, then sleep]
 *                                raise: (c, NULL|RAISED) -> (c+1, RAISED)   [remember the raise]
 *                                       (c, h)      -> (c+1, h->next)       [take waiter h, wake exactly it]
 * Environment (every stub is part of the claim): before every atomic access of the real code to the signal (macro redirects of
 * the <stdatomic.h> generics and of compare_and_swap2, library untouched) other fibers perform any number of such
 * transitions: the pair becomes (c + d, h') with d >= 1 and h' = NULL, RAISED or any waiter list of other fibers (at most
 * ENV_BUDGET times per operation).  In particular the two loads of a snapshot can see different states, and the state at the
 * compare-and-swap can differ from the snapshot in head only, counter only, or both.
 *   compare_and_swap2: the 16-byte compare-exchange, performed as specified;  fiber_manager_yield / fiber_manager_schedule: record.
 * Asserted: the operation changes the signal exactly once, by one of ITS legal transitions applied to the CURRENT pair (a
 * single-word update, or a transition computed from a stale snapshot, is reported); wait returns without sleeping iff it
 * accepted a raise and sleeps exactly once (state WAITING, wake-up marker armed) iff it enqueued itself; raise returns 1
 * and makes exactly the taken waiter runnable iff it took one, returns 0 and wakes nobody iff it left the signal raised. */
#include <stdatomic.h>
#include <stdint.h>
#include "machine_specific.h"
#include "fiber_manager.h"

#ifndef ENV_BUDGET
#define ENV_BUDGET 2
#endif
unsigned nondet_uint(void);
_Bool nondet_bool(void);
uint64_t nondet_u64(void);

typedef struct { uintptr_t c; void* h; } pair_t;
static pair_t cur(void);
static void env(volatile void* p);
static void after(volatile void* p);
static int v_cas2(volatile pointer_pair_t* l, const pointer_pair_t* o, const pointer_pair_t* n);
#define compare_and_swap2(l, o, n) v_cas2((l), (o), (n))
#undef atomic_load_explicit
#undef atomic_load
#undef atomic_store
#undef atomic_store_explicit
#undef atomic_exchange
#undef atomic_exchange_explicit
#undef atomic_fetch_add
#undef atomic_fetch_add_explicit
#undef atomic_compare_exchange_weak_explicit
#undef atomic_compare_exchange_strong_explicit
#undef atomic_compare_exchange_weak
#undef atomic_compare_exchange_strong
#define V_OP(o, expr) ({ env(o); __typeof__(expr) _r = (expr); after(o); _r; })
#define atomic_load_explicit(o, m) V_OP(o, __atomic_load_n((o), __ATOMIC_SEQ_CST))
#define atomic_load(o) V_OP(o, __atomic_load_n((o), __ATOMIC_SEQ_CST))
#define atomic_store(o, v) ({ env(o); __atomic_store_n((o), (v), __ATOMIC_SEQ_CST); after(o); })
#define atomic_store_explicit(o, v, m) ({ env(o); __atomic_store_n((o), (v), __ATOMIC_SEQ_CST); after(o); })
#define atomic_exchange(o, v) V_OP(o, __atomic_exchange_n((o), (v), __ATOMIC_SEQ_CST))
#define atomic_exchange_explicit(o, v, m) V_OP(o, __atomic_exchange_n((o), (v), __ATOMIC_SEQ_CST))
#define atomic_fetch_add(o, v) V_OP(o, __atomic_fetch_add((o), (v), __ATOMIC_SEQ_CST))
#define atomic_fetch_add_explicit(o, v, m) V_OP(o, __atomic_fetch_add((o), (v), __ATOMIC_SEQ_CST))
#define V_CASW(o, e, d) V_OP(o, __atomic_compare_exchange_n((o), (e), (d), 0, __ATOMIC_SEQ_CST, __ATOMIC_SEQ_CST))
#define atomic_compare_exchange_weak_explicit(o, e, d, s, f) V_CASW(o, e, d)
#define atomic_compare_exchange_strong_explicit(o, e, d, s, f) V_CASW(o, e, d)
#define atomic_compare_exchange_weak(o, e, d) V_CASW(o, e, d)
#define atomic_compare_exchange_strong(o, e, d) V_CASW(o, e, d)

#include "fiber_signal.h" /* real code */

static fiber_multi_signal_t S;
static fiber_manager_t the_manager;
static fiber_t self_fiber, others[3];
static mpsc_fifo_node_t self_node, onode[3];
static int op_is_wait, env_on, env_budget;
static pair_t pre;
static int n_changes, illegal, did_accept, did_push, did_raise, did_take;
static mpsc_fifo_node_t* taken;
static int n_yield, n_sched, yield_ok;
static fiber_t* sched_fiber;

static pair_t cur(void) { pair_t p; p.c = S.data.counter; p.h = (void*)S.data.head; return p; }
static int on_signal(volatile void* p) { return p == (volatile void*)&S.data.counter || p == (volatile void*)&S.data.head || p == (volatile void*)&S.blob; }

static void env(volatile void* p) {
  if (!on_signal(p)) return;
  if (env_on && env_budget > 0 && nondet_bool()) {
    env_budget--;
    uint64_t d = nondet_u64();
    __CPROVER_assume(d >= 1 && d < ((uint64_t)1 << 40));
    S.data.counter += d;
    unsigned k = nondet_uint() % 5;      /* NULL, RAISED, or the waiter list starting at other fiber k-2 */
    S.data.head = k == 0 ? 0 : k == 1 ? FIBER_MULTI_SIGNAL_RAISED : &onode[k - 2];
  }
  pre = cur();
}
static void after(volatile void* p) {
  if (!on_signal(p)) return;
  pair_t post = cur();
  if (post.c == pre.c && post.h == pre.h) return;
  n_changes++;
  int ok = 0;
  if (post.c == pre.c + 1) {
    if (op_is_wait) {
      if (pre.h == (void*)FIBER_MULTI_SIGNAL_RAISED && post.h == 0) { ok = 1; did_accept++; }
      else if (pre.h != (void*)FIBER_MULTI_SIGNAL_RAISED && post.h == (void*)&self_node && (void*)self_node.next == pre.h) { ok = 1; did_push++; }
    } else {
      if ((pre.h == 0 || pre.h == (void*)FIBER_MULTI_SIGNAL_RAISED) && post.h == (void*)FIBER_MULTI_SIGNAL_RAISED) { ok = 1; did_raise++; }
      else if (pre.h != 0 && pre.h != (void*)FIBER_MULTI_SIGNAL_RAISED && post.h == (void*)((mpsc_fifo_node_t*)pre.h)->next) { ok = 1; did_take++; taken = (mpsc_fifo_node_t*)pre.h; }
    }
  }
  if (!ok) illegal = 1;
}
static int v_cas2(volatile pointer_pair_t* l, const pointer_pair_t* o, const pointer_pair_t* n) {
  env(l);
  int r = 0;
  if (l->low == o->low && l->high == o->high) { l->low = n->low; l->high = n->high; r = 1; }
  after(l);
  return r;
}

fiber_manager_t* fiber_manager_get(void) { return &the_manager; }
void fiber_manager_yield(fiber_manager_t* m) {
  n_yield++;
  yield_ok = self_fiber.state == FIBER_STATE_WAITING && m->set_wait_location == (void**)&self_fiber.scratch && m->set_wait_value == FIBER_SIGNAL_READY_TO_WAKE && did_push == 1;
  self_fiber.state = FIBER_STATE_RUNNING;   /* ... later a raise takes this fiber and makes it runnable */
}
void fiber_scheduler_schedule(fiber_scheduler_t* s, fiber_t* f) { n_sched++; sched_fiber = f; }

#ifdef WITNESS
#define WITNESS_END() __CPROVER_assert(env_budget != 0, "witness: end of harness reachable after all environment interference")
#else
#define WITNESS_END()
#endif

static void setup(void) {
  fiber_multi_signal_init(&S);
  __CPROVER_assert(S.data.counter == 0 && S.data.head == 0, "C20 multi-signal: a fresh signal is clear");
  the_manager.current_fiber = &self_fiber;
  the_manager.scheduler = (fiber_scheduler_t*)&the_manager;
  self_fiber.state = FIBER_STATE_RUNNING;
  self_fiber.mpsc_fifo_node = &self_node;
  self_fiber.scratch = (void*)(uintptr_t)nondet_u64();       /* whatever an earlier mechanism left there */
  for (int i = 0; i < 3; i++) { onode[i].data = &others[i]; onode[i].next = i < 2 ? &onode[i + 1] : 0; others[i].state = FIBER_STATE_WAITING; others[i].scratch = FIBER_SIGNAL_READY_TO_WAKE; }
  /* arbitrary current state */
  uint64_t c0 = nondet_u64();
  __CPROVER_assume(c0 < ((uint64_t)1 << 40));
  S.data.counter = c0;
  unsigned k = nondet_uint() % 5;
  S.data.head = k == 0 ? 0 : k == 1 ? FIBER_MULTI_SIGNAL_RAISED : &onode[k - 2];
  env_budget = ENV_BUDGET;
  env_on = 1;
}

void h_wait(void) {
  setup();
  op_is_wait = 1;
  fiber_multi_signal_wait(&S);
  env_on = 0;
  __CPROVER_assert(!illegal, "C20 multi-signal: wait changes the signal only by (c,RAISED)->(c+1,NULL) or (c,h)->(c+1,self) with self->next == h, applied atomically to the CURRENT (counter, head) pair (no single-word update, nothing computed from a stale snapshot: it would drop waiters enqueued meanwhile)");
  __CPROVER_assert(n_changes == 1 && did_accept + did_push == 1, "C20 multi-signal: wait performs exactly one transition");
  if (did_accept) __CPROVER_assert(n_yield == 0, "C20 multi-signal: a wait that accepted a pending raise returns without sleeping");
  else __CPROVER_assert(n_yield == 1 && yield_ok, "C20 multi-signal: a wait that enqueued itself sleeps exactly once, WAITING, with the wake-up marker armed");
  __CPROVER_assert(n_sched == 0, "wait wakes nobody");
  WITNESS_END();
}

void h_raise(void) {
  setup();
  op_is_wait = 0;
  int r = fiber_multi_signal_raise(&S);
  env_on = 0;
  __CPROVER_assert(!illegal, "C20 multi-signal: raise changes the signal only by (c,NULL|RAISED)->(c+1,RAISED) or (c,h)->(c+1,h->next), applied atomically to the CURRENT (counter, head) pair");
  __CPROVER_assert(n_changes == 1 && did_raise + did_take == 1, "C20 multi-signal: raise performs exactly one transition");
  if (did_take) __CPROVER_assert(r == 1 && n_sched == 1 && sched_fiber == (fiber_t*)taken->data && sched_fiber->state == FIBER_STATE_READY, "C20 multi-signal: a raise that took a waiter releases exactly that waiter (one, not two)");
  else __CPROVER_assert(r == 0 && n_sched == 0, "C20 multi-signal: a raise that found no waiter leaves the signal raised for the next wait and wakes nobody");
  WITNESS_END();
}
