/* E1 harness for C13 (MPMC FIFO): ONE real mpmc_fifo_push / mpmc_fifo_trypop (include/mpmc_fifo.h, with the real
 * hazard_pointer_using / done_using / free of include/hazard_pointer.h, all unmodified) executed against an ENVIRONMENT that
 * performs other threads' pushes, pops, link completions and node reclamation + reuse at every point where the real code
 * touches shared memory.  The queue state the operation starts from is produced by the real mpmc_fifo_init followed by up to
 * PRE_ENV arbitrary environment actions (so only reachable states are used).
 *
 * Environment points (macro redirects placed between the library headers, library untouched): after every atomic_load_explicit,
 * before and after every compare-exchange of mpmc_fifo.h, before every hazard_pointer_using, at its store_load_barrier() (hazard
 * pointer just published) and after every hazard_pointer_done_using - i.e. between any two
 * consecutive accesses of the real code to shared memory (load / hazard publication / validation load / plain read of
 * head->prev or prev->value / compare-exchange / link store) there is exactly one environment point.  At each point the
 * environment may perform one action (at most ENV_BUDGET during the operation):
 *   pop      head moves to its linked successor, the old dummy is RETIRED (remembering whether OUR hazard slots covered it then);
 *            optionally it is reclaimed at once, and optionally recycled as the new tail at once (compound actions keep the
 *            action budget small: the classic head ABA is pop+reclaim+reuse, pop)
 *   push     a FREE pool node (possibly one that was reclaimed earlier: reuse/ABA) becomes the tail; its link is still missing
 *   link     a missing prev link of another pusher is completed
 *   reclaim  a RETIRED node not covered by a hazard pointer we published BEFORE its retirement becomes FREE and its fields are
 *            overwritten with arbitrary values (this is the hazard-pointer contract of C14: protected nodes are not reclaimed,
 *            everything else may be reclaimed and reused at any time)
 * Weak compare-exchange may also fail spuriously (SPUR_BUDGET).
 * Checked (ghost queue = the sequence of nodes from the dummy head to the tail):
 *   - trypop: its successful compare-exchange moves head from the current head to its TRUE linked successor (never to a
 *     reclaimed/reused or unrelated node), it returns exactly the value pushed with that successor (FIFO position, exactly once),
 *     retires the old head exactly once; it returns NULL only if at some environment point during the call the queue was empty
 *     or a push was still in flight (a link missing);
 *   - push: exactly one successful compare-exchange appends the new node to the current tail; the link is then written into
 *     that old tail (and nowhere else) before push returns;
 *   - at every environment point the whole structure is intact: links that exist are correct, missing links are NULL, the
 *     tail has no successor, stored values are unchanged, reclaimed nodes were not written by the operation. */
#include <stdatomic.h>
#include <stdint.h>
#include <stdlib.h>
#include "machine_specific.h"

static void env_point(void);
#define store_load_barrier() env_point()   /* inside hazard_pointer_using: right after the hazard pointer became visible */
#include "hazard_pointer.h"

static inline void v_using(hazard_pointer_thread_record_t* h, hazard_node_t* n, size_t i) { env_point(); hazard_pointer_using(h, n, i); }
static inline void v_done_using(hazard_pointer_thread_record_t* h, size_t i) { hazard_pointer_done_using(h, i); env_point(); }
static void v_free(hazard_pointer_thread_record_t* h, hazard_node_t* n);
#define hazard_pointer_using(h, n, i) v_using((h), (n), (i))
#define hazard_pointer_done_using(h, i) v_done_using((h), (i))
#define hazard_pointer_free(h, n) v_free((h), (n))

struct mpmc_fifo_node;
static int verif_cas(struct mpmc_fifo_node* volatile* o, struct mpmc_fifo_node** e, struct mpmc_fifo_node* d);
#undef atomic_load_explicit
#undef atomic_load
#undef atomic_compare_exchange_weak_explicit
#undef atomic_compare_exchange_strong_explicit
#undef atomic_compare_exchange_weak
#undef atomic_compare_exchange_strong
#define atomic_load_explicit(o, m) ({ __typeof__(__atomic_load_n((o), __ATOMIC_SEQ_CST)) _v = __atomic_load_n((o), __ATOMIC_SEQ_CST); env_point(); _v; })
#define atomic_compare_exchange_weak_explicit(o, e, d, s, f) verif_cas((struct mpmc_fifo_node* volatile*)(o), (e), (d))
#define atomic_compare_exchange_strong_explicit(o, e, d, s, f) verif_cas((struct mpmc_fifo_node* volatile*)(o), (e), (d))
#define atomic_compare_exchange_weak(o, e, d) verif_cas((struct mpmc_fifo_node* volatile*)(o), (e), (d))
#define atomic_compare_exchange_strong(o, e, d) verif_cas((struct mpmc_fifo_node* volatile*)(o), (e), (d))
#define atomic_load(o) atomic_load_explicit((o), memory_order_seq_cst)

#include "mpmc_fifo.h" /* real code */

int nondet_int(void);
unsigned nondet_uint(void);
_Bool nondet_bool(void);

#ifndef NP
#define NP 4            /* pool nodes used by the environment (incl. the initial dummy) */
#endif
#ifndef ENV_BUDGET
#define ENV_BUDGET 3
#endif
#ifndef PRE_ENV
#define PRE_ENV 4
#endif
#ifndef ENV_PER_POINT
#define ENV_PER_POINT 1   /* environment actions per environment point */
#endif
#ifndef SPUR_BUDGET
#define SPUR_BUDGET 1
#endif
#define MINE NP         /* index of the node pushed by the operation under test */

/* nodes are separate objects (not one array): CBMC then keeps every field of every node as its own symbol */
#ifdef REAL_FREE
/* variant for "never dereferences a reclaimed node" (C14): nodes are heap objects and reclamation is a real free(), so CBMC's own
   pointer checks flag any access of the real code to a reclaimed node (reclaimed nodes are not reused in this variant) */
static mpmc_fifo_node_t *p0, *p1, *p2, *p3, *p4;
static mpmc_fifo_node_t* node(int i) { return i == 0 ? p0 : i == 1 ? p1 : i == 2 ? p2 : i == 3 ? p3 : p4; }
#else
static mpmc_fifo_node_t n0, n1, n2, n3, n4;
static mpmc_fifo_node_t* node(int i) { return i == 0 ? &n0 : i == 1 ? &n1 : i == 2 ? &n2 : i == 3 ? &n3 : &n4; }
#endif
static mpmc_fifo_node_t poison;
static mpmc_fifo_t F;
static struct { hazard_pointer_thread_record_t r; hazard_node_t* slots[2]; } H;

enum { ST_FREE = 0, ST_INQ, ST_OURS, ST_RETIRED, ST_GONE };
static int st[NP + 1];
static _Bool covered_at_retire[NP + 1];
static mpmc_fifo_node_t* free_prev[NP + 1];
static void* gval[NP + 1];
static int q[NP + 2], len;     /* ghost queue: q[0] dummy head ... q[len-1] tail (pool indexes) */
static _Bool pend[NP + 2];     /* pend[i]: the link q[i] -> q[i+1] has not been written yet */
static uintptr_t next_val = 1;
static int env_budget, spur_budget, in_op;
static int my_link_from = -1;  /* node whose prev link the operation under test still owes */
static _Bool saw_empty_or_inflight;
static int n_pop_lin, n_push_lin, n_free_calls, popped_old = -1;
static void* lin_value;

/* the property's wording: "empty at some instant during the call or a push was still in flight" (any push, not only the oldest) */
static _Bool empty_or_inflight(void) {
  if (len == 1) return 1;
  for (int i = 0; i < NP + 1; i++) { if (i >= len - 1) break; if (pend[i]) return 1; }
  return 0;
}
static _Bool covered(int n) { return H.slots[0] == &node(n)->hazard || H.slots[1] == &node(n)->hazard; }
static void gc_nop(void* d, hazard_node_t* n) {}
void hazard_pointer_scan(hazard_pointer_thread_record_t* hptr) {}   /* retire threshold is never reached in one operation */

static void check_structure(void) {
  __CPROVER_assert(len >= 1 && len <= NP + 1, "ghost: length in range");
  __CPROVER_assert(F.head == node(q[0]), "C13 structure: head is the oldest node (dummy) of the queue");
  __CPROVER_assert(F.tail == node(q[len - 1]), "C13 structure: tail is the most recently appended node");
  for (int i = 0; i < NP + 1; i++) {
    if (i >= len - 1) break;
    mpmc_fifo_node_t* n = node(q[i]);
    if (!pend[i]) {
      __CPROVER_assert(n->prev == node(q[i + 1]), "C13 structure: an existing link leads to the node appended next");
    } else if (my_link_from == q[i] && n->prev == node(q[i + 1])) {
      pend[i] = 0;          /* the operation under test completed its own link */
      my_link_from = -1;
    } else {
      __CPROVER_assert(n->prev == 0, "C13 structure: a link that was not written yet is NULL");
    }
  }
  __CPROVER_assert(node(q[len - 1])->prev == 0, "C13 structure: the tail has no successor");
  for (int i = 0; i < NP + 1; i++) {
    if (st[i] == ST_FREE && i != MINE) __CPROVER_assert(node(i)->prev == free_prev[i], "C13: the operation does not write into a reclaimed node");
    if (st[i] == ST_INQ && i != q[0]) __CPROVER_assert(node(i)->value == gval[i], "C13 structure: stored values are unchanged");
    if (st[i] == ST_RETIRED && covered_at_retire[i] && !covered(i)) covered_at_retire[i] = 0;
  }
  if (empty_or_inflight()) saw_empty_or_inflight = 1;
}

static int pick_node(int want) {
  int n = nondet_int();
  __CPROVER_assume(n >= 0 && n < NP && st[n] == want);
  return n;
}

static void do_reclaim(int n) {   /* a scan reclaims a retired node that we do not protect; its memory is reused for anything */
  __CPROVER_assume(st[n] == ST_RETIRED && !(covered_at_retire[n] && covered(n)));
#ifdef REAL_FREE
  st[n] = ST_GONE;
  free(node(n));
  return;
#endif
  st[n] = ST_FREE;
  unsigned k = nondet_uint() % (NP + 3);
  node(n)->prev = k <= NP ? node(k) : (k == NP + 1 ? 0 : &poison);
  free_prev[n] = node(n)->prev;
  node(n)->value = (void*)(uintptr_t)nondet_uint();
  node(n)->next = 0;
}

static void do_push(int n) {
  __CPROVER_assume(st[n] == ST_FREE && len <= NP);
  node(n)->value = (void*)(next_val++);
  gval[n] = node(n)->value;
  node(n)->prev = 0;
  node(n)->next = node(q[len - 1]);
  F.tail = node(n);
  pend[len - 1] = 1;
  q[len++] = n;
  st[n] = ST_INQ;
  if (nondet_bool() && my_link_from != q[len - 2]) { node(q[len - 2])->prev = node(n); pend[len - 2] = 0; }
}

static void env_action(void) {
  unsigned a = nondet_uint() % 4;
  if (a == 0) {          /* another thread pops (and its scan may reclaim the old dummy right away) */
    __CPROVER_assume(len >= 2 && !pend[0]);
    int old = q[0];
    for (int i = 0; i < NP + 1; i++) { if (i + 1 >= len) break; q[i] = q[i + 1]; pend[i] = pend[i + 1]; }
    len--;
    F.head = node(q[0]);
    st[old] = ST_RETIRED;
    covered_at_retire[old] = covered(old);
    if (nondet_bool()) {
      do_reclaim(old);
      if (nondet_bool()) do_push(old);   /* ... and a pusher recycles it as the new tail straight away */
    }
  } else if (a == 1) {   /* another thread pushes a fresh or recycled node: tail swapped, link possibly still missing */
    do_push(pick_node(ST_FREE));
  } else if (a == 2) {   /* another pusher completes its link */
    int i = nondet_int();
    __CPROVER_assume(i >= 0 && i < len - 1 && pend[i] && my_link_from != q[i]);
    node(q[i])->prev = node(q[i + 1]);
    pend[i] = 0;
  } else {
    do_reclaim(pick_node(ST_RETIRED));
  }
}

static void env_point(void) {
  if (!in_op) return;
  for (int k = 0; k < ENV_PER_POINT; k++) {
    if (env_budget > 0 && nondet_bool()) {
      env_budget--;
      if (k == 0) check_structure();   /* damage done by the operation since the last check is still there: the environment never repairs */
      env_action();
      if (empty_or_inflight()) saw_empty_or_inflight = 1;
    } else break;
  }
}

static int verif_cas(struct mpmc_fifo_node* volatile* o, struct mpmc_fifo_node** e, struct mpmc_fifo_node* d) {
  env_point();
  if (spur_budget > 0 && nondet_bool()) { spur_budget--; *e = *o; return 0; }
  if (*o != *e) { *e = *o; return 0; }
  if (o == (struct mpmc_fifo_node* volatile*)&F.head) {
    __CPROVER_assert(len >= 2 && !pend[0] && d == node(q[1]), "C13 pop: the compare-exchange moves head to its true linked successor (not to a reclaimed, reused or unrelated node)");
    lin_value = gval[q[1]];
    popped_old = q[0];
    for (int i = 0; i < NP + 1; i++) { if (i + 1 >= len) break; q[i] = q[i + 1]; pend[i] = pend[i + 1]; }
    len--;
    st[popped_old] = ST_OURS;
    n_pop_lin++;
  } else {
    __CPROVER_assert(o == (struct mpmc_fifo_node* volatile*)&F.tail && d == node(MINE) && n_push_lin == 0, "C13 push: the compare-exchange appends the new node, once");
    __CPROVER_assert(node(MINE)->prev == 0 && node(MINE)->value == gval[MINE], "C13 push: the new node is published with its value and without a successor");
    pend[len - 1] = 1;
    my_link_from = q[len - 1];
    q[len++] = MINE;
    st[MINE] = ST_INQ;
    n_push_lin++;
  }
  *o = d;
  if (empty_or_inflight()) saw_empty_or_inflight = 1;
  env_point();
  return 1;
}

static void v_free(hazard_pointer_thread_record_t* h, hazard_node_t* n) {
  __CPROVER_assert(popped_old >= 0 && n == &node(popped_old)->hazard && st[popped_old] == ST_OURS, "C13 pop: exactly the old head it unlinked is retired");
  n_free_calls++;
  (hazard_pointer_free)(h, n);
  st[popped_old] = ST_RETIRED;
  covered_at_retire[popped_old] = covered(popped_old);
}

static void setup(void) {
#ifdef REAL_FREE
  p0 = malloc(sizeof(mpmc_fifo_node_t)); p1 = malloc(sizeof(mpmc_fifo_node_t)); p2 = malloc(sizeof(mpmc_fifo_node_t)); p3 = malloc(sizeof(mpmc_fifo_node_t)); p4 = malloc(sizeof(mpmc_fifo_node_t));
  __CPROVER_assume(p0 && p1 && p2 && p3 && p4);
#endif
  for (int i = 0; i <= NP; i++) { node(i)->hazard.gc_function = gc_nop; st[i] = ST_FREE; node(i)->prev = &poison; free_prev[i] = &poison; }
  H.r.hazard_pointers_count = 2;
  H.r.retire_threshold = 1000;
  mpmc_fifo_init(&F, node(0));   /* real */
  q[0] = 0; len = 1; st[0] = ST_INQ;
  in_op = 1;
  check_structure();
  /* arbitrary reachable pre-state */
  env_budget = 0;
  for (int k = 0; k < PRE_ENV; k++) { if (nondet_bool()) { env_action(); check_structure(); } }
  saw_empty_or_inflight = empty_or_inflight();
  env_budget = ENV_BUDGET;
  spur_budget = SPUR_BUDGET;
}

void h_trypop(void) {
  setup();
  void* r = mpmc_fifo_trypop(&H.r, &F);
  in_op = 0;
  check_structure();
  if (r) {
    __CPROVER_assert(n_pop_lin == 1 && r == lin_value, "C13 pop: returns exactly the value pushed with the node that became the new head (FIFO order, exactly once)");
    __CPROVER_assert(n_free_calls == 1, "C13 pop: the unlinked old head is retired exactly once");
  } else {
    __CPROVER_assert(n_pop_lin == 0 && n_free_calls == 0, "C13 pop: reporting empty removes nothing");
    __CPROVER_assert(saw_empty_or_inflight, "C13 pop: empty is reported only if the queue was empty, or a push still in flight, at some instant during the call");
  }
#ifdef WITNESS
  __CPROVER_assert(!(r && env_budget == 0), "witness: a successful pop after all environment actions is reachable");
#endif
}

void h_push(void) {
  setup();
  node(MINE)->value = (void*)(next_val++);
  gval[MINE] = node(MINE)->value;
  st[MINE] = ST_OURS;
  mpmc_fifo_push(&H.r, &F, node(MINE));
  in_op = 0;
  check_structure();
  __CPROVER_assert(n_push_lin == 1, "C13 push: the node was appended exactly once");
  __CPROVER_assert(my_link_from == -1, "C13 push: the link from the previous tail to the new node is written before push returns (and into that node)");
#ifdef WITNESS
  __CPROVER_assert(env_budget != 0, "witness: a push completing after all environment actions is reachable");
#endif
}
