/* Native reproducer for C09: fiber_event_wake_sleepers() reads `to_wake->next` AFTER it handed the
 * sleeper to the scheduler:
 *
 *       fiber_manager_schedule(manager, to_schedule);
 *       to_wake = to_wake->next;            // <- node lives in the woken fiber's fiber_sleep() frame
 *
 * The waiter_el_t is the local `wake_info` of fiber_sleep().  Once the sleeper is in a run queue another
 * kernel thread may run it (work stealing), it returns from fiber_sleep() and reuses that stack area;
 * the waker then follows a garbage `next` pointer and "wakes" whatever it points to (or crashes).
 *
 * This program compiles the REAL, unmodified src/fiber_event_native.c and src/fiber_spinlock.c into a
 * unit-style test (so the static fiber_event_wake_sleepers is callable) and replaces only the
 * scheduler environment: fibers are ucontext coroutines, fiber_manager_yield() switches back to main,
 * and fiber_scheduler_schedule() plays "another thread picks the fiber up immediately" by running the
 * woken fiber synchronously until it has returned from fiber_sleep() and called one more function.
 * That is one legal interleaving of the real multi-threaded scheduler, made deterministic.
 *
 * build: gcc -O1 -g -DNDEBUG -D_GNU_SOURCE -I/repo/include -I/repo/src wake_reads_dead_node.c -ldl -o wake_reads_dead_node
 * exit status 1 + "REPRODUCED" when the scheduler is handed a pointer that was read from the dead frame. */
#include <dlfcn.h>
#include <stdio.h>
#include <stdlib.h>
#include <string.h>
#include <ucontext.h>

#include "fiber_spinlock.c"     /* REAL */
#include "fiber_event_native.c" /* REAL */

static fiber_manager_t mgr;
static fiber_scheduler_t sched_obj;
static fiber_t fiber_a;   /* the sleeper */
static fiber_t trap_fiber; /* never sleeps, is never registered */
static waiter_el_t trap_node = {0, &trap_fiber, NULL, NULL, NULL};
static ucontext_t main_ctx, a_ctx;
static int a_returned_from_sleep, trap_scheduled, a_scheduled;

fiber_manager_t* fiber_manager_get(void) { return &mgr; }
void* fiber_load_symbol(const char* s) { return dlsym(RTLD_NEXT, s); }
void fiber_do_real_sleep(uint32_t s, uint32_t us) { (void)s; (void)us; abort(); }

void fiber_manager_yield(fiber_manager_t* m) {
  /* deferred unlock as fiber_manager_do_maintenance() does after the switch */
  if (m->spinlock_to_unlock) {
    fiber_spinlock_t* l = m->spinlock_to_unlock;
    m->spinlock_to_unlock = NULL;
    fiber_spinlock_unlock(l);
  }
  swapcontext(&a_ctx, &main_ctx); /* suspended until somebody runs this fiber again */
}

/* ordinary application code the fiber runs after its sleep: it uses its own stack */
static void __attribute__((noinline)) fiber_keeps_working(void) {
  volatile uintptr_t locals[256];
  for (int i = 0; i < 256; ++i) locals[i] = (uintptr_t)&trap_node;
  (void)locals[17];
}

static void fiber_a_main(void) {
  fiber_sleep(0, 1000); /* REAL */
  a_returned_from_sleep = 1;
  fiber_keeps_working();
  swapcontext(&a_ctx, &main_ctx); /* parks forever */
}

void fiber_scheduler_schedule(fiber_scheduler_t* s, fiber_t* f) {
  (void)s;
  if (f == &trap_fiber) {
    trap_scheduled++;
    return;
  }
  if (f == &fiber_a) {
    a_scheduled++;
    /* another kernel thread steals the READY fiber and runs it right away */
    ucontext_t waker_ctx = main_ctx; /* keep main's suspended context */
    swapcontext(&main_ctx, &a_ctx);
    main_ctx = waker_ctx;
    return;
  }
  printf("scheduler was handed an unknown pointer %p\n", (void*)f);
  trap_scheduled++;
}

int main(void) {
  if (fiber_event_init() != FIBER_SUCCESS) { /* REAL: creates the timerfd / epoll fd */
    printf("fiber_event_init failed\n");
    return 2;
  }
  mgr.scheduler = &sched_obj;
  mgr.current_fiber = &fiber_a;
  fiber_a.state = FIBER_STATE_RUNNING;

  static char stack_a[256 * 1024];
  getcontext(&a_ctx);
  a_ctx.uc_stack.ss_sp = stack_a;
  a_ctx.uc_stack.ss_size = sizeof(stack_a);
  a_ctx.uc_link = NULL;
  makecontext(&a_ctx, fiber_a_main, 0);

  swapcontext(&main_ctx, &a_ctx); /* run fiber A until it is suspended inside the REAL fiber_sleep */
  printf("fiber A sleeps: wake_time=%lu, timer_trigger_count=%lu\n",
         (unsigned long)sleepers->wake_time, (unsigned long)timer_trigger_count);

  /* the poller: 3 timer expirations -> A is due (wake_time = 0 + 2 < 3) */
  fiber_event_wake_sleepers(&mgr, 3); /* REAL */

  printf("fiber A scheduled %d time(s), returned from fiber_sleep: %d, never-registered trap fiber scheduled %d time(s)\n",
         a_scheduled, a_returned_from_sleep, trap_scheduled);
  if (trap_scheduled) {
    printf("REPRODUCED: fiber_event_wake_sleepers followed to_wake->next read from the dead fiber_sleep frame "
           "and scheduled a fiber that never slept\n");
    return 1;
  }
  printf("not reproduced\n");
  return 0;
}
