/* Native reproducer for C09: timer expirations that fired BEFORE fiber_sleep() was called but were not
 * yet read from the timerfd (manager threads poll events only when they have no runnable fiber) are
 * added to timer_trigger_count AFTER the sleeper computed wake_time = timer_trigger_count + sleep_ms.
 * They are credited to the sleeper although no time has passed for it, so a fiber that computes for a
 * while and then sleeps is resumed early.  Here: one manager thread, the fiber spins for 600 ms
 * (= 120 unread expirations), then usleep(100000) (100 ms -> sleep_ms = 101 -> needs 102 ticks):
 * the next poll adds >= 120 ticks at once and the fiber is resumed after a few ms instead of >= 100 ms.
 * Links the REAL library, nothing is modified.
 *
 * build: gcc -O1 -DFIBER_STACK_SPLIT -fsplit-stack -I/repo/include sleep_pending_ticks_early.c /repo/_build/libfiber.a -lpthread -ldl -o sleep_pending_ticks_early */
#include <stdio.h>
#include <stdint.h>
#include <time.h>
#include <unistd.h>
#include "fiber_manager.h"
#include "fiber_event.h"

static double now_s(void) {
  struct timespec ts;
  clock_gettime(CLOCK_MONOTONIC, &ts);
  return ts.tv_sec + ts.tv_nsec / 1e9;
}

static double elapsed;
static const unsigned req_us = 100000;

static void* worker(void* p) {
  (void)p;
  usleep(20000); /* settle: let the poller catch up once */
  double t = now_s();
  while (now_s() - t < 0.6) { /* compute without yielding: nobody polls the timerfd */
  }
  double t0 = now_s();
  usleep(req_us); /* REAL shim -> REAL fiber_sleep(0, 100000) */
  elapsed = now_s() - t0;
  return NULL;
}

int main(void) {
  fiber_manager_init(1);
  fiber_t* f = fiber_create(100000, &worker, NULL);
  fiber_join(f, NULL);
  printf("requested %u us, fiber was resumed after %.0f us\n", req_us, elapsed * 1e6);
  int early = elapsed * 1e6 < (double)req_us;
  printf(early ? "REPRODUCED: sleeping fiber woke before the requested duration (expirations pending at the call were credited)\n"
               : "not reproduced\n");
  fiber_shutdown();
  return early ? 1 : 0;
}
