/* Native reproducer for C09: the nanosleep() shim passes rqtp->tv_sec (64-bit time_t) to
 * fiber_sleep(uint32_t seconds, ...): values >= 2^32 are truncated.  nanosleep({2^32 s, 0}) (136 years,
 * e.g. a "sleep forever" idiom with a huge tv_sec) becomes fiber_sleep(0, 1) and returns after ~10 ms.
 * build: gcc -O1 -DFIBER_STACK_SPLIT -fsplit-stack -I/repo/include nanosleep_tvsec_truncated.c /repo/_build/libfiber.a -lpthread -ldl -o nanosleep_tvsec_truncated */
#include <stdio.h>
#include <stdint.h>
#include <time.h>
#include <unistd.h>
#include "fiber_manager.h"

static double now_s(void) {
  struct timespec ts;
  clock_gettime(CLOCK_MONOTONIC, &ts);
  return ts.tv_sec + ts.tv_nsec / 1e9;
}
static double elapsed;
static struct timespec req = {(time_t)1 << 32, 0};

static void* sleeper(void* p) {
  (void)p;
  double t0 = now_s();
  nanosleep(&req, NULL); /* REAL shim of fiber_io.c */
  elapsed = now_s() - t0;
  return NULL;
}

int main(void) {
  fiber_manager_init(1);
  fiber_t* f = fiber_create(100000, &sleeper, NULL);
  fiber_join(f, NULL);
  printf("requested %ld s, fiber was resumed after %.3f s\n", (long)req.tv_sec, elapsed);
  int early = elapsed < (double)req.tv_sec;
  printf(early ? "REPRODUCED: nanosleep woke before the requested duration (tv_sec truncated to 32 bits)\n" : "not reproduced\n");
  fiber_shutdown();
  return early ? 1 : 0;
}
