/* Native reproducer for C09: fiber_sleep() computes `seconds * 1000 + useconds / 1000 + 1` in 32-bit
 * arithmetic (uint32_t operands), so for seconds*1000 + useconds/1000 + 1 >= 2^32 the tick count wraps
 * and a very long sleep returns early.  sleep(4294968) (49.7 days) wraps to 705 ticks of 5 ms and
 * returns after about 3.5 s.  Links the REAL library (/repo/_build/libfiber.a), nothing is modified.
 *
 * build: gcc -O1 -DFIBER_STACK_SPLIT -fsplit-stack -I/repo/include sleep_wrap_early.c /repo/_build/libfiber.a -lpthread -ldl -o sleep_wrap_early
 * exit status 1 + "REPRODUCED" when the sleeper woke before the requested duration. */
#include <stdio.h>
#include <stdint.h>
#include <time.h>
#include <unistd.h>
#include "fiber_manager.h"
#include "fiber_event.h"

static double now_s(void) {
  struct timespec ts;
  clock_gettime(CLOCK_MONOTONIC, &ts);
  return ts.tv_sec + ts.tv_nsec / 1e9;
}

static uint32_t req_seconds = 4294968u; /* 4294968 * 1000 = 2^32 + 704 */
static double elapsed;

static void* sleeper(void* p) {
  (void)p;
  double t0 = now_s();
  sleep(req_seconds); /* REAL shim of fiber_io.c -> REAL fiber_sleep(seconds, 0) */
  elapsed = now_s() - t0;
  return NULL;
}

int main(void) {
  fiber_manager_init(1);
  fiber_t* f = fiber_create(100000, &sleeper, NULL);
  fiber_join(f, NULL);
  printf("requested %u s, fiber was resumed after %.3f s\n", req_seconds, elapsed);
  int early = elapsed < (double)req_seconds;
  printf(early ? "REPRODUCED: sleeping fiber woke before the requested duration (32-bit wrap of seconds*1000)\n"
               : "not reproduced\n");
  fiber_shutdown();
  return early ? 1 : 0;
}
