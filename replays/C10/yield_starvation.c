/* C10 reproducer: one kernel thread, three fibers + the main fiber, everybody only yields.
 * build: gcc yield_starvation.c -I/repo/include /repo/_build/libfiber.a -fsplit-stack -lpthread -ldl -o ys && ./ys */
#include <stdio.h>
#include "fiber_manager.h"
static volatile long runs[3];
static volatile int stop;
static void* body(void* p) {
  long i = (long)p;
  while (!stop) { runs[i]++; fiber_yield(); }
  return NULL;
}
int main(void) {
  fiber_manager_init(1);
  fiber_t* f[3];
  for (long i = 0; i < 3; i++) f[i] = fiber_create(102400, body, (void*)i);
  for (int s = 0; s < 100000; s++) fiber_yield();
  printf("after 100000 yields of the main fiber: runs = %ld %ld %ld\n", runs[0], runs[1], runs[2]);
  int starved = runs[0] == 0 || runs[1] == 0 || runs[2] == 0;
  printf(starved ? "REPRODUCED: a ready fiber never ran although every other fiber kept yielding\n" : "NOT REPRODUCED\n");
  return starved;
}
