/* Native cross-check of the bit-field layout that the E1 oracle (shift/mask decode) and CBMC
 * (h_layout) assume: with the pinned compiler (gcc, x86-64) write_locked is bit 0, then
 * reader_count / waiting_readers / waiting_writers of 21 bits each; the union is 8 bytes.
 *
 *   gcc -O1 -I/repo/include -o /tmp/c07_layout /verif/replays/C07/layout_native.c && /tmp/c07_layout
 * (also try clang-14).  Prints "layout OK" and exits 0, or the first mismatch and exits 1.
 * This is not a sampling check of the property; it only confirms that the native ABI agrees with
 * the layout the solver proved the transition relation for.  Single-bit / boundary patterns are
 * exhaustive for a pure layout question (each bit of the word belongs to exactly one field). */
#include <stdint.h>
#include <stdio.h>
#include "fiber_rwlock.h"

static int check(uint64_t b) {
  fiber_rwlock_state_t s;
  s.blob = b;
  unsigned wl = (unsigned)(b & 1), rc = (unsigned)((b >> 1) & 0x1FFFFF), wr = (unsigned)((b >> 22) & 0x1FFFFF),
           ww = (unsigned)((b >> 43) & 0x1FFFFF);
  if (s.state.write_locked != wl || s.state.reader_count != rc || s.state.waiting_readers != wr ||
      s.state.waiting_writers != ww) {
    printf("MISMATCH blob=%#llx fields=(%u,%u,%u,%u) expected=(%u,%u,%u,%u)\n", (unsigned long long)b,
           s.state.write_locked, s.state.reader_count, s.state.waiting_readers, s.state.waiting_writers, wl, rc, wr, ww);
    return 1;
  }
  fiber_rwlock_state_t t;
  t.blob = ~b;
  t.state.write_locked = wl;
  t.state.reader_count = rc;
  t.state.waiting_readers = wr;
  t.state.waiting_writers = ww;
  if (t.blob != b) {
    printf("MISMATCH composing fields (%u,%u,%u,%u): blob=%#llx expected=%#llx\n", wl, rc, wr, ww,
           (unsigned long long)t.blob, (unsigned long long)b);
    return 1;
  }
  return 0;
}

int main(void) {
  if (sizeof(fiber_rwlock_state_t) != 8) {
    printf("MISMATCH sizeof(fiber_rwlock_state_t)=%zu\n", sizeof(fiber_rwlock_state_t));
    return 1;
  }
  int bad = 0;
  bad |= check(0);
  bad |= check(~0ull);
  for (int i = 0; i < 64 && !bad; i++) { /* every single bit, and every all-ones prefix */
    bad |= check(1ull << i);
    bad |= check((1ull << i) - 1);
    bad |= check(~(1ull << i));
  }
  if (!bad) printf("layout OK: write_locked=bit0, reader_count=bits1..21, waiting_readers=bits22..42, waiting_writers=bits43..63, sizeof=8\n");
  return bad;
}
