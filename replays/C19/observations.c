/* Native demonstrations of two OBSERVATIONS made while building the C19 checks.  Neither is a C19 violation
 * (C19 quantifies over documented stack sizes and over the stack of a fiber that was created); they are recorded
 * in /verif/e1/C19/NOTES.md.
 *  (a) fiber_context_init has no lower bound on stack_size: with the malloc strategy every size < 88 makes it
 *      write its initial frame BELOW the malloc'ed block (FIBER_MIN_STACK_SIZE is only a documented constant).
 *      CBMC: `cbmc ctx_e1.c ... --function h_init_small_ok_malloc` with the assumption changed to 16 <= sz < 88
 *      reports "pointer outside object bounds" in fiber_context_init.
 *  (b) fiber_create_no_sched leaks the mpsc node when fiber_context_init fails (size 0 here; mmap/mprotect
 *      failure with the mmap strategy): it frees only the control block.
 * Real code: /repo/src/fiber_context.c and /repo/src/fiber.c, included with malloc/calloc/free renamed to counting
 * wrappers.
 * build/run: gcc -O1 -DNDEBUG -DFIBER_FAST_SWITCHING -DFIBER_STACK_MALLOC -D_GNU_SOURCE -I/repo/include -I/repo/src \
 *                observations.c -o /tmp/c19_obs && /tmp/c19_obs */
#include <stdio.h>
#include <stdlib.h>
#include <string.h>
#include <errno.h>
#include <assert.h>
#include <stdint.h>
#include <unistd.h>
#include <sys/mman.h>

static int live_blocks;
static unsigned char arena[4096] __attribute__((aligned(16)));
static int use_arena;
static void* my_malloc(size_t n) {
  if (use_arena) { memset(arena, 0xAA, sizeof arena); return arena + 2048; } /* 16-aligned block with canaries around it */
  live_blocks++;
  return malloc(n);
}
static void* my_calloc(size_t a, size_t b) { live_blocks++; return calloc(a, b); }
static void my_free(void* p) { if (p && p != arena + 2048) { live_blocks--; free(p); } }
#define malloc my_malloc
#define calloc my_calloc
#define free my_free
#include "fiber_context.c"
#include "fiber.c"
#undef malloc
#undef calloc
#undef free

/* fiber.c references the manager; never called here */
fiber_manager_t* fiber_manager_get() { return 0; }
void fiber_manager_yield(fiber_manager_t* m) {}
void fiber_manager_do_maintenance() {}
void fiber_manager_set_and_wait(fiber_manager_t* m, void** l, void* v) {}
void* fiber_manager_clear_or_wait(fiber_manager_t* m, _Atomic(void*)* l) { return 0; }
void fiber_scheduler_schedule(fiber_scheduler_t* s, fiber_t* f) {}

static void* fn(void* p) { return p; }

int main(void) {
  int shown = 0;
  printf("(a) fiber_context_init with undocumented tiny sizes, malloc strategy\n");
  for (size_t sz = 96; sz >= 16; sz -= 8) {
    fiber_context_t c;
    use_arena = 1;
    int r = fiber_context_init(&c, sz, &fn, (void*)0x1234);
    use_arena = 0;
    int below = 0;
    for (int i = 0; i < 2048; i++) below += arena[i] != 0xAA;
    printf("  size %3zu: init returned %d, ctx_stack_pointer - ctx_stack = %4ld, bytes modified BELOW the block: %d%s\n", sz, r,
           (long)((char*)c.ctx_stack_pointer - (char*)c.ctx_stack), below, below ? "   <== heap underflow" : "");
    shown |= below != 0;
  }
  printf("(b) fiber_create_no_sched(0, fn, 0): ");
  int before = live_blocks;
  fiber_t* f = fiber_create_no_sched(0, &fn, 0);
  printf("returned %p, heap blocks still allocated afterwards: %d (the mpsc node)%s\n", (void*)f, live_blocks - before,
         live_blocks - before ? "   <== leak" : "");
  return !(shown && live_blocks - before == 1);
}
