/* Native reproducer for the E1 finding "mmap strategy: mapping length >= requested stack size + one guard page"
 * (job e1.mmap_usable_ge_requested, harness h_mmap_usable_ge_requested in /verif/e1/C19/ctx_e1.c).
 *
 * Real code: /repo/src/fiber_context.c compiled with -DFIBER_STACK_MMAP -DFIBER_FAST_SWITCHING (included below).
 * fiber_round_to_page_size() works in units of (pagesize-50) bytes and maps floor(size/unit)+1 units; the lowest
 * real page of the mapping is then turned into a PROT_NONE guard page.  The usable stack is therefore
 *     unit*(floor(size/unit)+1) - pagesize  =  size - 50 - (size mod unit)   <  size      (size >= unit)
 * Part 1 prints the numbers for a few requested sizes.
 * Part 2 starts a fiber on a stack requested with 102400 bytes whose function uses 101376 bytes (99 KiB, i.e.
 * 1 KiB LESS than requested) of locals: it dies with SIGSEGV in the guard page.
 *
 * build/run:  gcc -O1 -DNDEBUG -DFIBER_FAST_SWITCHING -DFIBER_STACK_MMAP -D_GNU_SOURCE -I/repo/include -I/repo/src \
 *                 mmap_usable_lt_requested.c -o /tmp/mmap_usable && /tmp/mmap_usable */
#include <signal.h>
#include <stdio.h>
#include <stdlib.h>
#include <string.h>
#include <unistd.h>

#include "fiber_context.c"

static fiber_context_t main_ctx, fib_ctx;
static size_t requested;

#define USED (99 * 1024)

static void* body(void* p) {
  volatile char buf[USED];
  /* touch from the top (high addresses) downwards, like a deepening call chain */
  for (long i = USED - 1; i >= 0; i -= 256) buf[i] = (char)i;
  printf("  fiber ran fine using %d bytes of locals\n", USED);
  fiber_context_swap(&fib_ctx, &main_ctx);
  return 0;
}

static void on_segv(int sig, siginfo_t* si, void* uc) {
  char* a = (char*)si->si_addr;
  char* base = (char*)fib_ctx.ctx_stack;
  long pg = sysconf(_SC_PAGESIZE);
  char msg[256];
  int n = snprintf(msg, sizeof msg,
                   "  SIGSEGV at %p: %s the PROT_NONE guard page [%p,%p) of a stack requested with %zu bytes,\n"
                   "  while the fiber function only uses %d bytes of locals  ==> REPRODUCED\n",
                   (void*)a, (a >= base && a < base + pg) ? "inside" : "OUTSIDE", (void*)base, (void*)(base + pg), requested, USED);
  write(1, msg, n);
  _exit(0);
}

int main(void) {
  setvbuf(stdout, 0, _IONBF, 0);
  long pg = sysconf(_SC_PAGESIZE);
  size_t sizes[] = {1024, 3996, 3997, 4046, 4096, 8192, 65536, 102400, 1048576};
  printf("part 1: fiber_context_init, mmap strategy, page size %ld\n", pg);
  for (unsigned i = 0; i < sizeof sizes / sizeof *sizes; i++) {
    fiber_context_t c;
    if (fiber_context_init(&c, sizes[i], &body, 0) != FIBER_SUCCESS) { perror("init"); return 2; }
    long usable = (long)c.ctx_stack_size - pg;
    printf("  requested %8zu  mapped(ctx_stack_size) %8zu  usable above guard page %8ld  %s\n", sizes[i], c.ctx_stack_size,
           usable, usable >= (long)sizes[i] ? "ok" : "LESS THAN REQUESTED");
    fiber_context_destroy(&c);
  }

  printf("part 2: run a fiber that needs 1 KiB less stack than it requested\n");
  static char altstack[65536];
  stack_t ss = {.ss_sp = altstack, .ss_size = sizeof altstack, .ss_flags = 0};
  sigaltstack(&ss, 0);
  struct sigaction sa;
  memset(&sa, 0, sizeof sa);
  sa.sa_sigaction = on_segv;
  sa.sa_flags = SA_SIGINFO | SA_ONSTACK;
  sigaction(SIGSEGV, &sa, 0);

  requested = 102400; /* FIBER_DEFAULT_STACK_SIZE */
  fiber_context_init_from_thread(&main_ctx);
  if (fiber_context_init(&fib_ctx, requested, &body, 0) != FIBER_SUCCESS) { perror("init"); return 2; }
  fiber_context_swap(&main_ctx, &fib_ctx);
  printf("  fiber returned normally ==> NOT reproduced\n");
  fiber_context_destroy(&fib_ctx);
  return 1;
}
