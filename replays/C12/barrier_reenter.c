// C12 reproducer (native, real library): barrier of count 3, fibers A, B, C on 3 kernel threads.
// Forced schedule (ld --wrap on fiber_manager_wait_in_mpsc_queue only; library sources untouched):
//   A enters round 0 first and is enqueued;  B enters round 0 second: its arrival is COUNTED, then it is held just before it
//   enqueues itself (the window the property names);  C enters round 0 last and is the serial fiber: it releases A and spins
//   for the second waiter;  A returns from round 0 and calls fiber_barrier_wait again at once (round 1).
// On the unmodified library A's round-1 entry lands in the same queue the serial fiber of round 0 is still draining: C pops A
// a second time, A returns from its 2nd wait although only ONE fiber has entered round 1  ->  exit 1.
// B is let go after A has returned from its 2nd wait or after 500 ms; then B and C also enter round 1 (the run completes if the
// barrier is correct: exit 0).
#define _GNU_SOURCE
#include <stdatomic.h>
#include <stdio.h>
#include <stdlib.h>
#include <time.h>
#include <unistd.h>
#include "fiber_barrier.h"
#include "fiber_manager.h"

static fiber_barrier_t barrier;
static fiber_t* fiber_of[3];
static _Atomic int arrived[2], returned[2], a_returns, b_in_window, a_enqueued_r0, hold_b = 1;

static long long now_ms(void) { struct timespec ts; clock_gettime(CLOCK_MONOTONIC, &ts); return ts.tv_sec * 1000ll + ts.tv_nsec / 1000000; }

void __real_fiber_manager_wait_in_mpsc_queue(fiber_manager_t* manager, mpsc_fifo_t* fifo);
void __wrap_fiber_manager_wait_in_mpsc_queue(fiber_manager_t* manager, mpsc_fifo_t* fifo) {
  if (manager->current_fiber == fiber_of[1] && atomic_load(&hold_b)) {   /* B, round 0: counted, not yet enqueued */
    atomic_store(&hold_b, 0);
    atomic_store(&b_in_window, 1);
    const long long deadline = now_ms() + 500;
    while (atomic_load(&a_returns) < 2 && now_ms() < deadline) __builtin_ia32_pause();   /* busy: keeps this kernel thread */
  }
  if (manager->current_fiber == fiber_of[0]) atomic_store(&a_enqueued_r0, 1);
  __real_fiber_manager_wait_in_mpsc_queue(manager, fifo);
}

static void one_wait(int who, int round) {
  atomic_fetch_add(&arrived[round], 1);
  fiber_barrier_wait(&barrier);
  if (who == 0) atomic_fetch_add(&a_returns, 1);
  const int n = atomic_load(&arrived[round]);
  if (n != 3) {
    fprintf(stderr, "C12 VIOLATED: fiber %c returned from its wait #%d although only %d of 3 fibers have entered round %d\n", "ABC"[who], round + 1, n, round);
    fflush(stderr);
    _exit(1);
  }
  atomic_fetch_add(&returned[round], 1);
}
static void* run_a(void* p) { fiber_of[0] = fiber_manager_get()->current_fiber; one_wait(0, 0); one_wait(0, 1); return NULL; }
static void* run_b(void* p) {
  fiber_of[1] = fiber_manager_get()->current_fiber;
  while (!atomic_load(&a_enqueued_r0)) fiber_yield();
  one_wait(1, 0); one_wait(1, 1); return NULL;
}
static void* run_c(void* p) {
  fiber_of[2] = fiber_manager_get()->current_fiber;
  while (!atomic_load(&b_in_window)) fiber_yield();
  one_wait(2, 0); one_wait(2, 1); return NULL;
}

int main(void) {
  fiber_manager_init(3);
  fiber_barrier_init(&barrier, 3);
  fiber_t* a = fiber_create(102400, run_a, NULL);
  fiber_t* b = fiber_create(102400, run_b, NULL);
  fiber_t* c = fiber_create(102400, run_c, NULL);
  fiber_join(a, NULL); fiber_join(b, NULL); fiber_join(c, NULL);
  if (atomic_load(&returned[0]) != 3 || atomic_load(&returned[1]) != 3) { fprintf(stderr, "C12 VIOLATED: not everybody returned\n"); return 1; }
  printf("NOT REPRODUCED: both rounds completed in order\n");
  return 0;
}
