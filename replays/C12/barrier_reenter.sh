#!/bin/bash
# usage: barrier_reenter.sh [tree]   (default /repo)  - builds the library sources of <tree> + the reproducer in a temp dir, runs it 3 times
T=${1:-/repo}; D=$(mktemp -d); trap 'rm -rf $D' EXIT
CF="-DFIBER_FAST_SWITCHING -DFIBER_STACK_MALLOC -D_GNU_SOURCE -I$T/include -std=gnu11 -O1"
for f in fiber_context fiber_manager fiber_mutex fiber_semaphore fiber_spinlock fiber_cond fiber fiber_barrier fiber_io fiber_rwlock hazard_pointer work_stealing_deque work_queue fiber_scheduler_wsd fiber_event_native; do
  cc $CF -c $T/src/$f.c -o $D/$f.o || exit 2
done
cc $CF -c $(dirname $0)/barrier_reenter.c -o $D/repro.o || exit 2
cc -Wl,--wrap=fiber_manager_wait_in_mpsc_queue $D/*.o -lpthread -ldl -o $D/repro || exit 2
for i in 1 2 3; do timeout 60 $D/repro || exit 1; done
exit 0
