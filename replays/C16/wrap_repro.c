/* C16 reproducer: index wrap-around.  gcc -I/repo/include wrap_repro.c && ./a.out
 * With both indices at 2^64-1, one push wraps `high` to 0; trypop then compares `high > low`
 * (0 > 2^64-1 is false) and reports empty although an item is present and nothing is in progress. */
#include <stdio.h>
#include <stdint.h>
#include "lockfree_ring_buffer.h"
int main(void) {
  lockfree_ring_buffer_t* rb = lockfree_ring_buffer_create(1);
  rb->high = UINT64_MAX; rb->low = UINT64_MAX;
  int ok = lockfree_ring_buffer_trypush(rb, (void*)0x10);
  void* v = lockfree_ring_buffer_trypop(rb);
  printf("push ok=%d, pop returned %p (expected 0x10)\n", ok, v);
  if (ok && !v) { printf("REPRODUCED: item present but trypop reports empty after index wrap-around\n"); return 1; }
  printf("NOT REPRODUCED\n");
  return 0;
}
