#!/bin/bash
# Build every C08 reproducer against the real library and run it.
#   ./build_and_run.sh                 -> /repo/_build/libfiber.a (the pinned build)
#   ./build_and_run.sh /tmp/mut_c08    -> compile the sources of a (patched) copy instead
here=$(cd "$(dirname "$0")" && pwd)
out=${C08_OUT:-/verif/build/C08/replays}
mkdir -p "$out"
tree=${1:-}
for src in "$here"/r*.c; do
  n=$(basename "$src" .c)
  if [ -z "$tree" ]; then
    gcc -O1 -g "$src" -I/repo/include /repo/_build/libfiber.a -fsplit-stack -lpthread -ldl -o "$out/$n" 2>"$out/$n.build.log" || { echo "BUILD FAILED $n"; cat "$out/$n.build.log"; continue; }
  else
    srcs=$(ls "$tree"/src/*.c | grep -v fiber_event_ev.c | grep -v fiber_scheduler_dist.c | grep -v fiber_scheduler_sharded.c)
    gcc -O2 -g -w -std=gnu11 -DNDEBUG -DFIBER_FAST_SWITCHING -DFIBER_STACK_SPLIT -fsplit-stack -I"$tree/include" $srcs "$src" -lpthread -ldl -o "$out/$n" 2>"$out/$n.build.log" || { echo "BUILD FAILED $n"; tail -5 "$out/$n.build.log"; continue; }
  fi
  echo "=== $n"
  timeout 30 "$out/$n"; echo "[exit $?]"
done
