/* C08 / should_block(): a descriptor the application put in non-blocking mode (fcntl F_SETFL
 * O_NONBLOCK, ioctl FIONBIO 1, or the canonical fcntl(F_SETFL, F_GETFL|O_NONBLOCK)) must return
 * -1/EAGAIN immediately from read() on an empty socket.  With the defect the fiber is suspended. */
#include "repro_common.h"
static int sv[2];
static volatile int returned, rd_ret, rd_errno;
static void* reader(void* p) {
  char c;
  errno = 0;
  rd_ret = (int)read(sv[0], &c, 1);
  rd_errno = errno;
  returned = 1;
  return NULL;
}
static void one_case(const char* what, int how) {
  socketpair(AF_UNIX, SOCK_STREAM, 0, sv);
  int on = 1, rc = -2;
  if (how == 0) rc = fcntl(sv[0], F_SETFL, O_NONBLOCK);
  if (how == 1) rc = ioctl(sv[0], FIONBIO, &on);
  if (how == 2) rc = fcntl(sv[0], F_SETFL, fcntl(sv[0], F_GETFL) | O_NONBLOCK);
  returned = 0;
  fiber_t* f = fiber_create(102400, &reader, NULL);
  usleep(200000); /* fiber-aware sleep: the reader runs meanwhile */
  int was_returned = returned;
  if (!was_returned) { char c = 'x'; write(sv[1], &c, 1); } /* release the parked reader */
  fiber_join(f, NULL);
  VERDICT(was_returned && rd_ret == -1 && rd_errno == EAGAIN,
          "%s (request returned %d): read() on empty socket %s", what, rc,
          was_returned ? (rd_ret == -1 && rd_errno == EAGAIN ? "returned -1/EAGAIN immediately" : "returned something else")
                       : "SUSPENDED the fiber (still blocked after 200 ms) although the descriptor is non-blocking");
  close(sv[0]); close(sv[1]);
}
int main(void) {
  fiber_manager_init(1);
  one_case("fcntl(F_SETFL, O_NONBLOCK)", 0);
  one_case("ioctl(FIONBIO, 1)", 1);
  one_case("fcntl(F_SETFL, fcntl(F_GETFL)|O_NONBLOCK)", 2);
  return finish();
}
