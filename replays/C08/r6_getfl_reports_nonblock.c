/* C08 / fcntl(F_GETFL): the application never asked for O_NONBLOCK, yet F_GETFL reports it (the shim
 * forwards the real flags, which it always keeps non-blocking). */
#include "repro_common.h"
int main(void) {
  fiber_manager_init(1);
  int s = socket(AF_INET, SOCK_STREAM, 0);
  int fl = fcntl(s, F_GETFL);
  VERDICT(!(fl & O_NONBLOCK), "fresh socket(): fcntl(F_GETFL)=0%o %s", fl, (fl & O_NONBLOCK) ? "reports O_NONBLOCK although the descriptor is in blocking mode for the application" : "has no O_NONBLOCK");
  fcntl(s, F_SETFL, fl & ~O_NONBLOCK); /* what a careful application does to get blocking mode */
  int fl2 = fcntl(s, F_GETFL);
  VERDICT(!(fl2 & O_NONBLOCK), "after fcntl(F_SETFL, flags & ~O_NONBLOCK): F_GETFL=0%o %s", fl2, (fl2 & O_NONBLOCK) ? "still reports O_NONBLOCK" : "has no O_NONBLOCK");
  return finish();
}
