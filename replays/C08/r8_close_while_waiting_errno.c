/* C08 / descriptor closed by another fiber while a fiber is blocked on it: the blocked call is resumed
 * and returns -1, but errno is whatever was there before (EAGAIN left by the last real send(); a stale
 * 0 for read()).  A blocking-mode call must never fail with EAGAIN/EWOULDBLOCK. */
#include "repro_common.h"
static int sv[2];
static volatile int done, ret, err;
static void* sender(void* p) {
  static char buf[65536];
  for (;;) {
    errno = 0;
    ssize_t r = send(sv[0], buf, sizeof buf, 0); /* blocking mode: fills the socket buffer, then parks */
    if (r < 0) { ret = (int)r; err = errno; break; }
  }
  done = 1;
  return NULL;
}
static void* reader(void* p) {
  char c; errno = 0;
  ret = (int)read(sv[0], &c, 1);
  err = errno; done = 1;
  return NULL;
}
int main(void) {
  fiber_manager_init(1);
  socketpair(AF_UNIX, SOCK_STREAM, 0, sv);
  fiber_create(102400, &sender, NULL);
  usleep(200000);           /* sender is parked on a full socket */
  int was_done = done;
  close(sv[0]);             /* another fiber closes the descriptor */
  usleep(100000);
  printf("send(): parked=%d, after close: done=%d ret=%d errno=%d (%s)\n", !was_done, done, ret, err, strerror(err));
  VERDICT(done && ret == -1 && err != EAGAIN && err != EWOULDBLOCK, "send() resumed by close() %s", !done ? "was NOT resumed" : (err == EAGAIN ? "failed with a stale EAGAIN/EWOULDBLOCK" : "failed with a definite errno"));
  done = 0; ret = 0; err = 0;
  socketpair(AF_UNIX, SOCK_STREAM, 0, sv);
  fiber_create(102400, &reader, NULL);
  usleep(100000);
  close(sv[0]);
  usleep(100000);
  printf("read(): after close: done=%d ret=%d errno=%d (%s)\n", done, ret, err, strerror(err));
  VERDICT(done && ret == -1 && err != 0 && err != EAGAIN, "read() resumed by close() %s", !done ? "was NOT resumed" : (err == 0 ? "returned -1 with errno untouched (0)" : (err == EAGAIN ? "failed with EAGAIN" : "failed with a definite errno")));
  return finish();
}
