/* C08 / fcntl(F_SETFL, flags without O_NONBLOCK) never sets IO_FLAG_BLOCKING again.  On the pinned tree
 * this is MASKED by the should_block() either-bit test (the descriptor keeps suspending because WAITABLE
 * is still set), so this program reports "ok" there.  Built against a copy in which only should_block()
 * is repaired (./build_and_run.sh /tmp/mut_c08) the read() below fails with EAGAIN although the
 * application switched the descriptor back to blocking mode. */
#include "repro_common.h"
static int sv[2];
static volatile int returned, rd_ret, rd_errno;
static void* reader(void* p) {
  char c; errno = 0;
  rd_ret = (int)read(sv[0], &c, 1);
  rd_errno = errno; returned = 1;
  return NULL;
}
int main(void) {
  fiber_manager_init(1);
  socketpair(AF_UNIX, SOCK_STREAM, 0, sv);
  int r1 = fcntl(sv[0], F_SETFL, O_NONBLOCK);
  int r2 = fcntl(sv[0], F_SETFL, 0); /* back to blocking mode */
  fiber_t* f = fiber_create(102400, &reader, NULL);
  usleep(200000);
  int early = returned;
  char c = 'x'; write(sv[1], &c, 1);
  fiber_join(f, NULL);
  printf("fcntl(O_NONBLOCK)=%d fcntl(0)=%d; read(): returned before data arrived=%d ret=%d errno=%d\n", r1, r2, early, rd_ret, rd_errno);
  VERDICT(!(early && rd_ret == -1 && rd_errno == EAGAIN), "read() after switching back to blocking mode %s",
          early ? "failed with EAGAIN instead of suspending" : "suspended until data arrived");
  return finish();
}
