/* C08 / invalid descriptor arguments: fcntl(F_SETFL,O_NONBLOCK), ioctl(FIONBIO) and close() index
 * fd_info[] / wait_info[] with the caller's int unchecked (the asserts are compiled out by -DNDEBUG).
 * Each call is made in a forked child (watchdog 2 s) and classified: error return (ok), wrong return
 * value, killed by a signal, or hung. */
#include "repro_common.h"
#include <limits.h>
static void in_child(const char* what, int which, int fd) {
  fflush(stdout);
  int pfd[2];
  fiber_io_lock_thread(); pipe(pfd); fiber_io_unlock_thread(); /* plain pipe for the report */
  pid_t pid = fork();
  if (pid == 0) {
    alarm(2);
    int on = 1, r = 0;
    errno = 0;
    if (which == 0) r = fcntl(fd, F_SETFL, O_NONBLOCK);
    if (which == 1) r = ioctl(fd, FIONBIO, &on);
    if (which == 2) r = close(fd);
    int rep[2] = {r, errno};
    fiber_io_lock_thread();
    write(pfd[1], rep, sizeof rep);
    _exit(0);
  }
  int st = 0; waitpid(pid, &st, 0);
  int rep[2] = {0, 0};
  fiber_io_lock_thread();
  fcntl(pfd[0], F_SETFL, O_NONBLOCK);
  int got = (int)read(pfd[0], rep, sizeof rep);
  close(pfd[0]); close(pfd[1]);
  fiber_io_unlock_thread();
  if (WIFSIGNALED(st))
    VERDICT(0, "%s: child killed by signal %d (%s)", what, WTERMSIG(st), WTERMSIG(st) == SIGALRM ? "hung >2 s: watchdog" : strsignal(WTERMSIG(st)));
  else if (got == (int)sizeof rep)
    VERDICT(rep[0] == -1 && rep[1] == EBADF, "%s = %d errno=%d (plain call: -1/EBADF)", what, rep[0], rep[1]);
  else
    VERDICT(0, "%s: no report from child", what);
}
int main(void) {
  fiber_manager_init(1);
  in_child("fcntl(-1, F_SETFL, O_NONBLOCK)", 0, -1);
  in_child("fcntl(INT_MAX, F_SETFL, O_NONBLOCK)", 0, INT_MAX);
  in_child("ioctl(-1, FIONBIO, &1)", 1, -1);
  in_child("ioctl(INT_MAX, FIONBIO, &1)", 1, INT_MAX);
  in_child("close(-1)", 2, -1);
  in_child("close(INT_MAX)", 2, INT_MAX);
  in_child("close(-100000)", 2, -100000);
  return finish();
}
