/* C08 / connect(): AF_UNIX stream listener with backlog 0 that never accepts.  The first connect
 * succeeds, the second one finds the queue full: a blocking connect() waits, a non-blocking one fails
 * with EAGAIN.  The shim only handles EINPROGRESS, so -1/EAGAIN leaks out of a blocking descriptor. */
#include "repro_common.h"
static struct sockaddr_un a;
static volatile int done, ret, err;
static void* connector(void* p) {
  int c = socket(AF_UNIX, SOCK_STREAM, 0);
  errno = 0;
  ret = connect(c, (struct sockaddr*)&a, sizeof a);
  err = errno;
  done = 1;
  return NULL;
}
int main(void) {
  fiber_manager_init(1);
  memset(&a, 0, sizeof a);
  a.sun_family = AF_UNIX;
  snprintf(a.sun_path, sizeof a.sun_path, "/tmp/c08_r4_%d.sock", (int)getpid());
  unlink(a.sun_path);
  int l = socket(AF_UNIX, SOCK_STREAM, 0);
  bind(l, (struct sockaddr*)&a, sizeof a);
  listen(l, 0);
  int c1 = socket(AF_UNIX, SOCK_STREAM, 0);
  int r1 = connect(c1, (struct sockaddr*)&a, sizeof a);
  printf("first connect()=%d errno=%d\n", r1, r1 ? errno : 0);
  fiber_create(102400, &connector, NULL);
  usleep(200000);
  printf("second connect(): done=%d ret=%d errno=%d (%s)\n", done, ret, err, done ? strerror(err) : "still blocked");
  VERDICT(!(done && ret == -1 && err == EAGAIN), "connect() on a blocking-mode AF_UNIX socket with a full backlog %s",
          done && ret == -1 && err == EAGAIN ? "returned -1/EAGAIN" : "blocked the fiber (as the plain blocking call does)");
  unlink(a.sun_path);
  return finish();
}
