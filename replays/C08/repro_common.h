/* helpers shared by the C08 native reproducers (link against the real libfiber) */
#ifndef C08_REPRO_COMMON_H
#define C08_REPRO_COMMON_H
#include <errno.h>
#include <fcntl.h>
#include <signal.h>
#include <stdio.h>
#include <stdlib.h>
#include <string.h>
#include <sys/ioctl.h>
#include <sys/socket.h>
#include <sys/un.h>
#include <sys/wait.h>
#include <netinet/in.h>
#include <arpa/inet.h>
#include <unistd.h>
#include "fiber.h"
#include "fiber_manager.h"
#include "fiber_io.h"
#include "fiber_event.h"

static int g_defects;
#define VERDICT(ok, ...)                                         \
  do {                                                           \
    printf("%s: ", (ok) ? "ok    " : "DEFECT");                  \
    printf(__VA_ARGS__);                                         \
    printf("\n");                                                \
    fflush(stdout);                                              \
    if (!(ok)) g_defects++;                                      \
  } while (0)
static int finish(void) {
  printf("%s (%d defect observation(s))\n", g_defects ? "REPRODUCED" : "NOT REPRODUCED", g_defects);
  fflush(stdout);
  _exit(g_defects ? 1 : 0); /* skip fiber_shutdown: fibers may still be parked on purpose */
}
#endif
