/* C08 / accept(): `if (sock > 0) setup_socket(sock)` skips descriptor 0.  With stdin closed the
 * accepted connection gets number 0, is not switched to O_NONBLOCK and not marked: a read() on it
 * would block the whole kernel thread instead of only the calling fiber. */
#include "repro_common.h"
int main(void) {
  fiber_manager_init(1);
  struct sockaddr_in a; memset(&a, 0, sizeof a);
  a.sin_family = AF_INET; a.sin_addr.s_addr = htonl(INADDR_LOOPBACK);
  int l = socket(AF_INET, SOCK_STREAM, 0);
  bind(l, (struct sockaddr*)&a, sizeof a); listen(l, 8);
  socklen_t al = sizeof a; getsockname(l, (struct sockaddr*)&a, &al);
  int c = socket(AF_INET, SOCK_STREAM, 0);
  connect(c, (struct sockaddr*)&a, sizeof a);
  close(0); /* lowest free number is now 0 */
  int s = accept(l, NULL, NULL);
  fiber_io_lock_thread(); /* look at the REAL flags */
  int fl = fcntl(s, F_GETFL);
  fiber_io_unlock_thread();
  int c2 = socket(AF_INET, SOCK_STREAM, 0);
  connect(c2, (struct sockaddr*)&a, sizeof a);
  int s2 = accept(l, NULL, NULL);
  fiber_io_lock_thread();
  int fl2 = fcntl(s2, F_GETFL);
  fiber_io_unlock_thread();
  printf("accept() returned %d, real O_NONBLOCK=%d; next accept() returned %d, real O_NONBLOCK=%d\n", s, !!(fl & O_NONBLOCK), s2, !!(fl2 & O_NONBLOCK));
  VERDICT(!(s == 0 && !(fl & O_NONBLOCK)), "accepted descriptor 0 %s", (s == 0 && !(fl & O_NONBLOCK)) ? "was NOT set up (left really blocking, unmarked)" : "was set up like any other");
  return finish();
}
