/* Evidence for the stub bound C08_MAX_RW (not a defect reproducer): Linux transfers at most
 * 0x7ffff000 bytes per read/write call, so the `int ret` in the read-type shims cannot truncate. */
#define _GNU_SOURCE
#include <stdio.h>
#include <stdlib.h>
#include <fcntl.h>
#include <unistd.h>
#include <sys/mman.h>
int main(void) {
  size_t want = 3UL << 30;
  char* buf = mmap(0, want, PROT_READ | PROT_WRITE, MAP_PRIVATE | MAP_ANONYMOUS | MAP_NORESERVE, -1, 0);
  if (buf == MAP_FAILED) { perror("mmap"); return 2; }
  int fd = open("/dev/zero", O_RDONLY);
  ssize_t r = read(fd, buf, want);
  printf("read(/dev/zero, %zu bytes) = %zd (0x%zx)  INT_MAX=0x7fffffff\n", want, r, (size_t)r);
  int out = open("/dev/null", O_WRONLY);
  ssize_t w = write(out, buf, want);
  printf("write(/dev/null, %zu bytes) = %zd (0x%zx)\n", want, w, (size_t)w);
  return !(r == 0x7ffff000 && w == 0x7ffff000);
}
