/* C08 / accept(): two fibers block in accept() on the same blocking-mode listening socket; ONE client
 * connects.  Both waiters are woken by the readiness event; the loser's second real accept() gets
 * EAGAIN and the shim (which retries only once) returns -1/EAGAIN from a blocking descriptor. */
#include "repro_common.h"
static int lfd;
static volatile int done[2], ret[2], err[2];
static void* acceptor(void* p) {
  int i = (int)(long)p;
  errno = 0;
  ret[i] = accept(lfd, NULL, NULL);
  err[i] = errno;
  done[i] = 1;
  return NULL;
}
int main(void) {
  fiber_manager_init(1);
  struct sockaddr_in a; memset(&a, 0, sizeof a);
  a.sin_family = AF_INET; a.sin_addr.s_addr = htonl(INADDR_LOOPBACK); a.sin_port = 0;
  lfd = socket(AF_INET, SOCK_STREAM, 0);
  bind(lfd, (struct sockaddr*)&a, sizeof a);
  listen(lfd, 8);
  socklen_t al = sizeof a; getsockname(lfd, (struct sockaddr*)&a, &al);
  fiber_t* f0 = fiber_create(102400, &acceptor, (void*)0L);
  fiber_t* f1 = fiber_create(102400, &acceptor, (void*)1L);
  usleep(100000); /* both are parked in accept() now */
  int c = socket(AF_INET, SOCK_STREAM, 0);
  int cr = connect(c, (struct sockaddr*)&a, sizeof a);
  usleep(200000);
  printf("connect()=%d; acceptor0: done=%d ret=%d errno=%d; acceptor1: done=%d ret=%d errno=%d\n", cr, done[0], ret[0], err[0], done[1], ret[1], err[1]);
  int leaked = (done[0] && ret[0] == -1 && err[0] == EAGAIN) || (done[1] && ret[1] == -1 && err[1] == EAGAIN);
  VERDICT(!leaked, "accept() on a blocking-mode listening socket %s", leaked ? "returned -1/EAGAIN to the fiber that lost the race" : "kept the losing fiber blocked");
  /* let the remaining acceptor (if any) finish */
  int c2 = socket(AF_INET, SOCK_STREAM, 0); connect(c2, (struct sockaddr*)&a, sizeof a);
  usleep(100000);
  (void)f0; (void)f1;
  return finish();
}
