/* C08 / fcntl(F_SETFL,O_NONBLOCK) and ioctl(FIONBIO) on a CLOSED descriptor return 0 (the shim only
 * flips its own bookkeeping and never asks the kernel); the plain calls fail with EBADF. */
#include "repro_common.h"
int main(void) {
  fiber_manager_init(1);
  int s = socket(AF_INET, SOCK_STREAM, 0);
  close(s);
  errno = 0;
  int r = fcntl(s, F_SETFL, O_NONBLOCK);
  VERDICT(r == -1 && errno == EBADF, "fcntl(closed fd, F_SETFL, O_NONBLOCK) = %d errno=%d (plain call: -1/EBADF)", r, errno);
  int on = 1; errno = 0;
  r = ioctl(s, FIONBIO, &on);
  VERDICT(r == -1 && errno == EBADF, "ioctl(closed fd, FIONBIO, &1) = %d errno=%d (plain call: -1/EBADF)", r, errno);
  int off = 0; errno = 0;
  r = ioctl(s, FIONBIO, &off);
  VERDICT(r == -1 && errno == EBADF, "ioctl(closed fd, FIONBIO, &0) = %d errno=%d (plain call: -1/EBADF)", r, errno);
  return finish();
}
