#!/usr/bin/env python3
"""regenerates MANIFEST.json from the property modules that exist (run after adding / changing a check)"""
import json, os, sys
HERE = os.path.dirname(os.path.abspath(__file__))
sys.path.insert(0, os.path.join(HERE, 'lib')); sys.path.insert(0, HERE)
props = [json.loads(l) for l in open(os.path.join(HERE, 'properties.jsonl'))]

LEVEL = {
 'C01': ('E2+E1', 'runtime contract (fiber kernel) scenarios: swap targets saved/not running, deferred actions, wake-before-switch windows, over all interleavings of 2 kernel threads within the bounds; plus the fd wait of fiber_event_native.c (a further user of the deferred hand-off) as an E1 step shared with C08'),
 'C02': ('E2', 'Chase-Lev deque of work_stealing_deque.c: every interleaving (SC) and every store-buffer reordering (x86-TSO) of one owner and 1-2 thieves within the stated operation counts, incl. the growth boundary'),
 'C03': ('E1+E2', 'rely/guarantee step over the mutex counter (one lock/trylock/unlock from any number < 2^20 of contenders with arbitrary interference; covers histories of any length for the counter protocol) + mutex over the fiber contract kernel: all interleavings of 2-3 fibers'),
 'C04': ('E2', 'join / detach (quick) and tryjoin, join-with-NULL-result (thorough) by ONE acting fiber against the real fiber.c completion path over the fiber contract kernel: all interleavings of the stated actors; the VM liveness ghost decides reclaimed-once / never touched afterwards'),
 'C05': ('E1+E2', 'rely/guarantee accounting step (one signal/broadcast/wait from any number of announced waiters, arbitrary concurrent announcements) + real fiber_cond.c and the real unlock-and-wait path over the fiber contract kernel, with fiber_mutex replaced by its C03 contract: all interleavings of 1-2 waiters with a signaller (signal / broadcast, mutex held or released)'),
 'C06': ('E1', 'rely/guarantee step over the semaphore counter: every operation of fiber_semaphore.c from an arbitrary counter value with arbitrary interference before each atomic step (covers histories of any length for the counter protocol); the mpmc wait queue underneath (C13) is assumed, not proved - a partial claim, see DESIGN.md section 5'),
 'C07': ('E1+E2', 'inductive step over the 64-bit lock word for every operation from an arbitrary invariant-satisfying state with arbitrary interference (covers histories of any length for the word protocol) + small concurrent scenario'),
 'C08': ('E1', 'every shim of fiber_io.c and the fd half of fiber_event_native.c symbolically executed for arbitrary descriptors, flags and environment answers (ghost non-blocking kernel), bounded EAGAIN rounds'),
 'C09': ('E1+E2', 'sleep arithmetic for all 2^64 argument combinations and timer phases, sleeper tree for arbitrary keys, wake-once step; wake race as concurrent scenario'),
 'C10': ('E2', 'yield fairness on the real scheduler: bypass counter bounded for every yield pattern within the step bound'),
 'C11': ('E1+E2', 'rely/guarantee step for the multi channel (one send/receive from an arbitrary valid channel state after every lock acquisition), channel receive pattern over the real signal under SC and x86-TSO, + signal wait/raise handshake decided over all interleavings; channel scenarios (queue + signal) are stretch jobs without verdict so far, for them the claim is compositional (queues: C15/C16, never-lost raise: the signal scenarios) and says so'),
 'C12': ('E1+E2', 'one complete barrier round for every count 1..4 with all arrivals as real calls, late enqueuers and fibers re-entering the next round during the release (E1 round harness; found the count >= 3 defect fixed in 619b508) + barrier over the fiber contract kernel: count 2 one round (SC, TSO) and count 1 two rounds decided; count 2 x 2 rounds and count 3 are stretch jobs without verdict so far and are not claimed'),
 'C13': ('E1', 'rely/guarantee step: one real mpmc_fifo_trypop / mpmc_fifo_push (with the real hazard_pointer_using/done_using/free) against an environment that pops, pushes, links, reclaims and reuses nodes at every point where the real code touches shared memory, under the hazard-pointer contract of C14; ghost queue decides true-successor / FIFO value / exactly-once retirement / legitimate empty'),
 'C14': ('E1+E2', 'hazard_pointer_scan / binary search / threshold arithmetic for arbitrary ordering patterns (E1, N<=3,K<=2) and for arbitrary 64-bit slot values on integer addresses (E2); scan racing with a registration is a stretch job; the publish/validate side inside mpmc_fifo is not covered'),
 'C15': ('E2', 'mpsc / spsc / relaxed mpsc: every interleaving (and x86-TSO reordering for small configurations) of the stated producer/consumer programs, incl. liveness of the consumer (nothing lost)'),
 'C16': ('E2', 'ring buffer trypush/trypop: every interleaving of the stated programs from symbolic start indices incl. wrap-around through 2^64'),
 'C17': ('E1+E2', 'rely/guarantee step over the counters (one get_work / push from any state satisfying in_count == out_count + linked + pending, any number of concurrent pushers; covers histories of any length for the counter protocol) + work queue: every interleaving of a draining worker with 1-2 concurrent pushers, sequential hand-over, and (thorough) the general program in which any of 2-3 pushing threads may become the worker'),
 'C18': ('E1+E2', 'spinlock word transitions for all 2^64 words (wrap-around) + contention scenario'),
 'C19': ('E3+E1', 'the x86-64 context-switch assembly interpreted symbolically over z3 bit-vectors for all register/memory contents (round trip, invariant induction, fresh context) + fiber_context_init / create / destroy for all stack sizes in range under CBMC'),
 'C20': ('E1+E2', 'rely/guarantee step over the multi-signal double word (one wait/raise from an arbitrary (counter, head) pair, arbitrary transitions of other fibers before every atomic access) + double-word-CAS structures: every interleaving of ABA-provoking programs (pop / reuse / push) on lifo, dist_fifo, mpmc_stack, multi-signal'),
}
NOT_APPLICABLE = {
}
checks, na = [], []
for p in props:
    pid = p['id']
    if pid in NOT_APPLICABLE:
        na.append({'property_id': pid, 'reason': NOT_APPLICABLE[pid]})
    elif os.path.exists(os.path.join(HERE, 'props', pid + '.py')) and pid not in os.environ.get('VERIF_HOLD_BACK', '').split(','):
        eng, text = LEVEL[pid]
        checks.append({
            'property_id': pid,
            'quick_cmd': './check %s --tier quick' % pid,
            'thorough_cmd': './check %s --tier thorough' % pid,
            'evidence_file': 'evidence/%s.json' % pid,
            'replay_cmd_template': './check %s --replay {path}' % pid,
            'engine': eng,
            'level_claimed': {'category': 'model_checking',
                              'text': 'bounded symbolic checking of the real code: ' + text + '. The verdict is the SAT/SMT solver\'s over all values inside the bounds listed in the evidence file; nothing is claimed outside them.',
                              'design_ref': 'DESIGN.md section 4 (%s)' % pid},
            'level_note': 'trusted: clang-14 -O1 IR / goto-cc front end as the semantics of the C source, cbmc 6.11 (symex, partial-order encoding for --mm sc/tso, SAT back end) or z3, my IR-to-cell-memory translator (guarded by default-arm assertions and per-run witness twins), the environment stubs and assumptions listed in the evidence file',
            'technique': 'bounded model checking of the real code (solver verdict over all values inside the stated bounds) with ' + ' and '.join({'E1': 'CBMC on the C source (SAT; cvc5 for the C17 counter step), incl. rely/guarantee steps against a symbolic environment', 'E2': 'CBMC threads over an IR-derived cell-memory encoding (all interleavings, SC/TSO)', 'E3': 'z3 over the extracted x86-64 assembly'}[e] for e in eng.split('+')),
        })
    else:
        na.append({'property_id': pid, 'reason': 'check still under construction in this session (planned engine: %s, see DESIGN.md section 4); not claimed yet' % LEVEL[pid][0]})
m = {
 'version': 1,
 'setup_cmd': 'python3 -m compileall -q lib props e2 e3 >/dev/null 2>&1; true',
 'hooks': {'guard': 'LIBFIBER_VERIF', 'enable': 'no hook is needed: encodings are generated from the unmodified sources (cbmc front end / clang -emit-llvm); the guard name is reserved',
           'baseline_off_cmd': 'cd /repo && cmake -G Ninja -B _build >/dev/null && (cmake --build _build -- -k 0 >/dev/null; ctest --test-dir _build -j8 --timeout 900)',
           'source_commits': [], 'add_only': True},
 'engines': [
  {'name': 'E1 cbmc-src', 'path': 'e1/', 'serves_properties': ['C03', 'C05', 'C06', 'C07', 'C08', 'C09', 'C11', 'C12', 'C13', 'C14', 'C17', 'C18', 'C19', 'C20'], 'kind_free_text': 'CBMC on the real .c files with contract stubs for the environment'},
  {'name': 'E2 fvm', 'path': 'e2/', 'serves_properties': ['C01', 'C02', 'C03', 'C04', 'C05', 'C06', 'C07', 'C09', 'C10', 'C11', 'C12', 'C13', 'C14', 'C15', 'C16', 'C17', 'C18', 'C20'], 'kind_free_text': 'clang -O1 IR of the real units -> ir2cell -> C over integer cell memory -> CBMC threads (--mm sc / tso)'},
  {'name': 'E3 x86sym', 'path': 'e3/', 'serves_properties': ['C19'], 'kind_free_text': 'z3 symbolic interpreter for the inline assembly of fiber_context_swap extracted from the IR'},
 ],
 'checks': checks,
 'not_applicable': na,
 'notes': 'see DESIGN.md; known_findings.json lists genuine defects (fixed by fix: commits in /repo, or recorded)',
}
json.dump(m, open(os.path.join(HERE, 'MANIFEST.json'), 'w'), indent=1)
print('claimed:', [c['property_id'] for c in checks])
