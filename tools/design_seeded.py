#!/usr/bin/env python3
"""Rewrites the table (and the counts line) of DESIGN.md section 8 from seeded/*/meta.json."""
import json, glob, os, re, subprocess
V = os.path.dirname(os.path.dirname(os.path.abspath(__file__)))
subprocess.run(['python3', V + '/seeded/summarize.py'], capture_output=True)
rows, q, t, n, miss = [], 0, 0, 0, []
for d in sorted(glob.glob(V + '/seeded/C*/')):
    m = json.load(open(d + 'meta.json')); sid = os.path.basename(d[:-1]); n += 1
    c = (m.get('caught_by') or '').strip()
    if c.startswith('quick'): q += 1
    elif c.startswith('thorough'): t += 1
    else: miss.append(sid)
    rows.append('| %s | %s | %s | %s |' % (sid, m['property'], (m.get('summary') or '').replace('|', '/').replace('\n', ' ')[:110], c.replace('|', '/').replace('\n', ' ')[:330]))
s = open(V + '/DESIGN.md').read()
i = s.index('| seed | property | change | caught by |'); j = s.index('## 9. False alarms')
s = s[:i] + '| seed | property | change | caught by |\n|---|---|---|---|\n' + '\n'.join(rows) + '\n\n' + s[j:]
line = '**Totals (generated): %d seeds; %d caught by the quick tier, %d more by the thorough tier, %d not caught (%s).**' % (n, q, t, len(miss), ', '.join(miss))
s = re.sub(r'\*\*Totals \(generated\):.*?\*\*', line, s) if '**Totals (generated):' in s else s.replace('| seed | property | change | caught by |', line + '\n\n| seed | property | change | caught by |', 1)
open(V + '/DESIGN.md', 'w').write(s)
print(line)
