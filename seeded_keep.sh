#!/bin/bash
# usage: seeded_keep.sh <seed-id> <agent-worktree> <MUTANT-dir-name> <property> "<caught by ...>"
# Confirms an agent-made mutant independently (fresh worktree: applies, builds, existing tests pass, demo fails with / passes without)
# and archives it under /verif/seeded/<seed-id>/.
ID=$1; WT=$2; MD=$3; PROP=$4; CAUGHT=$5
D=/verif/seeded/$ID; mkdir -p $D
cp $WT/$MD/patch.diff $D/; cp $WT/$MD/demo* $WT/$MD/*.h $D/ 2>/dev/null; cp $WT/$MD/meta.json $D/agent_meta.json 2>/dev/null
SV=/tmp/sv_$ID; rm -rf $SV; git -C /repo worktree add -q $SV HEAD
cd $SV && git apply $D/patch.diff; A=$?
cmake -G Ninja -B _build -DFIBER_RUN_TESTS_WITH_BUILD=OFF >/dev/null 2>&1 && cmake --build _build >/dev/null 2>&1; B=$?
ctest --test-dir _build -j8 --timeout 300 -E semaphore > $D/ctest_with_patch.log 2>&1; T=$?
mkdir -p MUTANT && cp -r $WT/$MD/* MUTANT/ 2>/dev/null; rm -rf MUTANT/build MUTANT/_demo_build
(cd MUTANT && timeout 300 bash demo.sh > $D/demo_with_patch.log 2>&1); DW=$?
git checkout -q -- src include; cmake --build _build >/dev/null 2>&1
(cd MUTANT && timeout 300 bash demo.sh > $D/demo_without_patch.log 2>&1); DO=$?
cd /verif; git -C /repo worktree remove --force $SV
python3 - "$ID" "$PROP" "$A" "$B" "$T" "$DW" "$DO" "$CAUGHT" <<'PY'
import json, sys, os
i, prop, a, b, t, dw, do, caught = sys.argv[1:9]
d = '/verif/seeded/' + i
am = {}
try: am = json.load(open(d + '/agent_meta.json'))
except Exception: pass
m = {'property': prop, 'summary': am.get('summary'), 'needs': am.get('needs'), 'files': am.get('files'),
     'confirmed_by_me': {'fresh worktree of /repo HEAD': True, 'git apply rc': int(a), 'build rc': int(b), 'ctest (without the flaky semaphore test) rc': int(t),
                         'demo.sh rc with patch (non-zero = fails as intended)': int(dw), 'demo.sh rc without patch (0 = passes)': int(do)},
     'ran': ['git worktree add; git apply patch.diff; cmake -G Ninja -B _build -DFIBER_RUN_TESTS_WITH_BUILD=OFF; cmake --build; ctest -j8 -E semaphore; bash demo.sh; git checkout -- src include; rebuild; bash demo.sh',
             'VERIF_REPO=<patched tree> ./check %s' % prop],
     'caught_by': caught}
json.dump(m, open(d + '/meta.json', 'w'), indent=1)
print(i, json.dumps(m['confirmed_by_me']))
PY
