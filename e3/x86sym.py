#!/usr/bin/env python3-vt
"""E3 `x86sym` -- symbolic check of the x86-64 context switch of libfiber (property C19).

On EVERY run the input is regenerated from the current source tree ($VERIF_REPO, default /repo):

    clang-14 -O1 -S -emit-llvm -DNDEBUG -DFIBER_FAST_SWITCHING -DFIBER_STACK_MALLOC
             -I$REPO/include $REPO/src/fiber_context.c -o <build>/fiber_context.ll

From the IR of `fiber_context_swap` we take the `call void asm sideeffect "..."` instruction:
the AT&T template, the constraint string (which registers carry the two operands, what is declared
clobbered) and the way the two operands are computed (`from` = address of a field of the first
parameter, `to` = value loaded from the same field of the second parameter).  Nothing of that is
hard-coded; any instruction / operand / constraint form that the interpreter does not model makes
the program stop with exit code 2 (UNSUPPORTED), which is NOT a verdict.

Machine model
  * 16 general purpose registers, each a z3 BitVec(64); rip is a BitVec(64) value, the address of
    an asm label is an uninterpreted BitVec(64) constant.
  * memory is Array(BitVec64 -> BitVec64): one 64-bit WORD per (byte) address.  This is exact as
    long as every access is 8-byte aligned; the scenarios ASSUME 8-byte alignment of the stack
    pointers and of the context structs (the ABI guarantees 16 for rsp at a call, malloc gives 16
    for the structs, fiber_context_init gives 16 for a fresh sp -- E1) and the obligation
    `*.aligned` PROVES that under these assumptions every address the code touches is aligned.
  * flags are not modelled (only recorded as written); x87/SSE state does not exist in the model.

Obligations are discharged `prove`-style: assumptions + negated goal, unsat == PROVED; on sat the
model is printed as the counterexample.

Output protocol (lib/vlib.py):  OBLIGATION <name>: PROVED|FAILED <description>,  SOLVER_S: <s>,
RESULT: PROVED|FAILED.   --witness adds obligations `witness.*` that assert False under the same
assumptions and therefore must come back FAILED (assumptions + path are satisfiable).
"""
import argparse
import os
import re
import subprocess
import sys
import time

from z3 import (And, Array, BitVec, BitVecSort, BitVecVal, BoolVal, Extract, Not, Or, Select, Solver, Store, UGE, If,
                ULE, ULT, is_bv_value, sat, simplify, unsat)

REPO = os.environ.get('VERIF_REPO', '/repo')
HERE = os.path.dirname(os.path.abspath(__file__))
VERIF = os.path.dirname(HERE)
LAYOUT_H = os.path.join(VERIF, 'e1', 'C19', 'fresh_layout.h')

GPR = ['rax', 'rbx', 'rcx', 'rdx', 'rsi', 'rdi', 'rbp', 'rsp', 'r8', 'r9', 'r10', 'r11', 'r12', 'r13', 'r14', 'r15']
CALLEE_SAVED = ['rbx', 'rbp', 'r12', 'r13', 'r14', 'r15']          # SysV x86-64 ABI (rsp handled separately)
CALLER_SAVED = ['rax', 'rcx', 'rdx', 'rsi', 'rdi', 'r8', 'r9', 'r10', 'r11']
CONSTRAINT_REG = {'ax': 'rax', 'bx': 'rbx', 'cx': 'rcx', 'dx': 'rdx', 'si': 'rsi', 'di': 'rdi', 'bp': 'rbp',
                  'sp': 'rsp'}
CONSTRAINT_REG.update({'r%d' % i: 'r%d' % i for i in range(8, 16)})
CONSTRAINT_REG.update({r: r for r in GPR})


class Unsupported(Exception):
    pass


def unsupported(msg):
    raise Unsupported(msg)


# ------------------------------------------------------------------------------------------------
# 1. regenerate + parse the IR
# ------------------------------------------------------------------------------------------------
def regenerate_ir(build):
    os.makedirs(build, exist_ok=True)
    out = os.path.join(build, 'fiber_context.ll')
    if os.path.exists(out):
        os.unlink(out)
    cmd = ['clang-14', '-O1', '-S', '-emit-llvm', '-DNDEBUG', '-DFIBER_FAST_SWITCHING', '-DFIBER_STACK_MALLOC',
           '-I' + os.path.join(REPO, 'include'), os.path.join(REPO, 'src', 'fiber_context.c'), '-o', out]
    p = subprocess.run(cmd, stdout=subprocess.PIPE, stderr=subprocess.STDOUT, text=True, timeout=120)
    if p.returncode != 0 or not os.path.exists(out):
        unsupported('clang could not compile the current fiber_context.c:\n' + ' '.join(cmd) + '\n' + p.stdout[-3000:])
    return out, ' '.join(cmd)


def ir_type_size_align(t):
    t = t.strip()
    if t.endswith('*'):
        return 8, 8
    m = re.fullmatch(r'i(\d+)', t)
    if m:
        n = int(m.group(1))
        if n in (8, 16, 32, 64):
            return n // 8, n // 8
    m = re.fullmatch(r'\[(\d+) x (.+)\]', t)
    if m:
        s, a = ir_type_size_align(m.group(2))
        return s * int(m.group(1)), a
    unsupported('struct field type not modelled: %r' % t)


def split_top(s, sep=','):
    """split at separators that are not inside () [] {} <>"""
    out, depth, cur = [], 0, ''
    for ch in s:
        if ch in '([{<':
            depth += 1
        elif ch in ')]}>':
            depth -= 1
        if ch == sep and depth == 0:
            out.append(cur)
            cur = ''
        else:
            cur += ch
    if cur.strip():
        out.append(cur)
    return [x.strip() for x in out]


def decode_ir_string(s):
    return re.sub(r'\\([0-9A-Fa-f]{2})', lambda m: chr(int(m.group(1), 16)), s)


class SwapIR:
    """everything we take from the IR of fiber_context_swap"""
    pass


def parse_ir(path):
    text = open(path).read()
    info = SwapIR()
    # --- struct layout
    m = re.search(r'^%struct\.fiber_context = type \{(.*)\}\s*$', text, re.M)
    if not m:
        unsupported('no %struct.fiber_context type definition in the IR')
    fields = split_top(m.group(1))
    offs, off, maxal = [], 0, 1
    for f in fields:
        s, a = ir_type_size_align(f)
        off = (off + a - 1) // a * a
        offs.append(off)
        off += s
        maxal = max(maxal, a)
    info.fields, info.field_off = fields, offs
    info.struct_size = (off + maxal - 1) // maxal * maxal

    # --- function body
    m = re.search(r'^define [^\n]*@fiber_context_swap\(([^\n]*?)\)[^\n(]*\{\n(.*?)^\}', text, re.M | re.S)
    if not m:
        unsupported('fiber_context_swap not found in the IR')
    params = []
    for p in split_top(m.group(1)):
        toks = p.split()
        if not toks[0].startswith('%struct.fiber_context*') or not toks[-1].startswith('%'):
            unsupported('unexpected parameter of fiber_context_swap: %r' % p)
        params.append(toks[-1])
    if len(params) != 2:
        unsupported('fiber_context_swap does not have two parameters')
    lines = [l.strip() for l in m.group(2).split('\n') if l.strip() and not l.strip().startswith(';')]
    if any(re.match(r'^[\w.]+:', l) for l in lines):
        unsupported('fiber_context_swap has more than one basic block (%s)' % [l for l in lines if re.match(r'^[\w.]+:', l)])
    defs = {}
    for i, l in enumerate(lines):
        mm = re.match(r'(%[\w.]+) = (.*)$', l)
        if mm:
            defs[mm.group(1)] = (i, mm.group(2))
    asm_idx = [i for i, l in enumerate(lines) if re.search(r'\basm\b', l)]
    if len(asm_idx) != 1:
        unsupported('expected exactly one inline asm in fiber_context_swap, found %d' % len(asm_idx))
    ai = asm_idx[0]
    am = re.match(r'^(?:tail |notail |musttail )?call void asm ((?:\w+ )*)"((?:[^"\\]|\\.)*)", "([^"]*)"\((.*)\)(.*)$', lines[ai])
    if not am:
        unsupported('inline asm call has a form that is not modelled (outputs? non-void?): ' + lines[ai][:200])
    flags = am.group(1).split()
    if 'inteldialect' in flags:
        unsupported('intel dialect asm')
    if 'sideeffect' not in flags:
        unsupported('asm is not volatile (sideeffect) -- the compiler could delete or move it')
    info.asm_flags = flags
    info.template = decode_ir_string(am.group(2))
    info.constraints = am.group(3)
    args = split_top(am.group(4))

    # --- constraint string
    inputs, clobbers = [], []
    for c in info.constraints.split(','):
        c = c.strip()
        if c.startswith('~{') and c.endswith('}'):
            clobbers.append(c[2:-1])
        elif c.startswith('='):
            unsupported('asm output operand %r not modelled' % c)
        else:
            mm = re.fullmatch(r'\{(\w+)\}', c)
            if not mm or mm.group(1) not in CONSTRAINT_REG:
                unsupported('asm input constraint %r does not pin the operand to a known 64-bit register' % c)
            inputs.append(CONSTRAINT_REG[mm.group(1)])
    if len(inputs) != len(args) or len(args) != 2:
        unsupported('asm has %d input constraints and %d arguments, expected 2/2' % (len(inputs), len(args)))
    info.input_regs, info.clobbers = inputs, clobbers

    # --- how the operands are computed
    def field_gep(name):
        if name not in defs:
            unsupported('operand %s is not defined by an instruction' % name)
        mm = re.fullmatch(r'getelementptr inbounds %struct\.fiber_context, %struct\.fiber_context\* (%[\w.]+), i64 0, i32 (\d+)',
                          defs[name][1])
        if not mm or mm.group(1) not in params:
            unsupported('operand address %s = %r is not "&param->field"' % (name, defs[name][1]))
        return params.index(mm.group(1)), int(mm.group(2))

    ops = []
    for a in args:
        name = a.split()[-1]
        if not name.startswith('%') or name not in defs:
            unsupported('asm argument %r is not an SSA value defined in the function' % a)
        rhs = defs[name][1]
        lm = re.fullmatch(r'load (\S+), (\S+) (%[\w.]+), align (\d+)(, !.*)?', rhs)
        if lm:
            p, f = field_gep(lm.group(3))
            ops.append(dict(kind='load', param=p, field=f, ir=rhs, at=defs[name][0]))
        else:
            p, f = field_gep(name)
            ops.append(dict(kind='addr', param=p, field=f, ir=rhs, at=defs[name][0]))
    addr_ops = [i for i, o in enumerate(ops) if o['kind'] == 'addr']
    load_ops = [i for i, o in enumerate(ops) if o['kind'] == 'load']
    if len(addr_ops) != 1 or len(load_ops) != 1:
        unsupported('expected one "&from->field" operand and one "load to->field" operand, got %r' % ops)
    fo, to = ops[addr_ops[0]], ops[load_ops[0]]
    if fo['param'] != 0 or to['param'] != 1:
        unsupported('"from" operand must come from parameter 0 and "to" operand from parameter 1: %r' % ops)
    if fo['field'] != to['field']:
        unsupported('from/to use different struct fields (%d vs %d)' % (fo['field'], to['field']))
    ftype = fields[fo['field']]
    if ftype != 'i8**' or fields.count('i8**') != 1:
        unsupported('the saved-stack-pointer field is expected to be the unique void** field of fiber_context, got %r in %r' % (ftype, fields))
    info.from_index, info.to_index = addr_ops[0], load_ops[0]      # operand numbers ($0/$1) in the template
    info.from_reg, info.to_reg = inputs[addr_ops[0]], inputs[load_ops[0]]
    info.sp_field, info.sp_off = fo['field'], offs[fo['field']]
    # between the load of `to` and the asm nothing may write memory
    for l in lines[to['at'] + 1:ai]:
        if re.match(r'%[\w.]+ = (getelementptr|bitcast) ', l) or re.match(r'(tail )?call void @llvm\.prefetch\.', l):
            continue
        unsupported('instruction between the load of to->sp and the asm that is not modelled: ' + l[:160])
    info.after_asm = lines[ai + 1:]
    info.ir_lines = lines
    return info


# ------------------------------------------------------------------------------------------------
# 2. AT&T subset parser
# ------------------------------------------------------------------------------------------------
def parse_operand(o):
    o = o.strip()
    m = re.fullmatch(r'%(\w+)', o)
    if m:
        if m.group(1) not in GPR:
            unsupported('register %%%s is not a 64-bit general purpose register' % m.group(1))
        return ('reg', m.group(1))
    m = re.fullmatch(r'\$(-?(?:0x[0-9a-fA-F]+|\d+))', o)
    if m:
        return ('imm', int(m.group(1), 0))
    m = re.fullmatch(r'\*%(\w+)', o)
    if m:
        if m.group(1) not in GPR:
            unsupported('indirect jump through %r' % o)
        return ('ind', m.group(1))
    m = re.fullmatch(r'(\w+)\(%rip\)', o)
    if m:
        return ('riprel', m.group(1))
    m = re.fullmatch(r'(-?(?:0x[0-9a-fA-F]+|\d+))?\(%(\w+)\)', o)
    if m:
        if m.group(2) not in GPR:
            unsupported('memory operand base %r' % o)
        return ('mem', m.group(2), int(m.group(1), 0) if m.group(1) else 0)
    unsupported('operand form not modelled: %r' % o)


def parse_template(info):
    t = info.template
    if re.search(r'\$\{', t):
        unsupported('operand modifiers ${N:x} in the asm template')
    t = t.replace('$$', '\x00')
    nops = len(info.input_regs)

    def sub(m):
        n = int(m.group(1))
        if n >= nops:
            unsupported('template refers to operand $%d' % n)
        return '%' + info.input_regs[n]
    t = re.sub(r'\$(\d+)', sub, t)
    if '$' in t:
        unsupported('unexpected $ in template after operand substitution')
    t = t.replace('\x00', '$')
    prog = []
    for raw in re.split(r'[\n;]', t):
        line = raw.split('#')[0].strip()
        while True:
            m = re.match(r'^(\w+):\s*(.*)$', line)
            if not m:
                break
            prog.append(('label', m.group(1)))
            line = m.group(2).strip()
        if not line:
            continue
        parts = line.split(None, 1)
        mn = parts[0].lower()
        ops = [parse_operand(x) for x in split_top(parts[1])] if len(parts) > 1 and mn not in ('je', 'jz', 'jne', 'jnz') else []
        kinds = tuple(o[0] for o in ops)
        if mn in ('leaq', 'lea') and kinds == ('riprel', 'reg'):
            prog.append(('lea_label', ops[0][1], ops[1][1]))
        elif mn in ('movq', 'mov') and kinds == ('reg', 'reg'):
            prog.append(('mov_rr', ops[0][1], ops[1][1]))
        elif mn in ('movq', 'mov') and kinds == ('mem', 'reg'):
            prog.append(('load', ops[0][1], ops[0][2], ops[1][1]))
        elif mn in ('movq', 'mov') and kinds == ('reg', 'mem'):
            prog.append(('store', ops[0][1], ops[1][1], ops[1][2]))
        elif mn in ('pushq', 'push') and kinds == ('reg',):
            prog.append(('push', ops[0][1]))
        elif mn in ('popq', 'pop') and kinds == ('reg',):
            if ops[0][1] == 'rsp':
                unsupported('pop %rsp')
            prog.append(('pop', ops[0][1]))
        elif mn in ('addq', 'add') and kinds == ('imm', 'reg'):
            prog.append(('add_ir', ops[0][1], ops[1][1]))
        elif mn in ('subq', 'sub') and kinds == ('imm', 'reg'):
            prog.append(('add_ir', -ops[0][1], ops[1][1]))
        elif mn == 'jmp' and kinds == ('ind',):
            prog.append(('jmp_ind', ops[0][1]))
        elif mn in ('cmpq', 'cmp') and kinds == ('reg', 'reg'):
            prog.append(('cmp_rr', ops[0][1], ops[1][1]))
        elif mn in ('je', 'jz', 'jne', 'jnz') and len(parts) > 1 and re.fullmatch(r'\w+', parts[1].strip()):
            prog.append(('jcc', 'e' if mn in ('je', 'jz') else 'ne', parts[1].strip()))
        else:
            unsupported('instruction not modelled: %r' % line)
    return prog


# ------------------------------------------------------------------------------------------------
# 3. symbolic interpreter
# ------------------------------------------------------------------------------------------------
BV = lambda v: BitVecVal(v & (2 ** 64 - 1), 64)


class Machine:
    def __init__(self, prog):
        self.prog = prog
        self.label_pos = {}
        for i, ins in enumerate(prog):
            if ins[0] == 'label':
                self.label_pos.setdefault(ins[1], []).append(i)
        self.label_addr = {}   # (name, position) -> BitVec constant

    def addr_of_label(self, name, pos):
        k = (name, pos)
        if k not in self.label_addr:
            self.label_addr[k] = BitVec('label_%s_at%d' % (name, pos), 64)
        return self.label_addr[k]

    def resolve_label(self, ref, at):
        m = re.fullmatch(r'(\d+)([fb])', ref)
        if m:
            ps = self.label_pos.get(m.group(1), [])
            cand = [p for p in ps if p > at] if m.group(2) == 'f' else [p for p in reversed(ps) if p < at]
            if not cand:
                unsupported('local label reference %r has no target' % ref)
            return self.addr_of_label(m.group(1), cand[0]), cand[0]
        ps = self.label_pos.get(ref, [])
        if len(ps) != 1:
            unsupported('label %r is not defined exactly once in the template' % ref)
        return self.addr_of_label(ref, ps[0]), ps[0]

    def run(self, regs, mem, start=0):
        """execute from instruction index `start` until an indirect jump or the end of the template.
        returns dict(regs, mem, exit=('jump', target)|('end', None), writes=[(addr,val)], reads=[addr],
        regs_written=set, flags_written=bool)"""
        regs = dict(regs)
        writes, reads, rw, flags = [], [], set(), False
        i = start
        ex = ('end', None)
        while i < len(self.prog):
            ins = self.prog[i]
            op = ins[0]
            if op == 'label':
                pass
            elif op == 'lea_label':
                a, _ = self.resolve_label(ins[1], i)
                regs[ins[2]] = a
                rw.add(ins[2])
            elif op == 'mov_rr':
                regs[ins[2]] = regs[ins[1]]
                rw.add(ins[2])
            elif op == 'load':
                a = regs[ins[1]] + BV(ins[2])
                reads.append(a)
                regs[ins[3]] = Select(mem, a)
                rw.add(ins[3])
            elif op == 'store':
                a = regs[ins[2]] + BV(ins[3])
                writes.append((a, regs[ins[1]]))
                mem = Store(mem, a, regs[ins[1]])
            elif op == 'push':
                v = regs[ins[1]]
                regs['rsp'] = regs['rsp'] - BV(8)
                writes.append((regs['rsp'], v))
                mem = Store(mem, regs['rsp'], v)
                rw.add('rsp')
            elif op == 'pop':
                reads.append(regs['rsp'])
                regs[ins[1]] = Select(mem, regs['rsp'])
                regs['rsp'] = regs['rsp'] + BV(8)
                rw.update([ins[1], 'rsp'])
            elif op == 'add_ir':
                regs[ins[2]] = regs[ins[2]] + BV(ins[1])
                rw.add(ins[2])
                flags = True
            elif op == 'jmp_ind':
                ex = ('jump', regs[ins[1]])
                break
            elif op == 'cmp_rr':
                # AT&T: cmp a,b sets flags from b - a ; only (in)equality is modelled
                self.last_cmp = (regs[ins[2]], regs[ins[1]])
                flags = True
            elif op == 'jcc':
                if getattr(self, 'last_cmp', None) is None:
                    unsupported('conditional jump without a preceding cmp')
                cond = (self.last_cmp[0] == self.last_cmp[1]) if ins[1] == 'e' else (self.last_cmp[0] != self.last_cmp[1])
                taddr, tpos = self.resolve_label(ins[2], i)
                rt = self.run(regs, mem, start=tpos)      # branch taken
                rn = self.run(regs, mem, start=i + 1)     # fall through
                def as_jump(r, started_at):
                    if r['exit'][0] == 'jump':
                        return r['exit'][1]
                    # falling off the end of the template after a label == arriving at that label
                    last_label = None
                    for k in range(len(self.prog) - 1, -1, -1):
                        if self.prog[k][0] == 'label':
                            last_label = k
                            break
                    if last_label is None or any(self.prog[k][0] != 'label' for k in range(last_label, len(self.prog))):
                        unsupported('conditional branch whose path ends in the middle of the template')
                    return self.addr_of_label(self.prog[last_label][1], last_label)
                tgt = If(cond, as_jump(rt, tpos), as_jump(rn, i + 1))
                mregs = {}
                for k in set(rt['regs']) | set(rn['regs']):
                    mregs[k] = If(cond, rt['regs'].get(k, regs.get(k)), rn['regs'].get(k, regs.get(k)))
                return dict(regs=mregs, mem=If(cond, rt['mem'], rn['mem']), exit=('jump', tgt),
                            writes=writes + rt['writes'] + rn['writes'], reads=reads + rt['reads'] + rn['reads'],
                            regs_written=rw | rt['regs_written'] | rn['regs_written'], flags_written=True)
            else:
                raise AssertionError(op)
            i += 1
        return dict(regs=regs, mem=mem, exit=ex, writes=writes, reads=reads, regs_written=rw, flags_written=flags)


# ------------------------------------------------------------------------------------------------
# 4. proof plumbing
# ------------------------------------------------------------------------------------------------
class Out:
    def __init__(self, witness=False):
        self.witness = witness      # witness twin: only the witness.* obligations are solved
        self.vacuous = []
        self.failed = []
        self.solver_s = 0.0
        self.n = 0

    def prove(self, name, desc, assumptions, goal, timeout_ms=120000, lemmas=False):
        """goal: one formula or a list of formulas (a conjunction that is discharged conjunct by conjunct,
        which is much cheaper for z3 than the conjunction as a whole; with lemmas=True conjuncts already proved are
        added as assumptions for the later ones: A, A->B  |-  A and B)"""
        goals = goal if isinstance(goal, (list, tuple)) else [goal]
        if self.witness and not name.startswith('witness.'):
            return True
        self.n += 1
        t_all = 0.0
        for k, g in enumerate(goals):
            s = Solver()
            s.set('timeout', timeout_ms)
            s.add(*assumptions)
            if lemmas:
                s.add(*goals[:k])
            s.add(Not(g))
            t0 = time.time()
            r = s.check()
            dt = time.time() - t0
            t_all += dt
            self.solver_s += dt
            if r == unsat:
                continue
            print('INFO   z3 %s on %s[%d/%d] in %.2fs' % (r, name, k + 1, len(goals), dt))
            if r == sat:
                print('OBLIGATION %s: FAILED %s' % (name, desc))
                m = s.model()
                print('  violated conjunct %d of %d: %s' % (k + 1, len(goals), str(simplify(g))[:300].replace('\n', ' ')))
                print('  counterexample (z3 model, scalars only):')
                for d in sorted(m.decls(), key=lambda d: d.name()):
                    v = m[d]
                    if is_bv_value(v):
                        print('    %-28s = 0x%016x' % (d.name(), v.as_long()))
                self.failed.append(name)
                return False
            unsupported('z3 returned %s on obligation %s' % (r, name))
        print('INFO   z3 unsat on %s (%d conjunct(s)) in %.2fs' % (name, len(goals), t_all))
        print('OBLIGATION %s: PROVED %s' % (name, desc))
        if name.startswith('witness.'):
            self.vacuous.append(name)
        return True

    def python_check(self, name, desc, ok, detail=''):
        if self.witness:
            return ok
        self.n += 1
        print('OBLIGATION %s: %s %s' % (name, 'PROVED' if ok else 'FAILED', desc))
        if not ok:
            print('  ' + detail)
            self.failed.append(name)
        return ok


def fresh_regs(tag):
    return {r: BitVec('%s_%s' % (tag, r), 64) for r in GPR}


def aligned(x, n=8):
    k = n.bit_length() - 1
    return Extract(k - 1, 0, x) == BitVecVal(0, k)


def in_range(a, lo, hi):      # lo <= a < hi, unsigned; callers assume lo <= hi
    return And(ULE(lo, a), ULT(a, hi))


def disjoint(lo1, hi1, lo2, hi2):
    return Or(ULE(hi1, lo2), ULE(hi2, lo1))


def const_of(e):
    e = simplify(e)
    if not is_bv_value(e):
        return None
    v = e.as_long()
    return v - 2 ** 64 if v >= 2 ** 63 else v


class Ctx:
    """scenario helper around the parsed program"""
    def __init__(self, info, prog):
        self.info, self.mach = info, Machine(prog)

    def swap(self, regs, mem, ctx_from, ctx_to):
        """registers at asm entry are `regs` except for the two operand registers, which the compiler
        sets up as the IR says: from = &ctx_from->sp_field, to = load ctx_to->sp_field"""
        r = dict(regs)
        r[self.info.from_reg] = ctx_from + BV(self.info.sp_off)
        r[self.info.to_reg] = Select(mem, ctx_to + BV(self.info.sp_off))
        res = self.mach.run(r, mem, 0)
        res['entry'] = r
        return res

    def resume_at(self, res, label_pos):
        """continue after arriving at a label of the template (what the resumed context executes before
        the compiler-generated code after the asm statement)"""
        tail = self.mach.run(res['regs'], res['mem'], label_pos)
        if tail['exit'][0] != 'end':
            unsupported('code after the resume label jumps again')
        return tail


def derive_frame(cx):
    """run the save half on a fresh state and read off what it leaves on the stack.
    returns dict(size, slots={off: regname|'@resume'}, resume_label=(addr,pos))"""
    R = fresh_regs('d')
    M = Array('d_mem', BitVecSort(64), BitVecSort(64))
    cf, ct = BitVec('d_ctx_from', 64), BitVec('d_ctx_to', 64)
    res = cx.swap(R, M, cf, ct)
    if res['exit'][0] != 'jump':
        unsupported('the template does not end its first part with an indirect jump')
    E = res['entry']
    field = cf + BV(cx.info.sp_off)
    ctx_w = [(a, v) for a, v in res['writes'] if simplify(a - field).eq(BV(0))]
    stk_w = [(a, v) for a, v in res['writes'] if const_of(a - E['rsp']) is not None]
    if len(ctx_w) != 1 or len(ctx_w) + len(stk_w) != len(res['writes']):
        unsupported('save half: writes are not "stack slots relative to rsp + exactly one store to *from": %r' % res['writes'])
    saved = const_of(ctx_w[0][1] - E['rsp'])
    if saved is None or saved >= 0 or saved % 8:
        unsupported('save half: value stored to *from is not rsp - const')
    slots = {}
    labels = {v: k for k, v in cx.mach.label_addr.items()}
    for a, v in stk_w:   # later writes to the same slot win
        off = const_of(a - E['rsp']) - saved
        src = None
        for rn in GPR:
            if simplify(v).eq(simplify(E[rn])):
                src = rn
        for lv, k in labels.items():
            if simplify(v).eq(lv):
                src = ('@resume', k)
        if src is None:
            unsupported('save half pushes a value that is neither an entry register nor a label address: %s' % v)
        slots[off] = src
    return dict(size=-saved, slots=slots)


def parse_layout_h():
    d = {}
    for m in re.finditer(r'^#define\s+(FRESH_\w+)\s+(\d+)', open(LAYOUT_H).read(), re.M):
        d[m.group(1)] = int(m.group(2))
    need = ['FRESH_ZERO_SLOTS', 'FRESH_OFF_RIP', 'FRESH_OFF_RET', 'FRESH_OFF_PARAM', 'FRESH_FRAME_BYTES', 'FRESH_SP_ALIGN']
    for k in need:
        if k not in d:
            unsupported('fresh_layout.h lacks %s' % k)
    return d


# ------------------------------------------------------------------------------------------------
# 5. obligations
# ------------------------------------------------------------------------------------------------
def check_all(info, prog, out, witness, scen='all'):
    cx = Ctx(info, prog)
    OFF = BV(info.sp_off)
    fr = derive_frame(cx)
    FS = fr['size']
    resume = [(o, s) for o, s in fr['slots'].items() if isinstance(s, tuple)]
    saved_regs = sorted(s for s in fr['slots'].values() if not isinstance(s, tuple))
    print('INFO frame derived from the save half: size=%d slots=%s' % (
        FS, ', '.join('+%d:%s' % (o, s if not isinstance(s, tuple) else 'label_%s' % s[1][0]) for o, s in sorted(fr['slots'].items()))))
    shape_ok = (len(resume) == 1 and sorted(fr['slots']) == list(range(0, FS, 8)) and saved_regs == sorted(CALLEE_SAVED))
    out.python_check('frame.shape',
                     'save half pushes every SysV callee-saved register (rbx rbp r12-r15) exactly once plus one resume address, '
                     'contiguously below the entry rsp, and stores rsp-framesize into *from',
                     shape_ok, 'derived: %r' % fr)
    if not shape_ok:
        if witness:   # the scenarios cannot be built; the hold job reports frame.shape as a genuine failure
            print('OBLIGATION witness.frame_shape: FAILED witness: scenarios not built because frame.shape failed (reported by the hold job)')
            out.failed.append('witness.frame_shape')
        return
    RIP_OFF = resume[0][0]
    L0 = cx.mach.label_addr[resume[0][1][1]]
    L0_pos = resume[0][1][1][1]
    slot_of = {s: o for o, s in fr['slots'].items() if not isinstance(s, tuple)}
    # how far above the saved sp does the restore half read (e.g. the 64(to) argument fetch)?
    probe = cx.swap(fresh_regs('p'), Array('p_mem', BitVecSort(64), BitVecSort(64)), BitVec('p_cf', 64), BitVec('p_ct', 64))
    sp_to = probe['entry'][info.to_reg]
    rd_offs = [const_of(a - sp_to) for a in probe['reads']]
    if any(o is None or o < 0 for o in rd_offs):
        unsupported('restore half reads from an address that is not to_sp + non-negative constant: %r' % probe['reads'])
    READ_SPAN = max(rd_offs) + 8
    print('INFO restore half reads to_sp+%s (span %d bytes); resume address slot +%d' % (sorted(set(rd_offs)), READ_SPAN, RIP_OFF))

    def mem0(tag):
        return Array(tag, BitVecSort(64), BitVecSort(64))

    want = lambda x: scen in ('all', x)

    def witness_ob(name, assumptions, what):
        if witness:
            out.prove('witness.' + name, 'witness: %s -- final state reachable (assumptions and path are satisfiable)' % what,
                      assumptions, BoolVal(False))

    # ------------------------------------------------------------------ (1) round trip A -> B -> A
    if want('roundtrip'):
        RA = fresh_regs('A')
        M0 = mem0('M0')
        cA, cB = BitVec('ctxA', 64), BitVec('ctxB', 64)
        topA = BitVec('topA', 64)          # one past the highest word of A's stack
        q = BitVec('q', 64)                # an arbitrary word of A's stack at/above its entry rsp
        rspA = RA['rsp']
        sB = Select(M0, cB + OFF)
        lowA = rspA - BV(FS)
        asm = [
            # alignment (see module docstring)
            aligned(rspA), aligned(cA), aligned(cB), aligned(sB), aligned(q),
            # no wrap-around of the address ranges used below
            UGE(rspA, BV(FS)), ULE(rspA, topA), ULE(sB, BV(2 ** 64 - 1 - READ_SPAN)), ULE(cA, BV(2 ** 64 - 64)), ULE(cB, BV(2 ** 64 - 64)),
            # B is a suspended context: its saved sp points at a frame written by the save half, i.e. the
            # resume slot holds the address of the resume label (the register slots hold B's registers: arbitrary)
            Select(M0, sB + BV(RIP_OFF)) == L0,
            # privacy: A's context struct is not inside A's stack; B's saved frame (and the words above it that the
            # restore half reads) is not inside the part of A's stack the save half is about to use, nor is it A's ctx field
            Not(in_range(cA + OFF, lowA, topA)),
            disjoint(sB, sB + BV(READ_SPAN), lowA, rspA),
            Not(in_range(cA + OFF, sB, sB + BV(READ_SPAN))),
            # q ranges over A's live stack
            in_range(q, rspA, topA),
        ]
        s1 = cx.swap(RA, M0, cA, cB)
        goals1 = [s1['exit'][1] == L0, s1['regs']['rsp'] == sB + BV(FS)]
        goals1 += [s1['regs'][r] == Select(M0, sB + BV(slot_of[r])) for r in CALLEE_SAVED]
        out.prove('roundtrip.enter_B', 'A->B: control arrives at the resume label of the suspended context B with B\'s saved '
                  'callee-saved registers and rsp == B\'s saved sp + frame size', asm, goals1)
        out.prove('roundtrip.writes_confined', 'A->B: the swap code writes only to [entry_rsp-%d, entry_rsp) and to *from' % FS,
                  asm, [Or(in_range(a, lowA, rspA), a == cA + OFF) for a, _ in s1['writes']])
        out.prove('roundtrip.saved_sp', 'A->B: the stack pointer stored into A\'s context is entry_rsp-%d' % FS,
                  asm, Select(s1['mem'], cA + OFF) == lowA)
        out.prove('roundtrip.aligned', 'A->B: every memory access of the swap code is 8-byte aligned (word memory model is exact)',
                  asm, And(*[aligned(a) for a in [w[0] for w in s1['writes']] + s1['reads']]))
        # B runs: arbitrary registers, arbitrary memory except what is private to the suspended A
        RB = fresh_regs('B2')
        M2 = mem0('M2')
        protectedA = [lowA + BV(8 * k) for k in range(FS // 8)] + [cA + OFF, q]
        rspB = RB['rsp']
        asm2 = asm + [Select(M2, a) == Select(s1['mem'], a) for a in protectedA] + [
            aligned(rspB), UGE(rspB, BV(FS)),
            # B switches back from somewhere on ITS stack: the frame it pushes and its ctx field are not in A's private memory
            disjoint(rspB - BV(FS), rspB, lowA, topA),
            Not(in_range(cB + OFF, lowA, topA)), cB + OFF != cA + OFF,
        ]
        s2 = cx.swap(RB, M2, cB, cA)
        out.prove('roundtrip.control', 'A->B->A: control returns to A at the resume label pushed by A (rip == address of label)',
                  asm2, s2['exit'][1] == L0)
        fin = cx.resume_at(s2, L0_pos)
        out.prove('roundtrip.callee_saved', 'A->B->A: at the resume label rbx, rbp, r12-r15 equal their values at A\'s entry to the asm',
                  asm2, [fin['regs'][r] == RA[r] for r in CALLEE_SAVED])
        out.prove('roundtrip.rsp', 'A->B->A: at the resume label rsp equals its value at A\'s entry to the asm', asm2, fin['regs']['rsp'] == rspA)
        out.prove('roundtrip.stack_contents', 'A->B->A: every word of A\'s stack at addresses >= entry rsp is unchanged',
                  asm2, Select(fin['mem'], q) == Select(M0, q))
        out.prove('roundtrip.aligned2', 'B->A: every memory access of the swap code is 8-byte aligned', asm2,
                  And(*[aligned(a) for a in [w[0] for w in s2['writes'] + fin['writes']] + s2['reads'] + fin['reads']]))
        witness_ob('roundtrip', asm2 + [s1['exit'][1] == L0, s2['exit'][1] == L0], 'A->B->A')

    # ------------------------------------------------------------------ (2) frame invariant, one step
    if want('invariant'):
        # Inv(X, V): mem[sp_X + off] == V[src(off)] for every slot of the derived frame; V is X's register file when it
        # was switched out (V['@rip'] = where it continues).  One swap from -> to with a bystander C.
        RF = fresh_regs('F')
        Mi = mem0('Mi')
        cF, cT, cC = BitVec('ctxFrom', 64), BitVec('ctxTo', 64), BitVec('ctxC', 64)
        VT = {r: BitVec('VT_' + r, 64) for r in CALLEE_SAVED + ['@rip']}
        VC = {r: BitVec('VC_' + r, 64) for r in CALLEE_SAVED + ['@rip']}
        sT, sC = Select(Mi, cT + OFF), Select(Mi, cC + OFF)

        def inv_list(mem, sp, V):
            c = [Select(mem, sp + BV(slot_of[r])) == V[r] for r in CALLEE_SAVED]
            c.append(Select(mem, sp + BV(RIP_OFF)) == V['@rip'])
            return c

        def inv(mem, sp, V):
            return And(*inv_list(mem, sp, V))
        rspF = RF['rsp']
        lowF = rspF - BV(FS)
        asm_i = [
            aligned(rspF), aligned(cF), aligned(cT), aligned(cC), aligned(sT), aligned(sC),
            UGE(rspF, BV(FS)), ULE(sT, BV(2 ** 64 - 1 - READ_SPAN)), ULE(sC, BV(2 ** 64 - 1 - FS)),
            ULE(cF, BV(2 ** 64 - 64)), ULE(cT, BV(2 ** 64 - 64)), ULE(cC, BV(2 ** 64 - 64)),
            inv(Mi, sT, VT), inv(Mi, sC, VC),
            # privacy of suspended contexts with respect to the running one
            Not(in_range(cF + OFF, lowF, rspF)),
            disjoint(sT, sT + BV(READ_SPAN), lowF, rspF), Not(in_range(cF + OFF, sT, sT + BV(READ_SPAN))),
            disjoint(sC, sC + BV(FS), lowF, rspF), Not(in_range(cF + OFF, sC, sC + BV(FS))),
            Not(in_range(cC + OFF, lowF, rspF)), cC + OFF != cF + OFF,
        ]
        si = cx.swap(RF, Mi, cF, cT)
        out.prove('invariant.consumed_for_to', 'one swap: the resumed context gets exactly the callee-saved registers, rsp and '
                  'continuation recorded in its frame (each register is restored from the slot it was saved to)', asm_i,
                  [si['exit'][1] == VT['@rip'], si['regs']['rsp'] == sT + BV(FS)] + [si['regs'][r] == VT[r] for r in CALLEE_SAVED])
        VF = {r: RF[r] for r in CALLEE_SAVED}
        VF['@rip'] = L0
        out.prove('invariant.established_for_from', 'one swap: afterwards the switched-out context satisfies the frame invariant with its '
                  'entry registers, the resume label as continuation and saved sp == entry_rsp-%d' % FS, asm_i,
                  [Select(si['mem'], cF + OFF) == lowF] + inv_list(si['mem'], lowF, VF))
        out.prove('invariant.preserved_for_others', 'one swap: the frame invariant and the saved sp of any other suspended context are untouched',
                  asm_i, [Select(si['mem'], cC + OFF) == sC] + inv_list(si['mem'], sC, VC))
        out.prove('invariant.aligned', 'one swap: every memory access is 8-byte aligned', asm_i,
                  And(*[aligned(a) for a in [w[0] for w in si['writes']] + si['reads']]))
        witness_ob('invariant', asm_i, 'one swap with a bystander')

    # ------------------------------------------------------------------ (2b) explicit chain A -> B -> C -> A
    if want('chain'):
        R = {'A': fresh_regs('cA'), 'B': fresh_regs('cB'), 'C': fresh_regs('cC')}   # registers when X calls swap
        c = {x: BitVec('chain_ctx' + x, 64) for x in 'ABC'}
        Mc = mem0('Mc0')
        rA = R['A']['rsp']
        lowA3, topA3, q3 = rA - BV(FS), BitVec('chain_topA', 64), BitVec('chain_q', 64)
        asm_c = [aligned(rA), aligned(q3), UGE(rA, BV(FS)), ULE(rA, topA3), in_range(q3, rA, topA3)]
        asm_c += [aligned(c[x]) for x in 'ABC'] + [ULE(c[x], BV(2 ** 64 - 64)) for x in 'ABC']
        asm_c += [Not(in_range(c['A'] + OFF, lowA3, topA3)), c['A'] + OFF != c['B'] + OFF, c['A'] + OFF != c['C'] + OFF,
                  c['B'] + OFF != c['C'] + OFF]
        protA = [lowA3 + BV(8 * k) for k in range(FS // 8)] + [c['A'] + OFF, q3]
        sBc, sCc = Select(Mc, c['B'] + OFF), Select(Mc, c['C'] + OFF)
        for s_ in (sBc, sCc):
            asm_c += [aligned(s_), ULE(s_, BV(2 ** 64 - 1 - READ_SPAN)), Select(Mc, s_ + BV(RIP_OFF)) == L0,
                      disjoint(s_, s_ + BV(READ_SPAN), lowA3, topA3), Not(in_range(c['A'] + OFF, s_, s_ + BV(READ_SPAN)))]
        asm_c += [disjoint(sBc, sBc + BV(READ_SPAN), sCc, sCc + BV(READ_SPAN))]
        # C's frame must survive B's switch: B pushes on its own stack, not onto C's frame
        k1 = cx.swap(R['A'], Mc, c['A'], c['B'])
        Mb = mem0('Mc1')
        rB = R['B']['rsp']
        protC = [sCc + BV(8 * k) for k in range(READ_SPAN // 8)] + [c['C'] + OFF]
        asm_c += [Select(Mb, a) == Select(k1['mem'], a) for a in protA + protC]
        asm_c += [aligned(rB), UGE(rB, BV(FS)), disjoint(rB - BV(FS), rB, lowA3, topA3), Not(in_range(c['B'] + OFF, lowA3, topA3)),
                  disjoint(rB - BV(FS), rB, sCc, sCc + BV(READ_SPAN)), Not(in_range(c['B'] + OFF, sCc, sCc + BV(READ_SPAN))),
                  # context structs are heap objects, never inside the stack area a fiber is pushing onto
                  Not(in_range(c['A'] + OFF, rB - BV(FS), rB)), Not(in_range(c['C'] + OFF, rB - BV(FS), rB))]
        k2 = cx.swap(R['B'], Mb, c['B'], c['C'])
        Mcc = mem0('Mc2')
        rC = R['C']['rsp']
        asm_c += [Select(Mcc, a) == Select(k2['mem'], a) for a in protA]
        asm_c += [aligned(rC), UGE(rC, BV(FS)), disjoint(rC - BV(FS), rC, lowA3, topA3), Not(in_range(c['C'] + OFF, lowA3, topA3))]
        k3 = cx.swap(R['C'], Mcc, c['C'], c['A'])
        fin3 = cx.resume_at(k3, L0_pos)
        out.prove('chain.A_B_C_A', 'chain A->B->C->A: every hop arrives at the resume label of its target and A finally observes its '
                  'callee-saved registers, rsp and stack contents (>= entry rsp) unchanged', asm_c,
                  [k1['exit'][1] == L0, k2['exit'][1] == L0, k3['exit'][1] == L0, fin3['regs']['rsp'] == rA,
                   Select(fin3['mem'], q3) == Select(Mc, q3)] + [fin3['regs'][r] == R['A'][r] for r in CALLEE_SAVED], lemmas=True)
        witness_ob('chain', asm_c, 'A->B->C->A')

    # ------------------------------------------------------------------ (3) fresh context
    if want('fresh'):
        lay = parse_layout_h()
        RN = fresh_regs('N')
        Mn = mem0('Mn')
        cN, cX = BitVec('ctxRunning', 64), BitVec('ctxFresh', 64)
        fn, param = BitVec('run_function', 64), BitVec('param', 64)
        stack, size = BitVec('fresh_stack', 64), BitVec('fresh_stack_size', 64)
        sp = Select(Mn, cX + OFF)
        rspN = RN['rsp']
        lowN = rspN - BV(FS)
        FB = lay['FRESH_FRAME_BYTES']
        asm_f = [aligned(rspN), aligned(cN), aligned(cX), UGE(rspN, BV(FS)), ULE(cN, BV(2 ** 64 - 64)), ULE(cX, BV(2 ** 64 - 64)),
                 # exactly what E1 (ctx_e1.c, check_fresh_frame) proves about the real fiber_context_init:
                 aligned(sp, lay['FRESH_SP_ALIGN']),
                 ULE(stack, stack + size), ULE(stack, sp), ULE(sp, BV(2 ** 64 - 1 - FB)), ULE(sp + BV(FB), stack + size),
                 Select(Mn, sp + BV(lay['FRESH_OFF_RIP'])) == fn, Select(Mn, sp + BV(lay['FRESH_OFF_RET'])) == BV(0),
                 Select(Mn, sp + BV(lay['FRESH_OFF_PARAM'])) == param]
        asm_f += [Select(Mn, sp + BV(8 * k)) == BV(0) for k in range(lay['FRESH_ZERO_SLOTS'])]
        # privacy: the running context's frame / ctx field do not overlap the fresh stack
        asm_f += [disjoint(lowN, rspN, stack, stack + size), Not(in_range(cN + OFF, stack, stack + size)), Not(in_range(cN + OFF, lowN, rspN))]
        sf = cx.swap(RN, Mn, cN, cX)
        e = sf['regs']
        out.prove('fresh.entry_point', 'fresh context: the restore half jumps to run_function (rip == run_function)', asm_f, sf['exit'][1] == fn)
        out.prove('fresh.argument', 'fresh context: rdi (first integer argument) == param', asm_f, e['rdi'] == param)
        out.prove('fresh.rsp', 'fresh context: rsp == sp+%d, it points at the NULL dummy return address, (rsp+8) %% 16 == 0 '
                  '(SysV alignment at function entry) and rsp lies inside [ctx_stack, ctx_stack+size)' % lay['FRESH_OFF_RET'], asm_f,
                  [e['rsp'] == sp + BV(lay['FRESH_OFF_RET']), Select(sf['mem'], e['rsp']) == BV(0), aligned(e['rsp'] + BV(8), 16),
                   ULE(stack, e['rsp']), ULT(e['rsp'], stack + size)])
        out.prove('fresh.callee_saved_zero', 'fresh context: rbx, rbp, r12-r15 are 0 on entry', asm_f, [e[r] == BV(0) for r in CALLEE_SAVED])
        out.prove('fresh.frame_intact', 'fresh context: switching into it does not modify its own initial frame or any word of its stack', asm_f,
                  [Not(in_range(a, stack, stack + size)) for a, _ in sf['writes']])
        out.prove('fresh.aligned', 'fresh context: every memory access is 8-byte aligned', asm_f,
                  And(*[aligned(a) for a in [w[0] for w in sf['writes']] + sf['reads']]))
        witness_ob('fresh', asm_f, 'switch into a fresh context')

    # ------------------------------------------------------------------ (4) clobber declaration (REPORT, not a verdict)
    report_clobbers(info, cx, probe, FS)


def report_clobbers(info, cx, probe, fs):
    tail = cx.mach.run(probe['regs'], probe['mem'], max([p for ps in cx.mach.label_pos.values() for p in ps] + [0]))
    written = set(probe['regs_written']) | set(tail['regs_written'])
    flags = probe['flags_written'] or tail['flags_written']
    declared = set(CONSTRAINT_REG.get(c, c) for c in info.clobbers)
    inputs = set(info.input_regs)
    restored = set(CALLEE_SAVED) | {'rsp'}
    undeclared = sorted(r for r in written if r not in declared and r not in restored)
    print('NOTE clobbers: asm flags=%s constraints="%s"' % (' '.join(info.asm_flags), info.constraints))
    print('NOTE clobbers: registers written by the template: %s%s' % (' '.join(sorted(written)), ' +flags' if flags else ''))
    print('NOTE clobbers: declared clobbers: %s ; input operands: %s' % (' '.join(sorted(info.clobbers)), ' '.join(info.input_regs)))
    print('NOTE clobbers: callee-saved registers + rsp are written but restored for the resuming context (obligations roundtrip.*): %s'
          % ' '.join(sorted(written & restored)))
    for r in undeclared:
        kind = 'an INPUT-ONLY operand register that the template overwrites' if r in inputs else 'neither an operand nor a declared clobber'
        print('NOTE clobbers: %s is written by the template but is %s' % (r, kind))
    bad = [r for r in undeclared if r not in CALLER_SAVED]
    print('NOTE clobbers: undeclared written registers are all call-clobbered (caller-saved) in the SysV ABI: %s' % ('yes' if not bad else 'NO: %s' % bad))
    if flags and not ({'cc', 'flags'} & set(info.clobbers)):
        print('NOTE clobbers: flags are written but not declared ("cc")')
    print('NOTE clobbers: "memory" declared: %s' % ('yes' if 'memory' in info.clobbers else 'NO'))
    after = info.after_asm
    print('NOTE clobbers: IR after the asm statement in fiber_context_swap: %s' % ' | '.join(after))
    only_ret = after == ['ret void']
    print('NOTE clobbers: in the clang -O1 IR the asm is %s, so no value of this function can be live in an undeclared '
          'register across it; callers treat rax/rcx/rdx/rsi/rdi/r8-r11 as clobbered by the CALL -- safe as long as '
          'fiber_context_swap is not inlined (it is an external function in its own translation unit; LTO would break this)'
          % ('immediately followed by `ret void`' if only_ret else 'FOLLOWED BY MORE CODE: ' + ' | '.join(after)))
    print('NOTE clobbers: the template pushes %d bytes below rsp without declaring it: this is the red zone of fiber_context_swap; '
          'harmless only while the compiler keeps nothing live there across the asm (nothing is live after it, see above)' % fs)
    lib = os.path.join(REPO, '_build', 'libfiber.a')
    if os.path.exists(lib):
        try:
            dis = subprocess.run(['objdump', '-d', '--no-show-raw-insn', lib], stdout=subprocess.PIPE, stderr=subprocess.DEVNULL,
                                 text=True, timeout=60).stdout
            m = re.search(r'<fiber_context_swap>:\n(.*?)\n\n', dis, re.S)
            calls = len(re.findall(r'call\s+.*<fiber_context_swap', dis))
            inl = len(re.findall(r'jmp\s+\*%rcx', dis))
            if m:
                body = m.group(1).split('\n')
                j = [i for i, l in enumerate(body) if re.search(r'jmp\s+\*%rcx', l)]
                if j:
                    tail_ins = [re.sub(r'^\s*[0-9a-f]+:\s*', '', l) for l in body[j[0] + 1:]]
                    upto = []
                    for l in tail_ins:
                        upto.append(l.strip())
                        if l.strip().startswith('ret'):
                            break
                    uses = [l for l in upto if re.search(r'%(r|e)?(ax|cx|di)\b|%(al|cl|dil)\b', l)]
                    print('NOTE clobbers: pinned build %s: code after the resume label in fiber_context_swap: %s' % (lib, ' ; '.join(upto)))
                    print('NOTE clobbers: pinned build: that code %s rax/rcx/rdi' % ('READS/WRITES' if uses else 'does not touch'))
            print('NOTE clobbers: pinned build: `jmp *%%rcx` occurs %d time(s) in libfiber.a (1 == the asm was not inlined anywhere)' % inl)
        except Exception as ex:  # report only
            print('NOTE clobbers: could not inspect %s: %s' % (lib, ex))


# ------------------------------------------------------------------------------------------------
def main():
    ap = argparse.ArgumentParser()
    ap.add_argument('--build', default=os.path.join(VERIF, 'build', 'C19', 'e3'))
    ap.add_argument('--witness', action='store_true')
    ap.add_argument('--parse-only', action='store_true')
    ap.add_argument('--scenario', default='all', choices=['all', 'roundtrip', 'invariant', 'chain', 'fresh'])
    a = ap.parse_args()
    out = Out(a.witness)
    try:
        ll, cmd = regenerate_ir(a.build)
        print('INFO regenerated IR: ' + cmd)
        info = parse_ir(ll)
        prog = parse_template(info)
        print('INFO struct fiber_context fields %s offsets %s' % (info.fields, info.field_off))
        print('INFO asm operands: from = &param0->field%d (offset %d) in %%%s ($%d); to = load param1->field%d in %%%s ($%d)'
              % (info.sp_field, info.sp_off, info.from_reg, info.from_index, info.sp_field, info.to_reg, info.to_index))
        print('INFO constraints: %s' % info.constraints)
        for i, ins in enumerate(prog):
            print('INFO   %2d  %s' % (i, ' '.join(str(x) for x in ins)))
        if a.parse_only:
            print('RESULT: PARSED')
            return 0
        check_all(info, prog, out, a.witness, a.scenario)
    except Unsupported as ex:
        print('UNSUPPORTED: %s' % ex)
        print('RESULT: ERROR (input form not modelled; this is not a verdict)')
        return 2
    print('SOLVER_S: %.2f' % out.solver_s)
    if out.vacuous:
        print('VACUOUS: the assumptions of %s are unsatisfiable -- the corresponding obligations prove nothing' % ' '.join(out.vacuous))
        print('RESULT: ERROR (vacuous scenario)')
        return 2
    if out.failed:
        print('RESULT: FAILED (%d of %d obligations: %s)' % (len(out.failed), out.n, ' '.join(out.failed)))
        return 1
    print('RESULT: PROVED (%d obligations)' % out.n)
    return 0


if __name__ == '__main__':
    sys.exit(main())
