#!/bin/bash
# usage: seeded_try.sh <property> <tree-with-mutation-applied> [check args...]   -- runs the property's check against a mutated tree
P=$1; T=$2; shift 2
cd /verif && VERIF_BUILD=/verif/build/_alt_$(basename $T) VERIF_REPO=$T ./check $P "$@" 2>&1 | grep -E "^VIOLATION|^  job=|^INCONCLUSIVE|^BROKEN|^ERROR|tier=" | cut -c1-260
